"""Apply each behaviour-preserving refactoring (written by independent sub-agents; the full test
suite passes with each) to a scratch copy of /repo (removed afterwards), run every registered quick
check on it.  Every check must stay at exit 0: anything else is a false alarm (exit 1) or a lost
verdict (exit 2).  /repo itself is not touched.  usage: run_refactorings.py [-v] [id-prefix ...]"""
import json, os, subprocess, sys, glob, shutil, tempfile
from concurrent.futures import ThreadPoolExecutor
VERIF = "/verif"
only = [a for a in sys.argv[1:] if not a.startswith("-")]
CORPUS = "benign" if "--benign" in sys.argv else "refactorings"   # behaviour-preserving refactorings / property-preserving changes
m = json.load(open(f"{VERIF}/MANIFEST.json"))
props = [c["property_id"] for c in m["checks"]]


def sh(cmd, **kw):
    return subprocess.run(cmd, shell=True, capture_output=True, text=True, **kw)


def run(patch):
    rid = os.path.basename(os.path.dirname(patch))
    tmp = tempfile.mkdtemp(prefix="mverif-refac-")
    try:
        sh(f"rsync -a --exclude .git --exclude __pycache__ /repo/ {tmp}/")
        r = sh(f"cd {tmp} && git init -q . 2>/dev/null; git apply {patch}")
        if r.returncode != 0:
            return rid, None, [f"APPLY FAILED {r.stderr[:200]}"]
        alarms, unknowns, lines = [], [], []
        env = dict(os.environ, MVERIF_REPO=tmp)
        for p in props:
            r = sh(f"/venv/bin/python -m mverif check {p} --no-evidence", cwd=VERIF, env=env)
            if r.returncode == 1:
                alarms.append(p)
            elif r.returncode == 2:
                unknowns.append(p)
            if r.returncode:
                lines += [l.strip()[:400] for l in r.stdout.splitlines() if l.startswith(("  mosaik", "ANALYSIS-ERROR", "  R", "   "))][:2]
        return rid, {"false_alarm_in": alarms, "no_verdict_in": unknowns}, sorted(set(lines))
    finally:
        shutil.rmtree(tmp, ignore_errors=True)


todo = [p for p in sorted(glob.glob(f"{VERIF}/{CORPUS}/*/patch.diff")) if not only or any(os.path.basename(os.path.dirname(p)).startswith(o) for o in only)]
summary = {}
with ThreadPoolExecutor(max_workers=int(os.environ.get("JOBS", "12"))) as ex:
    for rid, rec, lines in ex.map(run, todo):
        if rec is None:
            print(rid, lines)
            continue
        summary[rid] = rec
        alarms, unknowns = rec["false_alarm_in"], rec["no_verdict_in"]
        print(f"{rid:11s} {'FALSE-ALARM' if alarms else 'NO-VERDICT' if unknowns else 'silent':12s} alarms={','.join(alarms) or '-'} unknown={','.join(unknowns) or '-'}", flush=True)
        if "-v" in sys.argv:
            for l in lines:
                print("      ", l)
if only:
    try:
        prev = json.load(open(f"{VERIF}/{CORPUS}/last_run.json"))
    except Exception:
        prev = {}
    prev.update(summary)
    summary = prev
json.dump({k: summary[k] for k in sorted(summary)}, open(f"{VERIF}/{CORPUS}/last_run.json", "w"), indent=1)
