"""Apply each behaviour-preserving refactoring (written by independent sub-agents; the full
test suite passes with each) to /repo, run every registered quick check, undo it.  Every check
must stay at exit 0: anything else is a false alarm (exit 1) or a lost verdict (exit 2)."""
import json, os, subprocess, sys, glob
VERIF = "/verif"
only = [a for a in sys.argv[1:] if not a.startswith("-")]
m = json.load(open(f"{VERIF}/MANIFEST.json"))
props = [c["property_id"] for c in m["checks"]]
def sh(cmd, **kw):
    return subprocess.run(cmd, shell=True, capture_output=True, text=True, **kw)
assert sh("git -C /repo status --porcelain").stdout.strip() == "", "/repo not clean"
summary = {}
for patch in sorted(glob.glob(f"{VERIF}/refactorings/*/patch.diff")):
    rid = os.path.basename(os.path.dirname(patch))
    if only and not any(rid.startswith(o) for o in only):
        continue
    r = sh(f"git -C /repo apply {patch}")
    if r.returncode != 0:
        print(rid, "APPLY FAILED", r.stderr[:200]); continue
    try:
        alarms, unknowns, lines = [], [], []
        for p in props:
            r = sh(f"/venv/bin/python -m mverif check {p} --no-evidence", cwd=VERIF)
            if r.returncode == 1:
                alarms.append(p)
            elif r.returncode == 2:
                unknowns.append(p)
            if r.returncode:
                lines += [l.strip()[:400] for l in r.stdout.splitlines() if l.startswith(("  mosaik", "ANALYSIS-ERROR", "  R", "   "))][:2]
        summary[rid] = {"false_alarm_in": alarms, "no_verdict_in": unknowns}
        print(f"{rid:10s} {'FALSE-ALARM' if alarms else 'NO-VERDICT' if unknowns else 'silent':12s} alarms={','.join(alarms) or '-'} unknown={','.join(unknowns) or '-'}")
        if "-v" in sys.argv:
            for l in sorted(set(lines)):
                print("      ", l)
    finally:
        sh("git -C /repo checkout -- .")
assert sh("git -C /repo status --porcelain").stdout.strip() == ""
json.dump(summary, open(f"{VERIF}/refactorings/last_run.json", "w"), indent=1)
