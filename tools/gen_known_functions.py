"""Regenerate mverif/known_functions.txt from /repo (only after reviewing what is new)."""
import sys
sys.path.insert(0, "/verif")
from mverif.loader import Program
p = Program("/repo")
hdr = ("# qualified names of the functions of the pinned tree (after the fix: commits): a function that is not\n"
       "# listed here is a helper introduced by a later change and is analysed spliced into its callers\n")
open("/verif/mverif/known_functions.txt", "w").write(hdr + "\n".join(sorted(p.functions)) + "\n")

# inventory for the canonicalisation of renames (mverif/renames.py)
import json
from mverif import renames
inv = renames.build_inventory({m.name: m.tree for m in p.modules.values()})
json.dump(inv, open("/verif/mverif/known_inventory.json", "w"), indent=0, sort_keys=True)
print(len(inv["functions"]), "functions,", len(inv["fields"]), "classes in the inventory")

# module-level names of the pinned tree: a module-level constant that is not listed is new, and is read as its value
globs = sorted(f"{m.name}.{n}" for m in p.modules.values() for n in m.globals_assigned)
open("/verif/mverif/known_globals.txt", "w").write("# module-level assigned names of the pinned tree\n" + "\n".join(globs) + "\n")
print(len(globs), "module-level names")
