"""Regenerate mverif/known_functions.txt from /repo (only after reviewing what is new)."""
import sys
sys.path.insert(0, "/verif")
from mverif.loader import Program
p = Program("/repo")
hdr = ("# qualified names of the functions of the pinned tree (after the fix: commits): a function that is not\n"
       "# listed here is a helper introduced by a later change and is analysed spliced into its callers\n")
open("/verif/mverif/known_functions.txt", "w").write(hdr + "\n".join(sorted(p.functions)) + "\n")
