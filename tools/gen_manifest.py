"""Regenerate /verif/MANIFEST.json from mverif.props (keeps commands, levels and the
not_applicable list consistent with what is implemented)."""
import json, os, sys
sys.path.insert(0, os.path.dirname(os.path.dirname(os.path.abspath(__file__))))
from mverif import props

ALL = [json.loads(l) for l in open(os.path.join(os.path.dirname(__file__), "..", "properties.jsonl"))]
NA_REASON = getattr(props, "NOT_APPLICABLE", {})
checks = []
na = []
for p in ALL:
    pid = p["id"]
    if pid in props.PROPERTY_RULES and props.rules_for(pid):
        decided, undecided = props.CLAIMS.get(pid, ("structural obligations", "behaviour over executions"))
        rules = ",".join(props.rules_for(pid))
        checks.append({
            "property_id": pid,
            "quick_cmd": f"/venv/bin/python -m mverif check {pid} --tier quick",
            "thorough_cmd": f"/venv/bin/python -m mverif check {pid} --tier thorough",
            "evidence_file": f"/verif/evidence/{pid}.json",
            "replay_cmd_template": "/venv/bin/python -m mverif replay {path}",
            "engine": "mverif",
            "level_claimed": {
                "category": "other",
                "text": f"Static analysis of /repo's current source (rules {rules}): decides, on all paths of the anchored functions, the structural "
                        f"necessary conditions of the property: {decided}. It decides that part and not the behaviour; not decided: {undecided}.",
                "design_ref": "DESIGN.md sections 3 and 4",
            },
            "level_note": "trusted base: CPython ast/compile/symtable, the mverif kit (flow normaliser, CFG, decision tables, annotation-driven typing), "
                          "the rule tables of DESIGN.md section 3; assumes simulators and mosaik_api_v3 behave as documented; nothing is executed",
            "technique": "static analysis: normalised dataflow terms + CFG dominance/suspension regions + exhaustive decision tables over canonical comparison atoms ("
                         + rules + ")",
        })
    else:
        na.append({"property_id": pid, "reason": NA_REASON.get(pid, "no rule implemented yet for this property (build in progress); see DESIGN.md section 9")})
m = {
    "version": 1,
    "setup_cmd": "/venv/bin/python -c 'import ast, symtable, networkx; import mverif.loader'",
    "hooks": {"guard": "MOSAIK_VERIF_HOOKS", "enable": "none needed: the checks read /repo's source only (no hooks were added)",
              "baseline_off_cmd": "cd /repo && /venv/bin/python -m pytest -ra -q -p no:cacheprovider --timeout=900 --continue-on-collection-errors",
              "source_commits": [], "add_only": True},
    "engines": [{"name": "mverif", "path": "/verif/mverif", "serves_properties": [c["property_id"] for c in checks],
                 "kind_free_text": "repository-specific static analyser (ast -> normalised terms, CFG, typing, decision tables); no execution, no solver"}],
    "checks": checks,
    "not_applicable": na,
    "notes": "exit 0 = all obligations discharged (KNOWN-FINDING lines for findings listed in known_findings.json); exit 1 = VIOLATION; exit 2 = ANALYSIS-ERROR (no verdict)",
}
json.dump(m, open(os.path.join(os.path.dirname(__file__), "..", "MANIFEST.json"), "w"), indent=1)
print(len(checks), "checks,", len(na), "not applicable")
