"""Developer aid: run a batch of candidate edits (each on its own scratch copy, statically) and print, per edit,
which obligations are violated / unknown and which property checks would report it.
usage: try_batch.py <batchfile.py> [name-substring ...]
The batch file defines  B = [(name, [(relfile, old, new), ...], "expected property ids or note"), ...]"""
import os, runpy, shutil, sys, tempfile
from concurrent.futures import ProcessPoolExecutor
sys.path.insert(0, "/verif")


def run(item):
    name, edits, note = item
    tmp = tempfile.mkdtemp(prefix="mverif-try-")
    try:
        shutil.copytree("/repo/mosaik", os.path.join(tmp, "mosaik"), ignore=shutil.ignore_patterns("__pycache__"))
        for rel, old, new in edits:
            p = os.path.join(tmp, rel)
            s = open(p).read()
            if old not in s:
                return name, note, "SKIP", [f"text not found: {old[:70]!r}"]
            s = s.replace(old, new, 1)
            try:
                compile(s, p, "exec")
            except SyntaxError as e:
                return name, note, "SKIP", [f"does not compile: {e}"]
            open(p, "w").write(s)
        from mverif import props
        from mverif.loader import Program, AnalysisError
        from mverif.rules.base import Ctx
        from mverif.report import load_known
        known = {k["key"] for k in load_known() if k.get("status") == "known"}
        ctx = Ctx(Program(tmp))
        lines, vp, up = [], set(), set()

        def sel(oid):
            return [p for p in sorted(props.PROPERTY_RULES) if props.selected(p, oid)]
        for r in sorted(props.RULE_MODULES, key=lambda r: int(r[1:])):
            try:
                col = props.rule_module(r).run(ctx)
            except Exception as e:
                ps = [p for p in sorted(props.PROPERTY_RULES) if r in props.rules_for(p)]
                up.update(ps)
                lines.append(f"UNKNOWN {r}: {type(e).__name__} {str(e)[:200]}")
                continue
            for o in col.obs:
                if o.verdict == "violated" and o.key not in known:
                    vp.update(sel(o.oid)); lines.append(f"VIOLATED {o.oid} {o.func.split('.')[-1]}: {o.detail[:160]}")
                elif o.verdict == "unknown":
                    up.update(sel(o.oid)); lines.append(f"UNKNOWN {o.oid} {o.func.split('.')[-1]}: {o.detail[:160]}")
        st = "VIOL[" + ",".join(sorted(vp)) + "]" if vp else ""
        if up - vp:
            st += " UNK[" + ",".join(sorted(up - vp)) + "]"
        return name, note, st or "SILENT", lines
    finally:
        shutil.rmtree(tmp, ignore_errors=True)


if __name__ == "__main__":
    B = runpy.run_path(sys.argv[1])["B"]
    only = sys.argv[2:]
    B = [b for b in B if not only or any(o in b[0] for o in only)]
    with ProcessPoolExecutor(max_workers=int(os.environ.get("JOBS", "8"))) as ex:
        for name, note, st, lines in ex.map(run, B):
            print(f"{name:28s} expect={note:12s} {st}")
            if "-v" in os.environ.get("V", "") or st == "SILENT" or "UNK" in st or st == "SKIP":
                for l in lines[:6]:
                    print("      ", l)
