#!/bin/bash
# Confirm the seeded mutations of one property in its scratch worktree:
#   demo passes on the untouched tree, fails with the patch, the full suite still passes with it.
# usage: confirm_seeds.sh C07   (worktree /tmp/seed/C07 with _seed/m1, _seed/m2)
P=$1; WT=${SEED_ROOT:-/tmp/seed}/$P
cd $WT || exit 2
for m in m1 m2 m3 m4; do
  D=$WT/_seed/$m
  [ -f $D/patch.diff ] || continue
  git checkout -q -- mosaik
  R="$P/$m"
  PYTHONPATH=$WT timeout 120 /venv/bin/python $D/demo.py >$D/clean.log 2>&1; c=$?
  git apply $D/patch.diff || { echo "$R APPLY-FAILED"; continue; }
  PYTHONPATH=$WT timeout 120 /venv/bin/python $D/demo.py >$D/mut.log 2>&1; mu=$?
  PYTHONPATH=$WT timeout 900 /venv/bin/python -m pytest -q -p no:cacheprovider --timeout=900 >$D/tests.log 2>&1; t=$?
  tl=$(tail -1 $D/tests.log)
  git checkout -q -- mosaik
  echo "$R clean_exit=$c mutated_exit=$mu tests_exit=$t [$tl]"
done
