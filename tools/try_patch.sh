#!/bin/bash
# usage: try_patch.sh <patch.diff> <property> : apply to /repo, run the property's quick check, undo
git -C /repo apply "$1" || exit 3
cd /verif && /venv/bin/python -m mverif check "$2" --no-evidence 2>&1 | grep -v "^  ok \|^discharged" | head -${3:-25}
echo "exit=${PIPESTATUS[0]}"
git -C /repo checkout -- .
