"""Run every registered check (quick by default) in /verif against /repo, validate manifest and
evidence against the schemas.  usage: run_all.py [quick|thorough]"""
import json, subprocess, sys, time
tier = sys.argv[1] if len(sys.argv) > 1 else "quick"
m = json.load(open("/verif/MANIFEST.json"))
try:
    import jsonschema
    jsonschema.validate(m, json.load(open("/root/.vp/MANIFEST.schema.json")))
    EV = json.load(open("/root/.vp/EVIDENCE.schema.json"))
except ImportError:
    jsonschema = None
bad = 0
for c in m["checks"]:
    cmd = c["quick_cmd"] if tier == "quick" else c["thorough_cmd"]
    t0 = time.time()
    r = subprocess.run(cmd, shell=True, cwd="/verif", capture_output=True, text=True)
    ev = json.load(open(c["evidence_file"]))
    if jsonschema:
        jsonschema.validate(ev, EV)
    kf = sum(1 for l in r.stdout.splitlines() if l.startswith("KNOWN-FINDING"))
    st = ev["coverage"].get("selftest", {})
    print(f"{c['property_id']} exit={r.returncode} obligations={ev['coverage']['obligations']} discharged={ev['coverage']['discharged']} known={kf} "
          f"{'sens=' + st.get('sensitivity', '') + ' spec=' + st.get('specificity', '') if st else ''} {time.time() - t0:.1f}s")
    if r.returncode != 0 or "VIOLATION" in r.stdout:
        bad += 1
        print(r.stdout[-1500:])
sys.exit(1 if bad else 0)
