#!/bin/bash
# usage: scratch.sh <patch.diff> : creates /tmp/mv-scratch with the patch applied to a copy of /repo/mosaik; use MVERIF_REPO=/tmp/mv-scratch
rm -rf /tmp/mv-scratch; mkdir -p /tmp/mv-scratch; cp -r /repo/mosaik /tmp/mv-scratch/; cd /tmp/mv-scratch; git init -q . 2>/dev/null; git apply "$1" && echo applied
