"""Run every rule module once on MVERIF_REPO (default /repo) and print what is not discharged
and not a known finding.  exit 0 = nothing, 1 = violations, 2 = unknown only."""
import sys
sys.path.insert(0, "/verif")
from mverif import props
from mverif.loader import Program, AnalysisError
from mverif.rules.base import Ctx
from mverif.report import load_known
known = {k["key"] for k in load_known() if k.get("status") == "known"}
ctx = Ctx(Program())
viol = unk = 0
for r in sorted(props.RULE_MODULES, key=lambda r: int(r[1:])):
    try:
        col = props.rule_module(r).run(ctx)
    except AnalysisError as e:
        print(f"UNKNOWN   {r}: {str(e)[:300]}"); unk += 1; continue
    except Exception as e:
        print(f"CRASH     {r}: {type(e).__name__} {str(e)[:300]}"); unk += 1; continue
    mi = getattr(props.rule_module(r), "MIN_INSTANCES", 0)
    if len(col.obs) < mi:
        print(f"UNKNOWN   {r}: {len(col.obs)} instances < {mi}"); unk += 1
    for o in col.obs:
        if o.verdict == "violated" and o.key not in known:
            print(f"VIOLATED  {o.oid} {o.func}: {o.construct} -- {o.detail[:int(sys.argv[1]) if len(sys.argv) > 1 else 300]}"); viol += 1
        elif o.verdict == "unknown":
            print(f"UNKNOWN   {o.oid} {o.func}: {o.construct} -- {o.detail[:300]}"); unk += 1
sys.exit(1 if viol else 2 if unk else 0)
