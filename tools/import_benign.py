"""Copy property-preserving changes written by sub-agents (suite re-run with each patch: tools/confirm_refacs.sh SUBDIR=_benign)
into /verif/benign/ (silent) or /verif/benign-open/ (still reported).  usage: import_benign.py <root> <confirm.log> <open-id> ..."""
import json, os, re, shutil, sys
root, log = sys.argv[1], sys.argv[2]
open_ids = set(sys.argv[3:])
conf = {}
for l in open(log):
    m = re.match(r"(\w+)/(b\d) tests_exit=(\d+) \[(.*)\]", l.strip())
    if m:
        conf[(m.group(1), m.group(2))] = (int(m.group(3)), m.group(4))
for (g, b), (rc, tl) in sorted(conf.items()):
    sid = f"{g}-{b}"
    if rc != 0 or "233 passed" not in tl:
        print("NOT CONFIRMED", sid, tl)
        continue
    src = f"{root}/{g}/_benign/{b}"
    dst = f"/verif/{'benign-open' if sid in open_ids else 'benign'}/{sid}"
    os.makedirs(dst, exist_ok=True)
    shutil.copy(f"{src}/patch.diff", f"{dst}/patch.diff")
    if os.path.exists(f"{src}/difftest.py"):
        shutil.copy(f"{src}/difftest.py", f"{dst}/difftest.py")
    meta = json.load(open(f"{src}/meta.json")) if os.path.exists(f"{src}/meta.json") else {"summary": "(the authoring sub-agent was stopped before it wrote its meta file; the patch and its differential test are as it left them)"}
    meta["id"] = sid
    meta["confirmed_by"] = {"how": "tools/confirm_refacs.sh (SUBDIR=_benign) in a scratch git worktree of /repo (removed afterwards): full test suite with the patch applied",
                            "tests_with_patch": tl}
    json.dump(meta, open(f"{dst}/meta.json", "w"), indent=1)
    print("imported", sid, "->", os.path.dirname(dst))
