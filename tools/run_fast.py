"""Fast regression over the corpora: every patch is applied to its own scratch copy of /repo/mosaik and all rules run ONCE in-process;
the obligations are then mapped to the property checks that select them (same selection as `mverif check`).  Equivalent to running the
18 checks per patch, 18 times faster.  usage: run_fast.py seeded|benign|refactorings|<dir> [id-prefix ...]
seeded: a seed counts as DETECTED when its own property's check reports a violation.  benign / refactorings: every check must stay silent."""
import glob, json, os, shutil, subprocess, sys, tempfile
from concurrent.futures import ProcessPoolExecutor
sys.path.insert(0, "/verif")


def run(patch):
    sid = os.path.basename(os.path.dirname(patch))
    tmp = tempfile.mkdtemp(prefix="mverif-fast-")
    try:
        shutil.copytree("/repo/mosaik", os.path.join(tmp, "mosaik"), ignore=shutil.ignore_patterns("__pycache__"))
        subprocess.run("git init -q . 2>/dev/null", shell=True, cwd=tmp)
        r = subprocess.run(["git", "apply", patch], cwd=tmp, capture_output=True, text=True)
        if r.returncode:
            return sid, None, None, ["APPLY FAILED " + r.stderr[:200]]
        from mverif import props
        from mverif.loader import Program
        from mverif.rules.base import Ctx
        from mverif.report import load_known
        known = {k["key"] for k in load_known() if k.get("status") == "known"}
        ctx = Ctx(Program(tmp))
        vp, up, lines = set(), set(), []
        for rl in sorted(props.RULE_MODULES, key=lambda r: int(r[1:])):
            try:
                col = props.rule_module(rl).run(ctx)
            except Exception as e:
                ps = [p for p in sorted(props.PROPERTY_RULES) if rl in props.rules_for(p)]
                up.update(ps)
                lines.append(f"UNKNOWN {rl}: {type(e).__name__} {str(e)[:160]}")
                continue
            mi = getattr(props.rule_module(rl), "MIN_INSTANCES", 0)
            if len(col.obs) < mi:
                up.update(p for p in sorted(props.PROPERTY_RULES) if rl in props.rules_for(p))
                lines.append(f"UNKNOWN {rl}: {len(col.obs)} instances < {mi}")
            for o in col.obs:
                sel = [p for p in sorted(props.PROPERTY_RULES) if props.selected(p, o.oid)]
                if o.verdict == "violated" and o.key not in known:
                    vp.update(sel); lines.append(f"VIOLATED {o.oid} {o.func.split('.')[-1]}: {o.detail[:140]}")
                elif o.verdict == "unknown":
                    up.update(sel); lines.append(f"UNKNOWN {o.oid} {o.func.split('.')[-1]}: {o.detail[:140]}")
        return sid, sorted(vp), sorted(up - vp), lines
    finally:
        shutil.rmtree(tmp, ignore_errors=True)


if __name__ == "__main__":
    which = sys.argv[1]
    d = os.path.abspath(which) if os.path.isdir(which) else f"/verif/{which}"
    only = [a for a in sys.argv[2:] if not a.startswith("-")]
    patches = sorted(p for p in glob.glob(f"{d}/*/patch.diff") if not only or any(os.path.basename(os.path.dirname(p)).startswith(o) for o in only))
    seeded = os.path.basename(d.rstrip("/")) == "seeded"
    bad = 0
    summary = {}
    with ProcessPoolExecutor(max_workers=int(os.environ.get("JOBS", "12"))) as ex:
        for sid, vp, up, lines in ex.map(run, patches):
            if vp is None:
                print(sid, lines); bad += 1; continue
            if seeded:
                own = sid.split("-")[0]
                flag = "DETECTED" if own in vp else ("UNKNOWN(exit2)" if own in up else ("detected-elsewhere" if vp else "MISSED"))
                summary[sid] = {"own_property_exit": 1 if own in vp else 2 if own in up else 0, "violations_in": vp, "analysis_error_in": up}
            else:
                flag = "silent" if not vp and not up else ("FALSE-ALARM" if vp else "NO-VERDICT")
                summary[sid] = {"alarms": vp, "unknown": up}
            if flag not in ("DETECTED", "silent"):
                bad += 1
            print(f"{sid:12s} {flag:18s} violations={','.join(vp) or '-'} unknown={','.join(up) or '-'}", flush=True)
            if flag not in ("DETECTED", "silent") or "-v" in sys.argv:
                for l in lines[:5]:
                    print("        ", l)
    if not only and os.path.isdir(f"/verif/{which}"):
        json.dump(summary, open(f"{d}/last_run.json", "w"), indent=1)
    print(f"{len(patches)} patches, {bad} not as expected")
    sys.exit(1 if bad else 0)
