"""Developer aid: apply text edits (or a patch) to a scratch copy of /repo/mosaik, run every rule once, print what is
violated / unknown and which property checks select it.  Nothing is executed, /repo is untouched.
usage: try_edit.py <relfile> <old> <new> [<relfile> <old> <new> ...]
       try_edit.py --patch <patch.diff>"""
import os, shutil, subprocess, sys, tempfile
sys.path.insert(0, "/verif")
args = sys.argv[1:]
tmp = tempfile.mkdtemp(prefix="mverif-try-")
try:
    shutil.copytree("/repo/mosaik", os.path.join(tmp, "mosaik"), ignore=shutil.ignore_patterns("__pycache__"))
    if args and args[0] == "--patch":
        subprocess.run("git init -q . 2>/dev/null", shell=True, cwd=tmp)
        r = subprocess.run(["git", "apply", os.path.abspath(args[1])], cwd=tmp, capture_output=True, text=True)
        if r.returncode:
            print("APPLY FAILED", r.stderr)
            sys.exit(3)
    else:
        while args:
            rel, old, new = args[:3]
            args = args[3:]
            p = os.path.join(tmp, rel)
            s = open(p).read()
            if old not in s:
                print("text not found:", old[:80])
                sys.exit(3)
            s = s.replace(old, new, 1)
            compile(s, p, "exec")
            open(p, "w").write(s)
    os.environ["MVERIF_REPO"] = tmp
    from mverif import props
    from mverif.loader import Program, AnalysisError
    from mverif.rules.base import Ctx
    from mverif.report import load_known
    known = {k["key"] for k in load_known() if k.get("status") == "known"}
    ctx = Ctx(Program(tmp))
    viol = unk = 0

    def sel(oid):
        return ",".join(p for p in sorted(props.PROPERTY_RULES) if props.selected(p, oid)) or "-"
    for r in sorted(props.RULE_MODULES, key=lambda r: int(r[1:])):
        try:
            col = props.rule_module(r).run(ctx)
        except AnalysisError as e:
            print(f"UNKNOWN   {r}: {str(e)[:300]}  [{','.join(p for p in sorted(props.PROPERTY_RULES) if r in props.rules_for(p))}]"); unk += 1; continue
        except Exception as e:
            import traceback; traceback.print_exc()
            print(f"CRASH     {r}: {type(e).__name__} {str(e)[:300]}"); unk += 1; continue
        mi = getattr(props.rule_module(r), "MIN_INSTANCES", 0)
        if len(col.obs) < mi:
            print(f"UNKNOWN   {r}: {len(col.obs)} instances < {mi}"); unk += 1
        for o in col.obs:
            if o.verdict == "violated" and o.key not in known:
                print(f"VIOLATED  {o.oid} {o.func}: {o.construct} -- {o.detail[:300]}  [{sel(o.oid)}]"); viol += 1
            elif o.verdict == "unknown":
                print(f"UNKNOWN   {o.oid} {o.func}: {o.construct} -- {o.detail[:300]}  [{sel(o.oid)}]"); unk += 1
    print("exit", 1 if viol else 2 if unk else 0)
finally:
    shutil.rmtree(tmp, ignore_errors=True)
