"""Copy confirmed seeded mutations from the sub-agents' scratch worktrees into /verif/seeded/."""
import json, os, re, shutil, sys, glob
ROOT = os.environ.get("SEED_ROOT", "/tmp/seed")
SUFFIX = os.environ.get("SEED_SUFFIX", "")
OUT = "/verif/seeded"
conf = {}
for f in glob.glob(f"{ROOT}/confirm_*.log"):
    for l in open(f):
        m = re.match(r"(C\d+)/(m\d) clean_exit=(\d+) mutated_exit=(\d+) tests_exit=(\d+) \[(.*)\]", l.strip())
        if m:
            key = (m.group(1), m.group(2))
            rec = dict(clean_exit=int(m.group(3)), mutated_exit=int(m.group(4)), tests_exit=int(m.group(5)), tests=m.group(6))
            # keep the best (a sequential re-run supersedes a parallel run that hit the fixed test port)
            if key not in conf or (rec["tests_exit"] == 0 and conf[key]["tests_exit"] != 0):
                conf[key] = rec
for (p, m), rec in sorted(conf.items()):
    src = f"{ROOT}/{p}/_seed/{m}"
    ok = rec["clean_exit"] == 0 and rec["mutated_exit"] != 0 and rec["tests_exit"] == 0 and "233 passed" in rec["tests"]
    sid = f"{p}-{SUFFIX}{m}"
    if not ok:
        print("NOT CONFIRMED", sid, rec)
        continue
    dst = f"{OUT}/{sid}"
    os.makedirs(dst, exist_ok=True)
    shutil.copy(f"{src}/patch.diff", f"{dst}/patch.diff")
    shutil.copy(f"{src}/demo.py", f"{dst}/demo.py")
    meta = json.load(open(f"{src}/meta.json"))
    meta["id"] = sid
    meta["breaks_property"] = p
    meta["confirmed_by"] = {
        "how": "tools/confirm_seeds.sh in a scratch git worktree of /repo (removed afterwards): demo on the untouched tree, "
               "demo with the patch applied, full test suite with the patch applied, revert",
        "demo_clean_exit": rec["clean_exit"], "demo_mutated_exit": rec["mutated_exit"], "tests_with_patch": rec["tests"],
        "demo_cmd": "cd <worktree> && PYTHONPATH=<worktree> /venv/bin/python demo.py",
    }
    json.dump(meta, open(f"{dst}/meta.json", "w"), indent=1)
    print("imported", sid)
