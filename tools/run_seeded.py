"""Apply each seeded mutation to a scratch copy of /repo (removed afterwards), run every registered
quick check on it (MVERIF_REPO), and print which checks (properties) report a violation per seed.
/repo itself is not touched.  usage: run_seeded.py [-v] [id-prefix ...]"""
import json, os, subprocess, sys, glob, shutil, tempfile
from concurrent.futures import ThreadPoolExecutor
VERIF = "/verif"
seeds = sorted(glob.glob(f"{VERIF}/seeded/*/patch.diff"))
only = [a for a in sys.argv[1:] if not a.startswith("-")]
m = json.load(open(f"{VERIF}/MANIFEST.json"))
props = [c["property_id"] for c in m["checks"]]


def sh(cmd, **kw):
    return subprocess.run(cmd, shell=True, capture_output=True, text=True, **kw)


def run(patch):
    sid = os.path.basename(os.path.dirname(patch))
    tmp = tempfile.mkdtemp(prefix="mverif-seed-")
    try:
        sh(f"rsync -a --exclude .git --exclude __pycache__ /repo/ {tmp}/")
        r = sh(f"cd {tmp} && git init -q . 2>/dev/null; git apply {patch}")
        if r.returncode != 0:
            return sid, None, f"APPLY FAILED {r.stderr[:200]}"
        hits, unk, own, own_lines = [], [], None, []
        env = dict(os.environ, MVERIF_REPO=tmp)
        for p in props:
            r = sh(f"/venv/bin/python -m mverif check {p} --no-evidence", cwd=VERIF, env=env)
            if r.returncode == 1:
                hits.append(p)
            elif r.returncode == 2:
                unk.append(p)
            if p == sid.split("-")[0]:
                own = r.returncode
                own_lines = [l for l in r.stdout.splitlines() if l.startswith("  mosaik") or l.startswith("ANALYSIS")][:3]
        return sid, {"own_property_exit": own, "violations_in": hits, "analysis_error_in": unk}, own_lines
    finally:
        shutil.rmtree(tmp, ignore_errors=True)


todo = [p for p in seeds if not only or any(os.path.basename(os.path.dirname(p)).startswith(o) for o in only)]
summary = {}
with ThreadPoolExecutor(max_workers=int(os.environ.get("JOBS", "12"))) as ex:
    for sid, rec, lines in ex.map(run, todo):
        if rec is None:
            print(sid, lines)
            continue
        summary[sid] = rec
        own, hits, unk = rec["own_property_exit"], rec["violations_in"], rec["analysis_error_in"]
        flag = "DETECTED" if own == 1 else ("detected-elsewhere" if hits else ("UNKNOWN(exit2)" if own == 2 or unk else "MISSED"))
        print(f"{sid:9s} {flag:18s} own={own} violations={','.join(hits) or '-'} unknown={','.join(unk) or '-'}", flush=True)
        if own == 1 and "-v" in sys.argv:
            for l in lines:
                print("      ", l[:300])
if only:
    try:
        prev = json.load(open(f"{VERIF}/seeded/last_run.json"))
    except Exception:
        prev = {}
    prev.update(summary)
    summary = prev
summary = {k: summary[k] for k in sorted(summary) if os.path.exists(f"{VERIF}/seeded/{k}/patch.diff")}
json.dump(summary, open(f"{VERIF}/seeded/last_run.json", "w"), indent=1)
