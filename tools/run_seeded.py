"""Apply each seeded mutation to /repo, run every registered quick check, undo it.
Prints which checks (properties) report a violation per seed.  /repo is restored after every
seed (git checkout -- .) and verified clean at the end."""
import json, os, subprocess, sys, glob
VERIF = "/verif"
seeds = sorted(glob.glob(f"{VERIF}/seeded/*/patch.diff"))
only = [a for a in sys.argv[1:] if not a.startswith("-")]
m = json.load(open(f"{VERIF}/MANIFEST.json"))
props = [c["property_id"] for c in m["checks"]]
def sh(cmd, **kw):
    return subprocess.run(cmd, shell=True, capture_output=True, text=True, **kw)
assert sh("git -C /repo status --porcelain").stdout.strip() == "", "/repo not clean"
summary = {}
for patch in seeds:
    sid = os.path.basename(os.path.dirname(patch))
    if only and not any(sid.startswith(o) for o in only):
        continue
    r = sh(f"git -C /repo apply {patch}")
    if r.returncode != 0:
        print(sid, "APPLY FAILED", r.stderr[:200]); continue
    try:
        hits, unk, own = [], [], None
        for p in props:
            r = sh(f"/venv/bin/python -m mverif check {p} --no-evidence", cwd=VERIF)
            if r.returncode == 1:
                hits.append(p)
            elif r.returncode == 2:
                unk.append(p)
            if p == sid.split("-")[0]:
                own = r.returncode
                own_lines = [l for l in r.stdout.splitlines() if l.startswith("  mosaik") or l.startswith("ANALYSIS")][:3]
        summary[sid] = {"own_property_exit": own, "violations_in": hits, "analysis_error_in": unk}
        flag = "DETECTED" if own == 1 else ("detected-elsewhere" if hits else ("UNKNOWN(exit2)" if own == 2 or unk else "MISSED"))
        print(f"{sid:8s} {flag:18s} own={own} violations={','.join(hits) or '-'} unknown={','.join(unk) or '-'}")
        if own == 1 and "-v" in sys.argv:
            for l in own_lines: print("      ", l[:300])
    finally:
        sh("git -C /repo checkout -- .")
assert sh("git -C /repo status --porcelain").stdout.strip() == "", "/repo not clean after run"
if only:
    try:
        prev = json.load(open(f"{VERIF}/seeded/last_run.json"))
    except Exception:
        prev = {}
    prev.update(summary)
    summary = prev
summary = {k: summary[k] for k in sorted(summary) if os.path.exists(f"{VERIF}/seeded/{k}/patch.diff")}
json.dump(summary, open(f"{VERIF}/seeded/last_run.json", "w"), indent=1)
