#!/bin/bash
# stage the patches of a seeding round as a corpus directory run_fast.py understands
# usage: stage_round.sh /tmp/seed8 r8 [Cxx ...]   -> /tmp/seed8/seeded/<Cxx>-r8m<k>/patch.diff
ROOT=$1; SUF=$2; shift 2
mkdir -p $ROOT/seeded
for P in ${@:-$(ls $ROOT | grep '^C[0-9][0-9]$')}; do
  for m in m1 m2 m3 m4; do
    [ -f $ROOT/$P/_seed/$m/patch.diff ] || continue
    d=$ROOT/seeded/$P-$SUF$m; mkdir -p $d; cp $ROOT/$P/_seed/$m/patch.diff $ROOT/$P/_seed/$m/meta.json $d/ 2>/dev/null
  done
done
ls $ROOT/seeded | wc -l
