"""Triage of automut survivors: which of the mutants that no rule kills also pass the test suite?
(Those are either equivalent mutants, behaviour no property speaks about, or real gaps.)
usage: automut_triage.py [/tmp/automut.json] [substring filters...]   writes /tmp/automut_triage.json"""
import json, os, shutil, subprocess, sys, tempfile
from concurrent.futures import ThreadPoolExecutor
sys.path.insert(0, "/verif")
from mverif.selftest.automut import generate

src = sys.argv[1] if len(sys.argv) > 1 and sys.argv[1].endswith(".json") else "/tmp/automut.json"
filters = [a for a in sys.argv[1:] if not a.endswith(".json")]
res = json.load(open(src))
surv = {r["mid"]: r for r in res if r["status"] != "killed"}
muts = {m.mid: m for m in generate("/repo")}
todo = [muts[k] for k in surv if k in muts and (not filters or any(f in k for f in filters))]
print(len(todo), "survivors to run")

def run(m):
    tmp = tempfile.mkdtemp(prefix="amt-")
    try:
        subprocess.run(f"rsync -a --exclude .git --exclude __pycache__ /repo/ {tmp}/", shell=True, check=True)
        open(os.path.join(tmp, m.rel), "w").write(m.src)
        r = subprocess.run(f"cd {tmp} && PYTHONPATH={tmp} timeout 300 /venv/bin/python -m pytest -x -q -p no:cacheprovider --timeout=60 -k 'not start_connect' 2>&1 | tail -3",
                           shell=True, capture_output=True, text=True)
        out = r.stdout.strip().splitlines()
        last = out[-1] if out else ""
        return m.mid, ("pass" if " passed" in last and "failed" not in last and "error" not in last else "fail"), last[:100]
    finally:
        shutil.rmtree(tmp, ignore_errors=True)

out = {}
with ThreadPoolExecutor(max_workers=int(os.environ.get("JOBS", "12"))) as ex:
    for mid, st, last in ex.map(run, todo):
        out[mid] = {"tests": st, "last": last, **{k: surv[mid][k] for k in ("desc", "func", "rel", "line", "status")}}
        if st == "pass":
            print("TESTS-PASS", surv[mid]["rel"], surv[mid]["line"], surv[mid]["func"], surv[mid]["desc"], flush=True)
json.dump(out, open("/tmp/automut_triage.json", "w"), indent=1)
print(sum(1 for v in out.values() if v["tests"] == "pass"), "of", len(out), "survivors also pass the tests")
