#!/bin/bash
# usage: try_refac.sh <patch.diff> : apply to /repo, run every rule once, print everything that is not discharged/known, undo
git -C /repo apply "$1" || { echo APPLY-FAILED; exit 3; }
cd /verif && /venv/bin/python tools/rules_once.py ${2:-300}; echo "exit=$?"
git -C /repo checkout -- . ; git -C /repo clean -fdq mosaik
