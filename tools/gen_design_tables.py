"""Fill the generated blocks of DESIGN.md (rules table, seeded table, automut figures) from the
current tree and the last runs of tools/run_seeded.py and automut."""
import json, os, re, sys, glob
sys.path.insert(0, "/verif")
from mverif.loader import Program
from mverif.rules.base import Ctx
from mverif import props

def block(s, name, text):
    a = s.index(f"<!-- BEGIN GENERATED {name} -->") + len(f"<!-- BEGIN GENERATED {name} -->")
    b = s.index(f"<!-- END GENERATED {name} -->")
    return s[:a] + "\n" + text.rstrip() + "\n" + s[b:]

ctx = Ctx(Program())
rows = ["| rule module | obligations (discharged / known finding) | sub-obligation ids | properties |", "|---|---|---|---|"]
for r in sorted(props.RULE_MODULES, key=lambda x: int(x[1:])):
    col = props.rule_module(r).run(ctx)
    subs = sorted({o.oid for o in col.obs})
    n = len(col.obs); d = sum(o.verdict == "discharged" for o in col.obs)
    used = sorted(p for p in props.PROPERTY_RULES if any(props.selected(p, o.oid) for o in col.obs))
    rows.append(f"| {r} `{props.RULE_MODULES[r]}` | {n} ({d} / {n - d}) | {', '.join(subs)[:160]} | {', '.join(used)} |")
s = open("/verif/DESIGN.md").read()
s = block(s, "rules", "\n".join(rows))
lr = json.load(open("/verif/seeded/last_run.json"))
rows = ["| seed | breaks | change (mechanism) | own check | also reported by |", "|---|---|---|---|---|"]
for sid in sorted(lr):
    mp = f"/verif/seeded/{sid}/meta.json"
    if not os.path.exists(mp):
        continue
    m = json.load(open(mp))
    v = lr[sid]
    own = {1: "VIOLATION", 0: "silent", 2: "no verdict", None: "-"}[v["own_property_exit"]]
    also = [p for p in v["violations_in"] if p != m["breaks_property"]]
    mech = (m.get("mechanism", "") or "")[:70].replace("|", "/")
    summ = (m.get("summary", "") or "")[:150].replace("|", "/").replace("\n", " ")
    rows.append(f"| {sid} | {m['breaks_property']} | {summ} ({mech}) | {own} | {', '.join(also) or '-'} |")
s = block(s, "seeded", "\n".join(rows))
am = "/verif/seeded/automut_last.json"
if os.path.exists(am):
    d = json.load(open(am))
    s = block(s, "automut", f"Last full run: {d['total']} mutants, {d['killed']} killed ({100*d['killed']//d['total']} %), {d['unknown']} unknown, {d['survived']} survived.")
open("/verif/DESIGN.md", "w").write(s)
print("tables written")
