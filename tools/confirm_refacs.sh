#!/bin/bash
# Confirm behaviour-preserving refactorings of one group in its scratch worktree: suite passes with each patch.
# usage: REFAC_ROOT=/tmp/refac2 confirm_refacs.sh schedA
G=$1; WT=${REFAC_ROOT:-/tmp/refac}/$G
cd $WT || exit 2
for r in ${NAMES:-r1 r2 r3 r4 r5 r6 r7 r8}; do
  D=$WT/${SUBDIR:-_refac}/$r
  [ -f $D/patch.diff ] || continue
  git checkout -q -- mosaik
  git apply $D/patch.diff || { echo "$G/$r APPLY-FAILED"; continue; }
  PYTHONPATH=$WT timeout 900 /venv/bin/python -m pytest -q -p no:cacheprovider --timeout=900 >$D/tests.log 2>&1; t=$?
  git checkout -q -- mosaik
  git clean -fdq mosaik
  echo "$G/$r tests_exit=$t [$(tail -1 $D/tests.log)]"
done
