#!/bin/bash
# usage: stage_benign.sh /tmp/ben4 <group> ...  -> /tmp/ben4/corpus/<group>-b<k>/
ROOT=$1; shift
for g in "$@"; do for k in 1 2 3 4 5 6; do
  [ -f $ROOT/$g/_benign/b$k/patch.diff ] || continue
  d=$ROOT/corpus/$g-b$k; mkdir -p $d; cp $ROOT/$g/_benign/b$k/patch.diff $ROOT/$g/_benign/b$k/meta.json $d/ 2>/dev/null
done; done
