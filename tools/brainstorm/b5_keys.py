S = "mosaik/scenario.py"
B = [
 ("co-initial-push-srcattr", [(S, "                ).setdefault(dest_attr, {})[src.full_id] = initial_data", "                ).setdefault(src_attr, {})[src.full_id] = initial_data")], "C03"),
 ("co-initial-push-destid", [(S, "                ).setdefault(dest_attr, {})[src.full_id] = initial_data", "                ).setdefault(dest_attr, {})[dest.full_id] = initial_data")], "C03"),
 ("co-placeholder-srcattr", [(S, "setdefault(dest.eid, {}).setdefault(dest_attr, {}).setdefault(src.full_id, None)", "setdefault(dest.eid, {}).setdefault(src_attr, {}).setdefault(src.full_id, None)")], "C03"),
 ("co-placeholder-srceid", [(S, "dest_sim.persistent_inputs.setdefault(dest.eid, {}).setdefault(dest_attr, {}).setdefault(src.full_id, None)", "dest_sim.persistent_inputs.setdefault(src.eid, {}).setdefault(dest_attr, {}).setdefault(src.full_id, None)")], "C03"),
 ("co-outreq-dest", [(S, "src_sim.output_request.setdefault(src.eid, []).append(src_attr)", "src_sim.output_request.setdefault(src.eid, []).append(dest_attr)")], "C03"),
 ("co-outreq-desteid", [(S, "src_sim.output_request.setdefault(src.eid, []).append(src_attr)", "src_sim.output_request.setdefault(dest.eid, []).append(src_attr)")], "C03"),
 ("cn-initial-dest-key", [(S, "initial_data=initial_data.get(src_attr, SENTINEL),", "initial_data=initial_data.get(dest_attr, SENTINEL),")], "C11 C03"),
 ("co-srcport-destattr", [(S, "        src_port = (src.eid, src_attr)\n", "        src_port = (src.eid, dest_attr)\n")], "C03"),
 ("co-destport-srcattr", [(S, "        dest_port = (dest.eid, dest_attr)\n", "        dest_port = (dest.eid, src_attr)\n")], "C03"),
 ("co-pulled-swapped", [(S, ".add((src_port, dest_port))", ".add((dest_port, src_port))")], "C03"),
 ("co-push-key-dest", [(S, "src_sim.output_to_push.setdefault(src_port, [])", "src_sim.output_to_push.setdefault(dest_port, [])")], "C03"),
 ("co-push-entry-src", [(S, ".append((dest_sim, delay, dest_port))", ".append((dest_sim, delay, src_port))")], "C03"),
 ("co-trigger-key-dest", [(S, "src_sim.triggers.setdefault(src_port, [])", "src_sim.triggers.setdefault(dest_port, [])")], "C02"),
 ("co-cache-init-destattr", [(S, "                ).setdefault(src.eid, {})[src_attr] = initial_data", "                ).setdefault(src.eid, {})[dest_attr] = initial_data")], "C03"),
 ("co-graph-reversed", [(S, "        self.entity_graph.add_edge(src.full_id, dest.full_id)\n\n    def connect_async", "        self.entity_graph.add_edge(dest.full_id, src.full_id)\n\n    def connect_async")], "?"),
]
