M = "mosaik/simmanager.py"
S = "mosaik/scenario.py"
P = "mosaik/progress.py"
C = "mosaik/scheduler.py"
B = [
 ("sr-init-next-hybrid", [(M, "        if self.type != 'event-based':", "        if self.type == 'time-based':")], "C02"),
 ("sr-init-negate", [(M, "        if self.type != 'event-based':", "        if self.type == 'event-based':")], "C02"),
 ("sr-laststep-zero", [(M, "self.last_step = TieredTime(-1, *([0] * (depth - 1)))", "self.last_step = TieredTime(0, *([0] * (depth - 1)))")], "C03"),
 ("sr-first-step-1", [(M, "self.next_steps = [TieredTime(*([0] * depth))]", "self.next_steps = [TieredTime(*([1] * depth))]")], "C02"),
 ("sr-progress-1", [(M, "self.progress = Progress(TieredTime(*([0] * depth)))", "self.progress = Progress(TieredTime(1, *([0] * (depth - 1))))")], "C02"),
 ("sr-first-step-comp", [(M, "self.next_steps = [TieredTime(*([0] * depth))]", "self.next_steps = [TieredTime(*(0 for _ in range(depth)))]")], "benign"),
 ("sr-first-step-lead0", [(M, "self.next_steps = [TieredTime(*([0] * depth))]", "self.next_steps = [TieredTime(0, *((0,) * (depth - 1)))]")], "benign"),
 ("depth-root0", [(S, "        if not self.parent:\n            return 1", "        if not self.parent:\n            return 0")], "C08 C11"),
 ("depth-plus2", [(S, "return self.parent.depth + 1", "return self.parent.depth + 2")], "C08 C11"),
 ("depth-iter", [(S, "        if not self.parent:\n            return 1\n        return self.parent.depth + 1", "        d = 1\n        g = self\n        while g.parent:\n            g = g.parent\n            d += 1\n        return d")], "benign"),
 ("pg-shift-isnot", [(P, "        if shift is None:\n            shift = TieredInterval", "        if shift is not None:\n            shift = TieredInterval")], "C01"),
 ("pg-shift-ones", [(P, "shift = TieredInterval(*((0,) * len(self.time)))", "shift = TieredInterval(*((1,) * len(self.time)))")], "C05"),
 ("ap-rt-plus", [(C, "        rt_passed = perf_counter() - sim.rt_start\n        rt_progress", "        rt_passed = perf_counter() + sim.rt_start\n        rt_progress")], "C17"),
 ("ap-rt-floor", [(C, "TieredTime(ceil(rt_passed / world.rt_factor))", "TieredTime(int(rt_passed / world.rt_factor))")], "C17"),
 ("ap-rt-mul", [(C, "TieredTime(ceil(rt_passed / world.rt_factor))", "TieredTime(ceil(rt_passed * world.rt_factor))")], "C17"),
 ("ap-rt-mathceil", [(C, "TieredTime(ceil(rt_passed / world.rt_factor))", "TieredTime(-int(-rt_passed // world.rt_factor))")], "benign"),
]
