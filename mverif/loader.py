"""Parse the repository's package from the *current working tree* and index it.

Nothing here imports or runs mosaik.  Everything downstream (types, CFG, dataflow, rules)
works on the `Program` built here.
"""
from __future__ import annotations

import ast
import hashlib
import os
import symtable
from dataclasses import dataclass, field
from typing import Any, Dict, Iterator, List, Optional, Tuple


class AnalysisError(Exception):
    """The analysis cannot give a verdict (vanished anchor, unparsable unit, idiom the
    normaliser does not understand).  Mapped to exit code 2, never to a violation."""


REPO = os.environ.get("MVERIF_REPO", "/repo")
PACKAGE = "mosaik"


@dataclass
class Module:
    name: str
    path: str
    relpath: str
    src: str
    tree: ast.Module
    sha256: str
    imports: Dict[str, str] = field(default_factory=dict)  # local name -> dotted target
    globals_assigned: Dict[str, ast.AST] = field(default_factory=dict)


@dataclass
class FuncInfo:
    qualname: str
    name: str
    node: ast.AST  # FunctionDef | AsyncFunctionDef | Lambda
    module: Module
    cls: Optional["ClassInfo"] = None
    parent: Optional["FuncInfo"] = None
    is_async: bool = False
    decorators: List[str] = field(default_factory=list)

    @property
    def lineno(self) -> int:
        return getattr(self.node, "lineno", 0)

    @property
    def loc(self) -> str:
        return f"{self.module.relpath}:{self.lineno}"

    @property
    def params(self) -> List[str]:
        a = self.node.args
        names = [x.arg for x in a.posonlyargs + a.args]
        if a.vararg:
            names.append(a.vararg.arg)
        names += [x.arg for x in a.kwonlyargs]
        if a.kwarg:
            names.append(a.kwarg.arg)
        return names

    @property
    def is_property(self) -> bool:
        return "property" in self.decorators


@dataclass
class ClassInfo:
    qualname: str
    name: str
    node: ast.ClassDef
    module: Module
    bases: List[str] = field(default_factory=list)  # dotted, resolved through imports
    fields: Dict[str, ast.AST] = field(default_factory=dict)  # annotated class-level fields
    methods: Dict[str, FuncInfo] = field(default_factory=dict)
    decorators: List[ast.AST] = field(default_factory=list)


def dotted(node: ast.AST) -> Optional[str]:
    if isinstance(node, ast.Name):
        return node.id
    if isinstance(node, ast.Attribute):
        b = dotted(node.value)
        return None if b is None else b + "." + node.attr
    return None


class Program:
    def __init__(self, repo: str = REPO, package: str = PACKAGE):
        self.repo = repo
        self.package = package
        self.modules: Dict[str, Module] = {}
        self.functions: Dict[str, FuncInfo] = {}
        self.classes: Dict[str, ClassInfo] = {}
        self.func_of_node: Dict[int, FuncInfo] = {}
        self._load()

    # ------------------------------------------------------------------ loading
    def _load(self) -> None:
        root = os.path.join(self.repo, self.package)
        if not os.path.isdir(root):
            raise AnalysisError(f"package directory {root} not found")
        for dirpath, dirnames, filenames in os.walk(root):
            dirnames[:] = sorted(d for d in dirnames if d != "__pycache__")
            for fn in sorted(filenames):
                if not fn.endswith(".py"):
                    continue
                path = os.path.join(dirpath, fn)
                rel = os.path.relpath(path, self.repo)
                modname = rel[:-3].replace(os.sep, ".")
                if modname.endswith(".__init__"):
                    modname = modname[: -len(".__init__")]
                with open(path, "rb") as f:
                    raw = f.read()
                src = raw.decode("utf-8")
                try:
                    tree = ast.parse(src, filename=path)
                    compile(src, path, "exec", dont_inherit=True)
                    symtable.symtable(src, path, "exec")
                except SyntaxError as e:
                    raise AnalysisError(f"{rel} does not compile: {e}") from None
                m = Module(modname, path, rel, src, tree, hashlib.sha256(raw).hexdigest())
                self.modules[modname] = m
        # names that a later change only renamed are renamed back before anything is indexed (renames.py)
        from . import renames as _renames
        self.renames: Dict[str, str] = _renames.canonicalise({m.name: m.tree for m in self.modules.values()}) if self.package == PACKAGE else {}
        if self.package == PACKAGE:
            by_callers = _renames.rename_by_callers({m.name: m.tree for m in self.modules.values()})
            self.renames.update(by_callers)
            if by_callers:      # a method that is back under its name can make a renamed field of its class recognisable
                self.renames.update(_renames.canonicalise({m.name: m.tree for m in self.modules.values()}))
        self.relocated: Dict[str, str] = _renames.relocate_methods({m.name: m.tree for m in self.modules.values()}) if self.package == PACKAGE else {}
        for m in self.modules.values():
            self._index_module(m)
        # a method of the pinned tree that its class no longer overrides: the base class's method, analysed for
        # this class (calls on `self` resolve to the class's own overrides -- template methods)
        if self.package == PACKAGE:
            from .flow import known_functions
            for q in sorted(known_functions()):
                if q in self.functions or "." not in q:
                    continue
                cq, meth = q.rsplit(".", 1)
                ci = self.classes.get(cq)
                if ci is None:
                    continue
                for b in self.mro(ci)[1:]:
                    if meth in b.methods:
                        bf = b.methods[meth]
                        self.functions[q] = FuncInfo(q, meth, bf.node, bf.module, ci, None, bf.is_async, list(bf.decorators))
                        break

    def _index_module(self, m: Module) -> None:
        for node in ast.walk(m.tree):
            if isinstance(node, ast.Import):
                for a in node.names:
                    m.imports[a.asname or a.name.split(".")[0]] = a.name if a.asname else a.name.split(".")[0]
            elif isinstance(node, ast.ImportFrom):
                base = node.module or ""
                if node.level:
                    parts = m.name.split(".")
                    base = ".".join(parts[: len(parts) - node.level] + ([base] if base else []))
                for a in node.names:
                    m.imports[a.asname or a.name] = f"{base}.{a.name}"
        for st in m.tree.body:
            if isinstance(st, ast.Assign):
                for t in st.targets:
                    if isinstance(t, ast.Name):
                        m.globals_assigned[t.id] = st.value
            elif isinstance(st, ast.AnnAssign) and isinstance(st.target, ast.Name) and st.value is not None:
                m.globals_assigned[st.target.id] = st.value
        self._index_body(m, m.tree.body, m.name, None, None)

    def _index_body(self, m: Module, body, prefix: str, cls: Optional[ClassInfo], parent: Optional[FuncInfo]) -> None:
        for st in body:
            for node in self._defs_in_stmt(st):
                if isinstance(node, (ast.FunctionDef, ast.AsyncFunctionDef)):
                    qn = f"{prefix}.{node.name}"
                    fi = FuncInfo(
                        qn, node.name, node, m, cls if parent is None else None, parent,
                        isinstance(node, ast.AsyncFunctionDef),
                        [dotted(d) or "" for d in node.decorator_list],
                    )
                    # property setters etc. share the name; keep the first (getter)
                    self.functions.setdefault(qn, fi)
                    self.func_of_node[id(node)] = fi
                    if cls is not None and parent is None:
                        cls.methods.setdefault(node.name, fi)
                    self._index_body(m, node.body, qn, None, fi)
                elif isinstance(node, ast.ClassDef):
                    qn = f"{prefix}.{node.name}"
                    ci = ClassInfo(qn, node.name, node, m)
                    ci.decorators = list(node.decorator_list)
                    for b in node.bases:
                        d = dotted(b if not isinstance(b, ast.Subscript) else b.value)
                        if d:
                            ci.bases.append(self.resolve_name(m, d))
                    for s in node.body:
                        if isinstance(s, ast.AnnAssign) and isinstance(s.target, ast.Name):
                            ci.fields[s.target.id] = s.annotation
                    self.classes[qn] = ci
                    self._index_body(m, node.body, qn, ci, None)
                    # `__rand__ = __and__` in the class body: a second name for the same method
                    for s in node.body:
                        if isinstance(s, ast.Assign) and isinstance(s.value, ast.Name) and s.value.id in ci.methods:
                            for t in s.targets:
                                if isinstance(t, ast.Name) and t.id not in ci.methods:
                                    ci.methods[t.id] = ci.methods[s.value.id]
                                    self.functions.setdefault(f"{qn}.{t.id}", ci.methods[s.value.id])

    @staticmethod
    def _defs_in_stmt(st: ast.stmt) -> Iterator[ast.AST]:
        """Definitions directly in a statement list, looking through if/try/with/for."""
        if isinstance(st, (ast.FunctionDef, ast.AsyncFunctionDef, ast.ClassDef)):
            yield st
            return
        for fld in ("body", "orelse", "finalbody", "handlers"):
            for sub in getattr(st, fld, []) or []:
                if isinstance(sub, ast.ExceptHandler):
                    for s2 in sub.body:
                        yield from Program._defs_in_stmt(s2)
                elif isinstance(sub, ast.stmt):
                    yield from Program._defs_in_stmt(sub)

    # ------------------------------------------------------------------ value classes
    def records(self) -> Dict[str, Tuple[Tuple[str, ...], Dict[str, Any], bool, frozenset]]:
        """Plain value classes of the package: NamedTuples and dataclasses without a constructor of their own.
        qualname -> (fields in constructor order, constant defaults, is-a-tuple, fields that are never re-assigned)."""
        cached = getattr(self, "_records", None)
        if cached is not None:
            return cached
        out: Dict[str, Tuple[Tuple[str, ...], Dict[str, Any], bool, frozenset]] = {}
        stored = set()
        for m in self.modules.values():
            for n in ast.walk(m.tree):
                if isinstance(n, ast.Attribute) and isinstance(n.ctx, (ast.Store, ast.Del)):
                    stored.add(n.attr)
        for qn, ci in self.classes.items():
            is_nt = any(b.rsplit(".", 1)[-1] == "NamedTuple" for b in ci.bases)
            is_dc = any((dotted(d.func if isinstance(d, ast.Call) else d) or "").rsplit(".", 1)[-1] == "dataclass" for d in ci.decorators)
            if not (is_nt or is_dc) or len(ci.bases) > (1 if is_nt else 0):
                continue
            if any(m in ci.methods for m in ("__init__", "__new__", "__post_init__")):
                continue
            fields: List[str] = []
            defaults: Dict[str, Any] = {}
            ok = True
            for st in ci.node.body:
                if isinstance(st, ast.AnnAssign) and isinstance(st.target, ast.Name):
                    if "ClassVar" in ast.unparse(st.annotation):
                        continue
                    fields.append(st.target.id)
                    if st.value is not None:
                        if isinstance(st.value, ast.Constant):
                            defaults[st.target.id] = st.value.value
                        elif isinstance(st.value, ast.Name) and st.value.id in ci.module.globals_assigned:
                            defaults[st.target.id] = ("__glob__", self.resolve_name(ci.module, st.value.id))     # a module-level name (a sentinel object)
                        else:
                            ok = False      # field(default_factory=...) and the like
            frozen = any(isinstance(d, ast.Call) and any(k.arg == "frozen" and isinstance(k.value, ast.Constant) and k.value.value is True for k in d.keywords) for d in ci.decorators)
            if ok and fields:
                out[qn] = (tuple(fields), defaults, is_nt, frozenset(f for f in fields if is_nt or frozen or f not in stored))
        self._records = out  # type: ignore[attr-defined]
        return out

    # ------------------------------------------------------------------ lookup
    def resolve_name(self, m: Module, name: str) -> str:
        """Dotted name as written in module *m* -> fully qualified dotted name."""
        head, _, rest = name.partition(".")
        if head in m.imports:
            full = m.imports[head]
        elif f"{m.name}.{head}" in self.functions or f"{m.name}.{head}" in self.classes or head in m.globals_assigned:
            full = f"{m.name}.{head}"
        else:
            full = head
        return full + ("." + rest if rest else "")

    def func(self, qualname: str) -> FuncInfo:
        fi = self.functions.get(qualname)
        if fi is None:
            raise AnalysisError(f"anchor function {qualname} not found in the current tree")
        return fi

    def cls(self, qualname: str) -> ClassInfo:
        ci = self.classes.get(qualname)
        if ci is None:
            raise AnalysisError(f"anchor class {qualname} not found in the current tree")
        return ci

    def mro(self, ci: ClassInfo) -> List[ClassInfo]:
        out, seen, todo = [], set(), [ci]
        while todo:
            c = todo.pop(0)
            if c.qualname in seen:
                continue
            seen.add(c.qualname)
            out.append(c)
            for b in c.bases:
                if b in self.classes:
                    todo.append(self.classes[b])
        return out

    def find_method(self, clsname: str, meth: str) -> Optional[FuncInfo]:
        ci = self.classes.get(clsname)
        if ci is None:
            return None
        for c in self.mro(ci):
            if meth in c.methods:
                return c.methods[meth]
        return None

    def subclasses(self, clsname: str) -> List[ClassInfo]:
        out = []
        for c in self.classes.values():
            if any(b.qualname == clsname for b in self.mro(c)):
                out.append(c)
        return out

    def field_annotation(self, clsname: str, fld: str) -> Optional[Tuple[ast.AST, Module]]:
        ci = self.classes.get(clsname)
        if ci is None:
            return None
        for c in self.mro(ci):
            if fld in c.fields:
                return c.fields[fld], c.module
        return None

    def all_functions(self) -> List[FuncInfo]:
        return list(self.functions.values())

    def digest(self) -> Dict[str, str]:
        return {m.relpath: m.sha256 for m in self.modules.values()}

    def stats(self) -> Dict[str, int]:
        return {
            "modules": len(self.modules),
            "classes": len(self.classes),
            "functions": len(self.functions),
        }
