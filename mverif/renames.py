"""Canonicalisation of renames.  The rules anchor functions, methods and fields by the names they have
in the pinned tree.  A later change may rename a private function (`_connect_evenly` ->
`_distribute_evenly`), a method or a field (`OutSet._set` -> `_excluded`) and update every use: nothing
changes but the name.  Before indexing, the current tree is compared with the inventory of the pinned
tree (`known_inventory.json`: per function a bag of structural features, per class its fields with
their use profile); a known name that is missing and matched *uniquely and closely* by a name that
is new in the same class / module is renamed back in the syntax trees (definitions, attribute accesses,
references, imports), so that every rule sees the names it knows.  Positions are unchanged; the map is
reported as `Program.renames`.  No match -> nothing is renamed and the rule that needs the anchor
reports it as missing (exit 2), as before."""
from __future__ import annotations

import ast
import json
import os
from collections import Counter
from typing import Dict, Iterator, List, Optional, Tuple

INVENTORY = os.path.join(os.path.dirname(os.path.abspath(__file__)), "known_inventory.json")
THRESHOLD = 0.6
MARGIN = 0.12


def _functions(tree: ast.Module, modname: str) -> Iterator[Tuple[str, str, ast.AST, Optional[str]]]:
    """(qualname, container, node, class qualname or None) of every function / method (not nested ones)."""
    def visit(body, prefix, cls):
        for st in body:
            if isinstance(st, (ast.FunctionDef, ast.AsyncFunctionDef)):
                yield f"{prefix}.{st.name}", prefix, st, cls
            elif isinstance(st, ast.ClassDef):
                yield from visit(st.body, f"{prefix}.{st.name}", f"{prefix}.{st.name}")
            elif isinstance(st, (ast.If, ast.Try)):
                for fld in ("body", "orelse", "finalbody"):
                    yield from visit(getattr(st, fld, []) or [], prefix, cls)
    yield from visit(tree.body, modname, None)


def features(fn: ast.AST) -> Dict[str, int]:
    """Bag of structural features that does not depend on the function's own name or on the names of its
    parameters and locals: node kinds, attribute names, called / referenced global names, constants."""
    a = fn.args
    own = {p.arg for p in a.posonlyargs + a.args + a.kwonlyargs}
    for n in ast.walk(fn):
        if isinstance(n, ast.Name) and isinstance(n.ctx, ast.Store):
            own.add(n.id)
    c: Counter = Counter()
    c[f"params:{len(a.posonlyargs + a.args + a.kwonlyargs)}"] += 3
    c["async" if isinstance(fn, ast.AsyncFunctionDef) else "sync"] += 2
    for d in fn.decorator_list:
        c["deco:" + ast.unparse(d)[:30]] += 3
    for n in ast.walk(fn):
        c["k:" + type(n).__name__] += 1
        if isinstance(n, ast.Attribute):
            c["a:" + n.attr] += 2
        elif isinstance(n, ast.Name) and n.id not in own:
            c["n:" + n.id] += 2
        elif isinstance(n, ast.Constant) and isinstance(n.value, (int, bool)) and not isinstance(n.value, str):
            c["c:" + repr(n.value)] += 1
    return dict(c)


def similarity(f1: Dict[str, int], f2: Dict[str, int], ignore: Tuple[str, ...] = ()) -> float:
    keys = (set(f1) | set(f2)) - {f"a:{x}" for x in ignore} - {f"n:{x}" for x in ignore}
    lo = sum(min(f1.get(k, 0), f2.get(k, 0)) for k in keys)
    hi = sum(max(f1.get(k, 0), f2.get(k, 0)) for k in keys)
    return lo / hi if hi else 0.0


def class_fields(tree: ast.Module, modname: str) -> Dict[str, Dict[str, Dict[str, int]]]:
    """class qualname -> field -> use profile {"<method>:<load|store>": count} (fields = attributes stored
    through the first parameter of a method, plus annotated class-level names)."""
    out: Dict[str, Dict[str, Dict[str, int]]] = {}

    def visit(body, prefix):
        for st in body:
            if isinstance(st, ast.ClassDef):
                qn = f"{prefix}.{st.name}"
                fields: Dict[str, Counter] = {}
                for s in st.body:
                    if isinstance(s, ast.AnnAssign) and isinstance(s.target, ast.Name):
                        fields.setdefault(s.target.id, Counter())["<class>:ann"] += 1
                stored = set()
                for m in st.body:
                    if isinstance(m, (ast.FunctionDef, ast.AsyncFunctionDef)) and m.args.args:
                        me = m.args.args[0].arg
                        for n in ast.walk(m):
                            if isinstance(n, ast.Attribute) and isinstance(n.value, ast.Name) and n.value.id == me and isinstance(n.ctx, ast.Store):
                                stored.add(n.attr)
                for f in stored:
                    fields.setdefault(f, Counter())
                for m in st.body:
                    if isinstance(m, (ast.FunctionDef, ast.AsyncFunctionDef)) and m.args.args:
                        me = m.args.args[0].arg
                        for n in ast.walk(m):
                            if isinstance(n, ast.Attribute) and isinstance(n.value, ast.Name) and n.value.id == me and n.attr in fields:
                                fields[n.attr][f"{m.name}:{'store' if isinstance(n.ctx, ast.Store) else 'load'}"] += 1
                out[qn] = {f: dict(c) for f, c in fields.items()}
                visit(st.body, qn)
    visit(tree.body, modname)
    return out


def build_inventory(trees: Dict[str, ast.Module]) -> Dict:
    inv = {"functions": {}, "fields": {}}
    for modname, tree in trees.items():
        for qn, cont, node, cls in _functions(tree, modname):
            a = node.args
            inv["functions"].setdefault(qn, {"container": cont, "features": features(node),
                                             "params": [x.arg for x in a.posonlyargs + a.args + a.kwonlyargs]})
        inv["fields"].update(class_fields(tree, modname))
    return inv


def load_inventory() -> Optional[Dict]:
    try:
        return json.load(open(INVENTORY))
    except OSError:
        return None


def _rename_everywhere(trees: Dict[str, ast.Module], new: str, old: str) -> None:
    for tree in trees.values():
        for n in ast.walk(tree):
            if isinstance(n, (ast.FunctionDef, ast.AsyncFunctionDef)) and n.name == new:
                n.name = old
            elif isinstance(n, ast.Attribute) and n.attr == new:
                n.attr = old
            elif isinstance(n, ast.Name) and n.id == new:
                n.id = old
            elif isinstance(n, (ast.Import, ast.ImportFrom)):
                for al in n.names:
                    if al.name == new:
                        al.name = old
                    if al.asname == new:
                        al.asname = old
            elif isinstance(n, ast.keyword) and n.arg == new:
                pass


def canonicalise(trees: Dict[str, ast.Module]) -> Dict[str, str]:
    """Rename back what was only renamed; returns {new name: known name}."""
    inv = load_inventory()
    if inv is None:
        return {}
    renames: Dict[str, str] = {}
    known_simple = {q.rsplit(".", 1)[-1] for q in inv["functions"]} | {f for fs in inv["fields"].values() for f in fs}
    # ---- functions and methods
    for _ in range(2):
        cur: Dict[str, Tuple[str, ast.AST]] = {}
        for modname, tree in trees.items():
            for qn, cont, node, cls in _functions(tree, modname):
                cur.setdefault(qn, (cont, node))
        missing = [q for q in inv["functions"] if q not in cur]
        new = {q: v for q, v in cur.items() if q not in inv["functions"]}
        progress = False
        # simple names defined per container, and the (simple) base-class names of every class
        defined: Dict[str, set] = {}
        for cq, (ccont, _n) in cur.items():
            defined.setdefault(ccont, set()).add(cq.rsplit(".", 1)[-1])
        bases: Dict[str, List[str]] = {}
        for modname, tree in trees.items():
            for n in ast.walk(tree):
                if isinstance(n, ast.ClassDef):
                    bases.setdefault(n.name, []).extend(b.id if isinstance(b, ast.Name) else b.attr for b in n.bases if isinstance(b, (ast.Name, ast.Attribute)))

        def inherited(cont: str, meth: str, seen=()) -> bool:
            for b in bases.get(cont.rsplit(".", 1)[-1], []):
                for c2, names in defined.items():
                    if c2.rsplit(".", 1)[-1] == b and b not in seen:
                        if meth in names or inherited(c2, meth, seen + (b,)):
                            return True
            return False

        for q in missing:
            cont = inv["functions"][q]["container"]
            old = q.rsplit(".", 1)[-1]
            if inherited(cont, old):
                continue        # no longer overridden: the base class's method applies (see loader: inherited anchors)
            cands = []
            for nq, (ncont, node) in new.items():
                nm = nq.rsplit(".", 1)[-1]
                if ncont != cont or nm in known_simple or nm in renames:
                    continue
                if any(nm in names and old in names for names in defined.values()):
                    continue    # some class / module defines both names: they are different things
                cands.append((similarity(inv["functions"][q]["features"], features(node), ignore=(old, nm)), nm))
            cands.sort(reverse=True)
            if cands and cands[0][0] >= THRESHOLD and (len(cands) == 1 or cands[0][0] - cands[1][0] >= MARGIN):
                _rename_everywhere(trees, cands[0][1], old)
                renames[cands[0][1]] = old
                progress = True
        if not progress:
            break
    # ---- fields
    cur_fields: Dict[str, Dict[str, Dict[str, int]]] = {}
    for modname, tree in trees.items():
        cur_fields.update(class_fields(tree, modname))
    for cls, kfields in inv["fields"].items():
        have = cur_fields.get(cls)
        if have is None:
            continue
        missing_f = [f for f in kfields if f not in have]
        new_f = [f for f in have if f not in kfields and f not in known_simple and f not in renames]
        for f in missing_f:
            cands = sorted(((similarity(kfields[f], have[n]), n) for n in new_f), reverse=True)
            if cands and cands[0][0] >= THRESHOLD and (len(cands) == 1 or cands[0][0] - cands[1][0] >= MARGIN):
                _rename_everywhere(trees, cands[0][1], f)
                renames[cands[0][1]] = f
                new_f.remove(cands[0][1])
        # one field gone, one field new, both set up by the constructor and declared in the class body: the new one took its place
        # (its uses may have moved into new helper methods, so the use profiles need not be alike)
        missing_f = [f for f in kfields if f not in have and f not in renames.values()]
        if len(missing_f) == 1 and len(new_f) == 1:
            f, n = missing_f[0], new_f[0]
            if kfields[f].get("__init__:store") and have[n].get("__init__:store") and kfields[f].get("<class>:ann") and have[n].get("<class>:ann"):
                _rename_everywhere(trees, n, f)
                renames[n] = f
    return renames


def relocate_methods(trees: Dict[str, ast.Module]) -> Dict[str, str]:
    """A method `C.m(self, p)` of the pinned tree that a later change moved into the value class of its parameter:
    `V.g(self_v, y)` on a NamedTuple `V` that is new in the same module, called from C's methods as `x.g(self.F)` (or `x.g(n)` right after
    `self.F = n`).  The method is put back as `def m(self, p: V): return p.g(self.F)` and those calls become `self.m(x)`: the rules find
    their anchor, and the engine reads the moved body through the call (a method of a value class on a typed receiver is spliced).
    Only when there is exactly one candidate (V, g) and every call of g inside C passes the same field.  Returns {"mod.C.m": "mod.V.g"}."""
    inv = load_inventory()
    if inv is None:
        return {}
    out: Dict[str, str] = {}
    cur = {}
    for modname, tree in trees.items():
        for qn, cont, node, cls in _functions(tree, modname):
            cur.setdefault(qn, node)
    for q, rec in inv["functions"].items():
        if q in cur or len(rec["params"]) != 2:
            continue
        cont = rec["container"]
        modname = next((m for m in trees if cont.startswith(m + ".") and cont[len(m) + 1:].count(".") == 0), None)
        if modname is None:
            continue
        tree = trees[modname]
        cname = cont[len(modname) + 1:]
        cnode = next((n for n in tree.body if isinstance(n, ast.ClassDef) and n.name == cname), None)
        if cnode is None:
            continue
        old = q.rsplit(".", 1)[-1]
        cands = []
        for v in tree.body:
            if not isinstance(v, ast.ClassDef) or f"{modname}.{v.name}" in inv.get("fields", {}) or v is cnode:
                continue
            is_nt = any((isinstance(b, ast.Name) and b.id == "NamedTuple") or (isinstance(b, ast.Attribute) and b.attr == "NamedTuple") for b in v.bases)
            is_dc = any((ast.unparse(d.func if isinstance(d, ast.Call) else d)).rsplit(".", 1)[-1] == "dataclass" for d in v.decorator_list)
            if not (is_nt or is_dc):
                continue
            for g in v.body:
                if isinstance(g, ast.FunctionDef) and len(g.args.args) == 2 and not g.decorator_list and f"{modname}.{v.name}.{g.name}" not in inv["functions"]:
                    cands.append((v, g))
        hits = []
        for v, g in cands:
            sites = []
            ok = True
            for m in cnode.body:
                if not isinstance(m, (ast.FunctionDef, ast.AsyncFunctionDef)) or not m.args.args:
                    continue
                me = m.args.args[0].arg
                stored = {}      # name -> field, for `self.F = name` at statement level
                for st in ast.walk(m):
                    if isinstance(st, ast.Assign) and len(st.targets) == 1 and isinstance(st.targets[0], ast.Attribute) and isinstance(st.targets[0].value, ast.Name) \
                            and st.targets[0].value.id == me and isinstance(st.value, ast.Name):
                        stored[st.value.id] = (st.targets[0].attr, st.lineno)
                for n in ast.walk(m):
                    if isinstance(n, ast.Call) and isinstance(n.func, ast.Attribute) and n.func.attr == g.name and len(n.args) == 1 and not n.keywords:
                        y = n.args[0]
                        fld = None
                        if isinstance(y, ast.Attribute) and isinstance(y.value, ast.Name) and y.value.id == me:
                            fld = y.attr
                        elif isinstance(y, ast.Name) and y.id in stored and stored[y.id][1] < n.lineno:
                            fld = stored[y.id][0]
                        if fld is None:
                            ok = False
                        else:
                            sites.append((n, me, fld))
            flds = {f for _, _, f in sites}
            if ok and sites and len(flds) == 1:
                hits.append((v, g, sites, flds.pop()))
        if len(hits) != 1:
            continue
        v, g, sites, fld = hits[0]
        p = rec["params"][1]
        src = f"def {old}(self, {p}: {v.name}):\n    return {p}.{g.name}(self.{fld})\n"
        new_m = ast.parse(src).body[0]
        ref = sites[0][0]
        for n in ast.walk(new_m):
            if hasattr(n, "lineno") or isinstance(n, (ast.expr, ast.stmt, ast.arg)):
                n.lineno = getattr(g, "lineno", 1)
                n.end_lineno = getattr(g, "lineno", 1)
                n.col_offset = 0
                n.end_col_offset = 0
        cnode.body.append(new_m)
        # a frozen dataclass of plain fields that received the method is read like the NamedTuple it replaces (an immutable record:
        # the rules read its fields by position, as they read the tuple of the pinned tree)
        frozen = any(isinstance(d, ast.Call) and ast.unparse(d.func).rsplit(".", 1)[-1] == "dataclass"
                     and any(k.arg == "frozen" and isinstance(k.value, ast.Constant) and k.value.value is True for k in d.keywords) for d in v.decorator_list)
        plain = all(isinstance(st, (ast.FunctionDef, ast.Expr, ast.Pass)) or (isinstance(st, ast.AnnAssign) and st.value is None) for st in v.body) \
            and not any(isinstance(st, ast.FunctionDef) and st.name.startswith("__") for st in v.body)
        if frozen and plain and not v.bases:
            v.decorator_list = [d for d in v.decorator_list if not (ast.unparse(d.func if isinstance(d, ast.Call) else d).rsplit(".", 1)[-1] == "dataclass")]
            nt = ast.Name(id="NamedTuple", ctx=ast.Load())
            ast.copy_location(nt, v)
            v.bases = [nt]
        for n, me, _f in sites:
            recv = n.func.value
            n.func = ast.copy_location(ast.Attribute(value=ast.copy_location(ast.Name(id=me, ctx=ast.Load()), n), attr=old, ctx=ast.Load()), n)
            n.args = [recv]
        out[q] = f"{modname}.{v.name}.{g.name}"
    return out


def rename_by_callers(trees: Dict[str, ast.Module]) -> Dict[str, str]:
    """A method `C.m` of the pinned tree that is missing, while every method of C that called it in the pinned tree (inventory:
    the attribute name m among the caller's features) now calls -- through its first parameter -- one and the same method X that
    is new in C, of the same kind (sync / async): X took m's place (renamed *and* given another signature, so the feature-based
    match of `canonicalise` does not see it).  X is renamed back to m everywhere.  Returns {X: m}."""
    inv = load_inventory()
    if inv is None:
        return {}
    out: Dict[str, str] = {}
    cur: Dict[str, Tuple[str, ast.AST]] = {}
    for modname, tree in trees.items():
        for qn, cont, node, cls in _functions(tree, modname):
            cur.setdefault(qn, (cont, node))
    known_simple = {q.rsplit(".", 1)[-1] for q in inv["functions"]} | {f for fs in inv["fields"].values() for f in fs}
    for q, rec in inv["functions"].items():
        if q in cur:
            continue
        cont, old = rec["container"], q.rsplit(".", 1)[-1]
        if cont not in inv.get("fields", {}):
            continue        # not a method of a class
        callers = [k for k, r in inv["functions"].items() if r["container"] == cont and k != q and r["features"].get(f"a:{old}")]
        if not callers or any(k not in cur for k in callers):
            continue
        was_async = bool(rec["features"].get("async"))
        names = None
        for k in callers:
            node = cur[k][1]
            if not node.args.args:
                names = set()
                break
            me = node.args.args[0].arg
            called = {n.func.attr for n in ast.walk(node) if isinstance(n, ast.Call) and isinstance(n.func, ast.Attribute) and isinstance(n.func.value, ast.Name) and n.func.value.id == me}
            called = {x for x in called if f"{cont}.{x}" in cur and f"{cont}.{x}" not in inv["functions"] and x not in known_simple
                      and isinstance(cur[f"{cont}.{x}"][1], ast.AsyncFunctionDef) == was_async}
            names = called if names is None else names & called
        if names is not None and len(names) == 1:
            new = next(iter(names))
            _rename_everywhere(trees, new, old)
            out[new] = old
    return out
