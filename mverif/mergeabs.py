"""Abstract interpretation of nested-dict merge helpers that recurse with a depth argument.

`h(target, other, 3, flag=...)`: the dict arguments stay symbolic, integer and Boolean arguments are propagated as constants, the
recursion is unrolled along the (decreasing) constants.  The result is a *level summary*: for each nesting level what happens to a
key that is in both dicts ("recurse" into the next level, "new" = the other's value replaces the target's, "old" = the target's
value is kept) and to a key that only the other dict has ("none" = ignored, ("add", n) = added to the target with n freshly copied
levels below it; n = 0 is by reference).  Nothing is executed: the helper's syntax tree is walked once per (function, constants).

Understood: `for k, v in X.items()` over one of the two dict parameters, `if`/`elif`/`else` on `k in D` / `k not in D` and on
comparisons / truth of constant parameters, `continue`, `target[k] = <value>`, recursive calls (also of sibling helpers of the same
kind) on `target[k]`, `assert`, `return target`, and "copy n levels" helpers (`{k: copy(v, n - 1) for k, v in x.items()}` with a
depth test).  Anything else raises NotUnderstood."""
from __future__ import annotations

import ast
from typing import Any, Dict, List, Optional, Tuple


class NotUnderstood(Exception):
    pass


Level = Dict[str, Any]        # {"both": "recurse" | "new" | "old", "only_other": "none" | ("add", n)}


def _const(node: ast.AST, env: Dict[str, Any]) -> Any:
    if isinstance(node, ast.Constant):
        return node.value
    if isinstance(node, ast.Name) and node.id in env and not isinstance(env[node.id], str):
        return env[node.id]
    if isinstance(node, ast.BinOp) and isinstance(node.op, (ast.Add, ast.Sub)):
        a, b = _const(node.left, env), _const(node.right, env)
        return a + b if isinstance(node.op, ast.Add) else a - b
    if isinstance(node, ast.UnaryOp) and isinstance(node.op, ast.Not):
        return not _const(node.operand, env)
    if isinstance(node, ast.UnaryOp) and isinstance(node.op, ast.USub):
        return -_const(node.operand, env)
    if isinstance(node, ast.Compare) and len(node.ops) == 1:
        a, b = _const(node.left, env), _const(node.comparators[0], env)
        op = node.ops[0]
        table = {ast.Lt: a < b, ast.LtE: a <= b, ast.Gt: a > b, ast.GtE: a >= b, ast.Eq: a == b, ast.NotEq: a != b} if not isinstance(op, (ast.In, ast.NotIn, ast.Is, ast.IsNot)) else {}
        if type(op) in table:
            return table[type(op)]
    if isinstance(node, ast.BoolOp):
        vals = [_const(v, env) for v in node.values]
        return all(vals) if isinstance(node.op, ast.And) else any(vals)
    raise NotUnderstood(ast.unparse(node))


def copy_levels(funcs: Dict[str, ast.FunctionDef], name: str, args: List[Any]) -> Optional[int]:
    """`copy(v, n)`: the number of fresh dict levels of the result, for a helper of the form
    `if n <= 0: return v; return {k: copy(x, n - 1) for k, x in v.items()}` (or without a depth: dict(v) / v.copy() -> 1)."""
    fn = funcs.get(name)
    if fn is None:
        return None
    params = [a.arg for a in fn.args.args]
    if len(params) != 2 or len(args) != 2 or not isinstance(args[1], int):
        return None
    n = args[1]
    env = {params[1]: n}
    body = [st for st in fn.body if not (isinstance(st, ast.Expr) and isinstance(st.value, ast.Constant))]
    for st in body:
        if isinstance(st, ast.If):
            try:
                taken = _const(st.test, env)
            except NotUnderstood:
                return None
            if taken:
                st2 = st.body[0]
                if len(st.body) == 1 and isinstance(st2, ast.Return) and isinstance(st2.value, ast.Name) and st2.value.id == params[0]:
                    return 0
                return None
            continue
        if isinstance(st, ast.Return) and isinstance(st.value, ast.DictComp):
            dc = st.value
            if len(dc.generators) != 1:
                return None
            v = dc.value
            if isinstance(v, ast.Call) and isinstance(v.func, ast.Name) and v.func.id == name and len(v.args) == 2:
                try:
                    inner = copy_levels(funcs, name, [None, _const(v.args[1], env)])
                except NotUnderstood:
                    return None
                return None if inner is None else 1 + inner
            if isinstance(v, ast.Name):
                return 1
            return None
        return None
    return None


PRIMITIVES = {"merge_all": ("add", 0), "merge_existing": "none"}      # what the two primitives of internal_util do with a key only the other dict has


def _on_primitives(funcs, fn: ast.FunctionDef, name: str, tgt: str, oth: str, env: Dict[str, Any], max_levels: int) -> Optional[List[Level]]:
    """A helper written on top of the two primitives: `if depth == 0: return target | other` followed by
    `return merge_all | merge_existing(lambda a, b: helper(a, b, depth - 1) | a | b, target, other)`.  The primitive merges one level
    (a key that both have gets the lambda's value, a key that only the other has is added by reference / ignored); the recursion is
    unrolled along the constant depth.  None if the function is not of this form."""
    body = [st for st in fn.body if not (isinstance(st, ast.Expr) and isinstance(st.value, ast.Constant))]
    if not body or not isinstance(body[-1], ast.Return) or not isinstance(body[-1].value, ast.Call):
        return None
    call = body[-1].value
    pname = call.func.id if isinstance(call.func, ast.Name) else (call.func.attr if isinstance(call.func, ast.Attribute) else None)
    if pname not in PRIMITIVES or len(call.args) != 3 or not isinstance(call.args[0], ast.Lambda):
        return None
    if not (isinstance(call.args[1], ast.Name) and call.args[1].id == tgt and isinstance(call.args[2], ast.Name) and call.args[2].id == oth):
        return None
    lam = call.args[0]
    if len(lam.args.args) != 2:
        return None
    la, lb = lam.args.args[0].arg, lam.args.args[1].arg
    params = [a.arg for a in fn.args.args] + [a.arg for a in fn.args.kwonlyargs]
    levels: List[Level] = []
    cur = dict(env)
    for _ in range(max_levels + 1):
        # early exits on the constants
        done = None
        for st in body[:-1]:
            if isinstance(st, ast.If) and not st.orelse and len(st.body) == 1 and isinstance(st.body[0], ast.Return):
                if _const(st.test, cur):
                    r = st.body[0].value
                    done = "old" if isinstance(r, ast.Name) and r.id == tgt else ("new" if isinstance(r, ast.Name) and r.id == oth else "?")
                    break
            elif isinstance(st, ast.Assert):
                continue
            else:
                raise NotUnderstood(f"statement at line {st.lineno} of {name}")
        if done is not None:
            if done == "?" or not levels:
                raise NotUnderstood(f"base case of {name}")
            levels[-1]["both"] = done
            return levels
        lv: Level = {"only_other": PRIMITIVES[pname]}
        b = lam.body
        if isinstance(b, ast.Name) and b.id in (la, lb):
            lv["both"] = "old" if b.id == la else "new"
            levels.append(lv)
            return levels
        if isinstance(b, ast.Call) and isinstance(b.func, ast.Name) and b.func.id == name and len(b.args) >= 2 \
                and isinstance(b.args[0], ast.Name) and b.args[0].id == la and isinstance(b.args[1], ast.Name) and b.args[1].id == lb:
            lv["both"] = "recurse"
            levels.append(lv)
            nxt = dict(cur)
            for pn, a in list(zip(params[2:], b.args[2:])) + [(k.arg, k.value) for k in b.keywords]:
                nxt[pn] = _const(a, cur)
            cur = nxt
            continue
        raise NotUnderstood(f"the merger of {name} is neither a projection nor the recursive call")
    raise NotUnderstood(f"{name} does not reach its base case")


def summarise(funcs: Dict[str, ast.FunctionDef], name: str, consts: Dict[str, Any], max_levels: int = 6) -> List[Level]:
    """Level summary of helper `name` called with the constant arguments `consts` (parameter name -> value; parameters that are
    not given take their constant defaults).  The first two parameters are (target, other)."""
    fn = funcs.get(name)
    if fn is None:
        raise NotUnderstood(f"helper {name} not found")
    params = [a.arg for a in fn.args.args] + [a.arg for a in fn.args.kwonlyargs]
    if len(params) < 2:
        raise NotUnderstood("a merge helper takes (target, other, ...)")
    tgt, oth = params[0], params[1]
    env: Dict[str, Any] = {tgt: "T", oth: "O"}
    pos = fn.args.args
    for a, d in zip(pos[len(pos) - len(fn.args.defaults):], fn.args.defaults):
        if isinstance(d, ast.Constant):
            env[a.arg] = d.value
    for a, d in zip(fn.args.kwonlyargs, fn.args.kw_defaults):
        if isinstance(d, ast.Constant):
            env[a.arg] = d.value
    env.update(consts)
    for p in params[2:]:
        if p not in env:
            raise NotUnderstood(f"argument {p} of {name} is not a constant")
    prim = _on_primitives(funcs, fn, name, tgt, oth, env, max_levels)
    if prim is not None:
        return prim
    level: Level = {}
    deeper: Optional[List[Level]] = None

    def record(case: str, what: Any) -> None:
        if case in level and level[case] != what:
            raise NotUnderstood(f"two different effects for a key in case {case}")
        level[case] = what

    def value_fresh(v: ast.AST, loopvar_v: Optional[str], loopkey: str, iter_over: str) -> Optional[int]:
        """fresh levels of the stored value, None if it is not the other dict's value for this key"""
        if isinstance(v, ast.Name) and v.id == loopvar_v and iter_over == "O":
            return 0
        if isinstance(v, ast.Subscript) and isinstance(v.value, ast.Name) and env.get(v.value.id) == "O" and isinstance(v.slice, ast.Name) and v.slice.id == loopkey:
            return 0
        if isinstance(v, ast.Call) and isinstance(v.func, ast.Name) and v.func.id == "dict" and len(v.args) == 1:
            inner = value_fresh(v.args[0], loopvar_v, loopkey, iter_over)
            return None if inner is None else 1
        if isinstance(v, ast.Call) and isinstance(v.func, ast.Attribute) and v.func.attr == "copy" and not v.args:
            inner = value_fresh(v.func.value, loopvar_v, loopkey, iter_over)
            return None if inner is None else 1
        if isinstance(v, ast.Call) and isinstance(v.func, ast.Name) and v.func.id in ("deepcopy",):
            return 99
        if isinstance(v, ast.Call) and isinstance(v.func, ast.Name) and v.func.id in funcs and len(v.args) == 2:
            inner = value_fresh(v.args[0], loopvar_v, loopkey, iter_over)
            if inner is None:
                return None
            try:
                n = copy_levels(funcs, v.func.id, [None, _const(v.args[1], env)])
            except NotUnderstood:
                return None
            return n
        return None

    def block(body: List[ast.stmt], loop: Tuple[str, Optional[str], str], present: Dict[str, bool]) -> bool:
        """walk the statements of the loop body for one case; returns True when the iteration ends (continue)"""
        nonlocal deeper
        key, val, over = loop
        for st in body:
            if isinstance(st, ast.Expr) and isinstance(st.value, ast.Constant):
                continue
            if isinstance(st, ast.Continue):
                return True
            if isinstance(st, ast.Pass):
                continue
            if isinstance(st, ast.If):
                t = st.test
                neg = False
                if isinstance(t, ast.UnaryOp) and isinstance(t.op, ast.Not) and isinstance(t.operand, ast.Compare):
                    t, neg = t.operand, True
                if isinstance(t, ast.Compare) and len(t.ops) == 1 and isinstance(t.ops[0], (ast.In, ast.NotIn)) and isinstance(t.left, ast.Name) and t.left.id == key \
                        and isinstance(t.comparators[0], ast.Name) and env.get(t.comparators[0].id) in ("T", "O"):
                    which = env[t.comparators[0].id]
                    truth = present[which] != isinstance(t.ops[0], ast.NotIn)
                    truth = truth != neg
                else:
                    truth = bool(_const(st.test, env))
                if block(st.body if truth else st.orelse, loop, present):
                    return True
                continue
            case = "both" if present["T"] and present["O"] else "only_other" if present["O"] else "only_target"
            if isinstance(st, ast.Assign) and len(st.targets) == 1 and isinstance(st.targets[0], ast.Subscript):
                tg = st.targets[0]
                if not (isinstance(tg.value, ast.Name) and env.get(tg.value.id) == "T" and isinstance(tg.slice, ast.Name) and tg.slice.id == key):
                    raise NotUnderstood(ast.unparse(st))
                fresh = value_fresh(st.value, val, key, over)
                if fresh is None:
                    raise NotUnderstood(ast.unparse(st))
                if case == "both":
                    record("both", "new")
                elif case == "only_other":
                    record("only_other", ("add", fresh))
                else:
                    raise NotUnderstood("a key that only the target has is overwritten")
                continue
            callx = st.value if isinstance(st, ast.Expr) else (st.value if isinstance(st, ast.Assign) else None)
            if isinstance(callx, ast.Call) and isinstance(callx.func, ast.Name) and callx.func.id in funcs:
                a = callx.args
                if len(a) >= 2 and ((isinstance(a[0], ast.Subscript) and isinstance(a[0].value, ast.Name) and env.get(a[0].value.id) == "T"
                                     and isinstance(a[0].slice, ast.Name) and a[0].slice.id == key) or (isinstance(a[0], ast.Name) and a[0].id == val and over == "T")):
                    callee = funcs[callx.func.id]
                    cparams = [x.arg for x in callee.args.args] + [x.arg for x in callee.args.kwonlyargs]
                    cc: Dict[str, Any] = {}
                    for p, x in zip(cparams[2:], a[2:]):
                        cc[p] = _const(x, env)
                    for kw in callx.keywords:
                        if kw.arg is None:
                            raise NotUnderstood("**kwargs")
                        cc[kw.arg] = _const(kw.value, env)
                    if case != "both":
                        raise NotUnderstood("recursion on a key that one side lacks")
                    if max_levels <= 1:
                        raise NotUnderstood("recursion does not end")
                    sub = summarise(funcs, callx.func.id, cc, max_levels - 1)
                    if deeper is not None and deeper != sub:
                        raise NotUnderstood("two different recursive calls")
                    deeper = sub
                    record("both", "recurse")
                    continue
            if isinstance(st, ast.Assign) and isinstance(st.targets[0], ast.Name):
                # a local alias of the other side's value: `new = other[k]`
                continue
            raise NotUnderstood(ast.unparse(st)[:80])
        return False

    seen_loop = False
    for st in fn.body:
        if isinstance(st, ast.Expr) and isinstance(st.value, ast.Constant):
            continue
        if isinstance(st, ast.Assert):
            continue
        if isinstance(st, ast.Return):
            continue
        if isinstance(st, ast.If):
            # an early exit on a constant condition
            try:
                if _const(st.test, env):
                    if all(isinstance(x, ast.Return) for x in st.body):
                        return [{"both": "old", "only_other": "none"}] if not seen_loop else [level] + (deeper or [])
                    raise NotUnderstood(ast.unparse(st.test))
                continue
            except NotUnderstood:
                raise
        if isinstance(st, ast.For) and not st.orelse and isinstance(st.iter, ast.Call) and isinstance(st.iter.func, ast.Attribute) and st.iter.func.attr in ("items", "keys") \
                and isinstance(st.iter.func.value, ast.Name) and env.get(st.iter.func.value.id) in ("T", "O") or \
                (isinstance(st, ast.For) and not st.orelse and isinstance(st.iter, ast.Name) and env.get(st.iter.id) in ("T", "O")):
            over = env[st.iter.func.value.id] if isinstance(st.iter, ast.Call) else env[st.iter.id]
            if isinstance(st.target, ast.Tuple) and len(st.target.elts) == 2:
                key, val = st.target.elts[0].id, st.target.elts[1].id
            elif isinstance(st.target, ast.Name):
                key, val = st.target.id, None
            else:
                raise NotUnderstood(ast.unparse(st.target))
            seen_loop = True
            other_side = "O" if over == "T" else "T"
            for p in (True, False):
                present = {over: True, other_side: p}
                block(st.body, (key, val, over), present)
            continue
        raise NotUnderstood(ast.unparse(st)[:80])
    level.setdefault("both", "old")
    level.setdefault("only_other", "none")
    return [level] + (deeper or [])
