"""R23 ADAPTERS — request shapes, adapter behaviour per API feature, thresholds / nesting order /
gating in init_and_get_adapter, version parsing agreement, in-process time_resolution handling."""
from __future__ import annotations

import ast
import os
from typing import Dict, List, Optional, Tuple

from .base import *  # noqa: F401,F403
from .. import boolfn, constfold

ADAPT = "mosaik.adapters.init_and_get_adapter"
V3V2 = "mosaik.adapters.V3ToV2Adapter"
V2V1 = "mosaik.adapters.V2ToV1Adapter"
EXTRACT = "mosaik.proxies.extract_version"
LOCAL_INIT = "mosaik.proxies.LocalProxy.init"
SCENERR = "mosaik.exceptions.ScenarioError"
MIN_INSTANCES = 16


def run(ctx: Ctx) -> Collector:
    c = Collector("R23")
    _request_shapes(ctx, c)
    _v3v2(ctx, c)
    _v2v1(ctx, c)
    _transparent(ctx, c)
    _gating(ctx, c)
    _versions(ctx, c)
    _local_init(ctx, c)
    _adapted_meta(ctx, c)
    return c


def _request_shapes(ctx: Ctx, c: Collector) -> None:
    n = 0
    from .sites import typer_of
    typer = typer_of(ctx.prog)
    proxies = {ci.qualname for ci in ctx.prog.subclasses("mosaik.proxies.Proxy")}
    for fi in analysis_units(ctx.prog):
        if fi.module.name == "mosaik.adapters":
            continue
        s = summarise(ctx.prog, fi)
        for e in s.of_kind("call"):
            f = e.term[1]
            if not (f[0] == "attr" and f[2] == "send" and len(e.term[2]) == 1):
                continue
            recv = f[1]
            rt = typer.unopt(typer._type_of(recv, typer.event_env(fi, e)))
            if not (rt[0] == "cls" and rt[1] in proxies):
                continue              # raw channel ("stop" is version independent), generator protocol, ...
            req = e.term[2][0]
            items = None
            if req[0] == "bag" and all(not x[2] and not x[3] for x in req[1]):
                items = [x[1] for x in req[1]]
            elif req[0] == "tuple":
                items = list(req[1])
            n += 1
            loc = ctx.loc(fi, e)
            if items is None:
                if req[0] == "var":
                    continue          # forwarding a request object unchanged (BaseProxy.send wrappers)
                c.bad("shape", fi.qualname, f"request {T.show(req)[:60]}", "a request is not a [name, args, kwargs] display: the adapters' unpacking silently forwards it unadapted", loc)
                continue
            name = items[0] if items else T.NONE
            label = f"request {T.show(name)}"
            if len(items) != 3:
                c.bad("shape", fi.qualname, label, f"request has {len(items)} elements instead of [name, args, kwargs]", loc)
                continue
            _displays(ctx).append((name, req))
            if name == T.const("step"):
                args, kwargs = items[1], items[2]
                okargs = args[0] == "tuple" and len(args[1]) == 3
                okkw = kwargs == ("dict", ())
                pr = []
                if not okargs:
                    pr.append(f"positional arguments {T.show(args)[:80]} are not exactly (time, inputs, max_advance)")
                if not okkw:
                    pr.append(f"keyword arguments {T.show(kwargs)[:80]} are sent with step: the v2 adapter only truncates the positional arguments, so a pre-v3 simulator receives them")
                c.add("shape", fi.qualname, label, VIOLATED if pr else DISCHARGED, "; ".join(pr), loc)
            else:
                c.ok("shape", fi.qualname, label, "3-element request", loc)
    c.info["send_sites"] = n
    if n < 7:
        raise AnalysisError(f"R23 found only {n} request sites (8 confirmed by hand)")


def _displays(ctx: Ctx) -> List[Tuple[Term, Term]]:
    """(name, request display) of every proxy send site (filled by _request_shapes)."""
    d = getattr(ctx, "_r23_displays", None)
    if d is None:
        d = []
        ctx._r23_displays = d  # type: ignore[attr-defined]
    return d


def _concrete(ctx: Ctx, name: str) -> Tuple[List[Term], List[Term]]:
    """The request displays sent under `name`, and representatives of all other requests (a
    non-constant name -- extra methods -- is represented by a name no adapter knows)."""
    mine, others = [], []
    for n, req in _displays(ctx):
        if n == T.const(name):
            mine.append(req)
        elif n[0] == "const":
            others.append(req)
        else:
            others.append(T.replace(req, {n: T.const("<extra method>")}))
    return mine, others


def _deciding(req: Term, concrete: Term):
    def truthy(t: Term) -> Optional[bool]:
        if T.contains(t, req):
            return constfold.decide(t, {req: concrete})
        return None
    return truthy


def _v3v2(ctx: Ctx, c: Collector) -> None:
    qn = V3V2 + ".send"
    fi = ctx.func(qn)
    s = ctx.summ(qn)
    me, req = T.var(fi.params[0]), T.var(fi.params[1])
    fwd = [e for e in s.of_kind("call") if e.term[1] == ("attr", ("attr", me, "_out"), "send")]
    steps, others = _concrete(ctx, "step")
    pr: Optional[List[str]] = []
    if not fwd:
        pr.append("requests are not forwarded")
    elif not steps:
        raise AnalysisError("R23: no `step` request display found at the proxy send sites")
    else:
        try:
            for flag, concrete in [(True, r) for r in steps] + [(False, r) for r in others]:
                truthy = _deciding(req, concrete)
                rname = T.show(constfold.fold(("idx", concrete, T.const(0))))
                fired = [e for e in fwd if boolfn.guards_hold_leaves(e.guards, {}, truthy)]
                if len(fired) != 1:
                    pr.append(f"{rname} requests are forwarded {len(fired)} times")
                    continue
                arg = boolfn.resolve_phi(unalias(fired[0].term[2][0], s, fi), {}, truthy)
                if not flag:
                    if arg != req:
                        pr.append(f"{rname} requests are forwarded as {T.show(arg)[:80]} instead of unchanged")
                    continue
                got = constfold.display(constfold.fold(T.replace(T.strip(arg), {req: concrete})))
                sent = constfold.display(concrete)
                sargs = constfold.display(sent[1][1])
                if got is None or got[0] == "dict" or len(got[1]) != 3:
                    pr.append(f"for `step` the forwarded request is {T.show(arg)[:100]} instead of ('step', args[0:2], kwargs)")
                    continue
                gargs = constfold.display(got[1][1])
                if got[1][0] != T.const("step") or got[1][2] != sent[1][2]:
                    pr.append(f"for `step` the forwarded request is {T.show(arg)[:100]} instead of ('step', args[0:2], kwargs)")
                elif gargs is None or sargs is None:
                    if got[1][1] == sent[1][1]:
                        pr.append("for `step` the positional arguments are not truncated to (time, inputs): max_advance reaches a pre-v3 simulator")
                    else:
                        pr.append(f"for `step` the forwarded positional arguments are {T.show(got[1][1])[:80]}, not understood as args[0:2]")
                elif tuple(gargs[1]) != tuple(sargs[1][:2]):
                    if len(gargs[1]) > 2:
                        pr.append("for `step` the positional arguments are not truncated to (time, inputs): max_advance reaches a pre-v3 simulator")
                    else:
                        pr.append(f"for `step` the forwarded positional arguments are {T.show(got[1][1])[:80]} instead of (time, inputs)")
        except boolfn.NotBoolean as ex:
            c.unk("feature", qn, "max_advance (v3): step forwards args[0:2]", f"condition not understood: {ex}", fi.loc)
            pr = None
    if pr is not None:
        pr = list(dict.fromkeys(pr))
        c.add("feature", qn, "max_advance (v3): step forwards args[0:2]", VIOLATED if pr else DISCHARGED, "; ".join(pr), fi.loc)
    qn = V3V2 + ".meta"
    fi = ctx.func(qn)
    s = ctx.summ(qn)
    me = T.var(fi.params[0])
    meta = ("attr", ("attr", me, "_out"), "meta")
    okm = any(unalias(e.term, s, fi) == call(("attr", meta, "setdefault"), T.const("type"), T.const("time-based")) and not e.guards for e in s.of_kind("call")) \
        and len(s.returns) == 1 and unalias(s.returns[0].term, s, fi) == meta
    pr = [] if okm else ["a missing simulator type is not defaulted to 'time-based' in the adapted meta"]
    # the default is written into the object one read of `_out.meta` returns and the object another read
    # returns is handed out: every `meta` the adapter can wrap must return the same stored object each time
    reads = sum(1 for n in ast.walk(fi.node) if isinstance(n, ast.Attribute) and n.attr == "meta" and isinstance(n.value, ast.Attribute) and n.value.attr == "_out")
    if okm and reads > 1:
        for ci in ctx.prog.subclasses("mosaik.proxies.Proxy"):
            mfi = ci.methods.get("meta")
            if mfi is None or ci.qualname == V3V2:
                continue
            ms = summarise(ctx.prog, mfi)
            m_me = T.var(mfi.params[0])
            rv = folded_return(ms)
            stable = rv is not None and T.strip(rv)[0] == "attr" and T.path_root(T.strip(rv)) == m_me
            if ms.returns and not stable and not (ci.qualname == "mosaik.proxies.Proxy"):
                pr.append(f"{ci.name}.meta returns {T.show(rv)[:60]}, a new object on every read: the 'type' default that V3ToV2Adapter.meta writes with setdefault() goes into a throw-away copy "
                          "and the meta it returns (a second read) lacks it")
    c.add("feature", qn, "missing type (v3): defaults to time-based", VIOLATED if pr else DISCHARGED, "; ".join(pr), fi.loc)


def _v2v1(ctx: Ctx, c: Collector) -> None:
    qn = V2V1 + ".send"
    fi = ctx.func(qn)
    s = ctx.summ(qn)
    me, req = T.var(fi.params[0]), T.var(fi.params[1])
    fwd = [e for e in s.of_kind("call") if e.term[1] == ("attr", ("attr", me, "_out"), "send")]
    sds, others = _concrete(ctx, "setup_done")
    if not sds:
        raise AnalysisError("R23: no `setup_done` request display found at the proxy send sites")
    pr: List[str] = []
    try:
        for flag, concrete in [(True, r) for r in sds] + [(False, r) for r in others]:
            truthy = _deciding(req, concrete)
            rname = T.show(constfold.fold(("idx", concrete, T.const(0))))
            f = [e for e in fwd if boolfn.guards_hold_leaves(e.guards, {}, truthy)]
            r = [e for e in s.returns if boolfn.guards_hold_leaves(e.guards, {}, truthy)]
            if flag:
                if f:
                    pr.append(f"`setup_done` (sent as {T.show(concrete)}) is forwarded to a simulator that does not know it")
                if not r or boolfn.resolve_phi(r[0].term, {}, truthy) != T.NONE:
                    pr.append("`setup_done` is not answered locally (with None)")
            else:
                if len(f) != 1 or boolfn.resolve_phi(unalias(f[0].term[2][0], s, fi), {}, truthy) != req:
                    pr.append(f"{rname} requests are not forwarded unchanged")
    except boolfn.NotBoolean as ex:
        c.unk("feature", qn, "setup_done (v2.2): answered locally, not forwarded", f"condition not understood: {ex}", fi.loc)
        return
    pr = list(dict.fromkeys(pr))
    c.add("feature", qn, "setup_done (v2.2): answered locally, not forwarded", VIOLATED if pr else DISCHARGED, "; ".join(pr), fi.loc)


def _transparent(ctx: Ctx, c: Collector) -> None:
    """Adapters change requests, never outcomes: a forward to the wrapped proxy is not inside the
    body of a `try` whose handler swallows the exception (the handlers there are meant for the
    unpacking of malformed requests).  Otherwise an error raised by the simulator is caught by
    the adapter and -- with the fall-through forward -- the request is sent a second time, unadapted."""
    n = 0
    for ci in ctx.prog.subclasses("mosaik.adapters.Adapter"):
        for mname in ("send", "stop"):
            fi = ctx.prog.functions.get(f"{ci.qualname}.{mname}")        # the class's own, or the inherited anchor
            if fi is None:
                continue
            s = summarise(ctx.prog, fi)
            me = T.var(fi.params[0])
            fwd = [e for e in s.of_kind("call") if e.term[1][0] == "attr" and e.term[1][1] == ("attr", me, "_out")]
            if not fwd:
                continue
            n += 1
            pr = []
            for e in fwd:
                for tid, role in e.tries:
                    if role != "body":
                        continue
                    handlers = [h for h in s.of_kind("test") if h.term[0] == "except" and (tid, "handler") in h.tries]
                    for h in handlers:
                        inside = [x for x in s.events if (tid, "handler") in x.tries and x.idx > h.idx and (not handlers or all(x.idx < h2.idx for h2 in handlers if h2.idx > h.idx))]
                        if not any(x.kind == "raise" for x in inside):
                            pr.append(f"the forward {T.show(e.term)[:60]} (line {e.lineno}) is inside a try whose `except {T.show(h.term[1])}` does not re-raise: "
                                      "an error raised by the simulator is swallowed by the adapter" + (" and the request is forwarded again by the code after the try" if any(f.idx > e.idx and not f.tries for f in fwd) else ""))
            c.add("feature", fi.qualname, "errors from the wrapped proxy propagate unchanged", VIOLATED if pr else DISCHARGED, "; ".join(pr), fi.loc)
    if n < 3:
        raise AnalysisError(f"R23: only {n} forwarding adapter methods found (Adapter.send/stop, V3ToV2Adapter.send, V2ToV1Adapter.send confirmed by hand)")


class _NeedAtom(Exception):
    pass


def _gating(ctx: Ctx, c: Collector) -> None:
    fi = ctx.func(ADAPT)
    s = ctx.summ(ADAPT)
    base = T.var(fi.params[0])
    loc = fi.loc
    ver = None
    for e in s.of_kind("await"):
        if e.term[0] == "call" and e.term[1] == ("attr", base, "init"):
            ver = ("await", e.term)
    if ver is None:
        c.bad("gate", ADAPT, "version", "the base proxy is never initialised", loc)
        return
    rets = s.returns
    if len(rets) != 1:
        c.unk("gate", ADAPT, "adapter chain", "more than one return", loc)
        return
    res = rets[0].term

    def lst(*xs):
        return ("bag", tuple(("elem", T.const(x), (), ()) for x in xs), "list")
    LT22 = ("cmp", "<", ver, lst(2, 2))
    LT3 = ("cmp", "<", ver, lst(3))
    LT4 = ("cmp", "<", ver, lst(4))

    def const_list(t: Term) -> Optional[List[int]]:
        if t[0] == "bag" and all(x[1][0] == "const" and not x[2] and not x[3] for x in t[1]):
            return [x[1][1] for x in t[1]]
        return None

    def holds(cond: Term, v: List[int]) -> bool:
        """Constant folding of a threshold test for one representative version list."""
        cond = T.strip(cond)
        if cond[0] == "not":
            return not holds(cond[1], v)
        if cond[0] == "and":
            return all(holds(x, v) for x in cond[1])
        if cond[0] == "or":
            return any(holds(x, v) for x in cond[1])
        if cond[0] == "cmp" and cond[1] in ("<", "<=", "==", "!="):
            a, b = cond[2], cond[3]

            def seq(x: Term):
                """(values, 'list' | 'tuple') of the reported version -- also converted with tuple() / list() -- or of a constant display"""
                x = T.strip(x)
                if x == ver:
                    return v, "list"
                if x[0] == "call" and x[1][0] == "glob" and x[1][1] in ("tuple", "list") and len(x[2]) == 1:
                    inner = seq(x[2][0])
                    return None if inner is None else (inner[0], x[1][1])
                if x[0] == "tuple" and all(y[0] == "const" for y in x[1]):
                    return [y[1] for y in x[1]], "tuple"
                if x[0] == "idx" and T.strip(x[2])[0] == "slice":
                    # a slice of the version (`version[:2]`: "patch levels do not matter")
                    inner = seq(x[1])
                    sl = T.strip(x[2])
                    bounds = []
                    for b_ in sl[1:4]:
                        b_ = T.strip(b_)
                        if b_ == T.NONE:
                            bounds.append(None)
                        elif b_[0] == "const" and isinstance(b_[1], int):
                            bounds.append(b_[1])
                        else:
                            return None
                    return None if inner is None else (inner[0][slice(*bounds)], inner[1])
                cl = const_list(x)
                if cl is not None:
                    return cl, ("tuple" if len(x) > 2 and x[2] == "tuple" else "list")
                return None
            sa, sb = seq(a), seq(b)
            if sa is not None and sb is not None:
                (la, ka), (lb, kb) = sa, sb
                if ka != kb:
                    # a list never equals a tuple, and ordering them is a TypeError
                    if cond[1] in ("==", "!="):
                        return cond[1] == "!="
                    raise boolfn.NotBoolean(f"{T.show(cond)} orders a list against a tuple (TypeError)")
                return {"<": la < lb, "<=": la <= lb, "==": la == lb, "!=": la != lb}[cond[1]]
        if not T.contains((cond,), ver):
            # something other than the reported version: both outcomes are looked at (see `other`)
            l, pol = boolfn.canon_leaf(cond)
            if l in other:
                return other[l] == pol
            raise _NeedAtom(l)
        raise boolfn.NotBoolean(T.show(cond))

    def chain(t: Term, v: List[int]) -> Optional[List[str]]:
        t = T.strip(t)
        if t == base:
            return []
        if t[0] in ("phi", "ifexp"):
            return chain(t[2] if holds(t[1], v) else t[3], v)
        if t[0] == "call" and t[1][0] == "glob" and len(t[2]) == 1:
            inner = chain(t[2][0], v)
            return None if inner is None else inner + [t[1][1].rsplit(".", 1)[-1]]
        return None

    def replay(t: Term, v: List[int]) -> Term:
        """The value of a re-assigned local (`proxy = Adapter(proxy)` in a loop over a table of
        thresholds, or in consecutive ifs) for one representative version: its assignments are
        replayed in order, each under its own guards."""
        t = T.strip(t)
        if t[0] != "var":
            return t
        cur: Optional[Term] = None
        for b in s.of_kind("bind"):
            if b.term[1] != t:
                continue
            try:
                if not all(holds(T.guard_term(g), v) for g in b.guards if T.contains((g,), ver) and g not in rets[0].guards):
                    continue
            except boolfn.NotBoolean:
                return t
            cur = T.replace(T.strip(b.term[2]), {t: cur}) if cur is not None else T.strip(b.term[2])
        return cur if cur is not None else t

    pr = []
    other: Dict[Term, bool] = {}
    try:
        for v in ([1], [2], [2, 0], [2, 1, 3], [2, 2], [2, 4, 1], [3], [3, 0], [3, 0, 16]):
            want = ["V2ToV1Adapter", "V3ToV2Adapter"] if v < [2, 2] else ["V3ToV2Adapter"] if v < [3] else []
            todo: List[Dict[Term, bool]] = [{}]
            while todo:
                asg = todo.pop()
                other.clear()
                other.update(asg)
                try:
                    got = chain(replay(res, v), v)
                except _NeedAtom as na:
                    if len(asg) >= 3:
                        raise boolfn.NotBoolean(T.show(na.args[0]))
                    todo += [dict(asg, **{}) | {na.args[0]: True}, dict(asg) | {na.args[0]: False}]
                    continue
                if got is None:
                    c.unk("gate", ADAPT, "adapter chain", "returned proxy not understood as a chain of adapters", loc)
                    return
                if got != want:
                    cond = (" when " + " and ".join(("" if val else "not ") + T.show(k)[:50] for k, val in asg.items())) if asg else ""
                    pr.append(f"version {'.'.join(map(str, v))}{cond}: adapters (inner to outer) {got or 'none'} instead of {want or 'none'}"
                              + (" (which adapters a simulator gets must depend on the version it reports only)" if asg else ""))
        other.clear()
    except boolfn.NotBoolean as ex:
        c.unk("gate", ADAPT, "adapter chain", f"threshold test {ex} not understood", loc)
        return
    c.add("gate", ADAPT, "adapter chain per version: thresholds and nesting", VIOLATED if pr else DISCHARGED, "; ".join(pr), loc)
    # rejections
    raises = [e for e in s.of_kind("raise") if not e.tries or all(r != "handler" for _, r in e.tries)]
    # which raise fires for a representative too-new / acceptable version (constant folding of the list comparison)
    def fires(e: Event, v: List[int]) -> Optional[bool]:
        try:
            for g in e.guards:
                gt = T.guard_term(g)
                if not T.contains(gt, ver):
                    return None
                if not holds(gt, v):
                    return False
            return True
        except (boolfn.NotBoolean, _NeedAtom):
            return None
    too_new = [e for e in raises if fires(e, [1000, 0]) is True]
    pr = []
    if not too_new or too_new[0].term[1] != T.glob(SCENERR):
        pr.append("versions >= 4 are not rejected with ScenarioError")
    else:
        for v in ([4], [4, 0], [4, 0, 1], [5], [10, 2]):
            if not any(fires(e, v) for e in too_new):
                pr.append(f"version {'.'.join(map(str, v))} is not rejected as too new")
        for v in ([3], [3, 0], [3, 0, 16], [3, 9], [2, 2], [1]):
            if any(fires(e, v) for e in too_new):
                pr.append(f"version {'.'.join(map(str, v))} is rejected as too new")
    mism = [e for e in raises if e not in too_new and e.term[0] == "call" and e.term[1] == T.glob(SCENERR)]
    # the parser of the configured version: the local (whatever it is called) that is bound to something
    # split at "." -- its operand is the configured version string
    expl = None
    expl_str = None
    for b in s.of_kind("bind"):
        v = T.strip(b.term[2])
        splits = [x for x in T.subterms((v,)) if x[0] == "call" and x[1][0] == "attr" and x[1][2] == "split" and x[2] == (T.const("."),)]
        if splits and not T.contains((v,), ver) and b.term[2] != T.NONE:
            expl = v
            expl_str = splits[0][1][1]
            # `parse(x) if x is not None else None`: the parser is the branch that is not None
            while expl[0] in ("ifexp", "phi") and T.NONE in (expl[2], expl[3]):
                expl = T.strip(expl[3] if expl[2] == T.NONE else expl[2])
            break
    if not mism:
        pr.append("a reported version different from the configured api_version is not rejected")
    else:
        gt = T.guard_term(mism[0].guards[-1])

        def kind_of(x: Term) -> Optional[str]:
            x = T.strip(x)
            if x == ver:
                return "list"
            if x[0] == "call" and x[1][0] == "glob" and x[1][1] in ("tuple", "list"):
                return x[1][1]
            if x[0] == "bag":
                return "tuple" if len(x) > 2 and x[2] == "tuple" else "list"
            if x[0] == "tuple":
                return "tuple"
            if x[0] in ("ifexp", "phi"):
                ks = {kind_of(y) for y in (x[2], x[3]) if T.strip(y) != T.NONE}
                return ks.pop() if len(ks) == 1 else None
            return None

        def is_ver(x: Term) -> bool:
            x = T.strip(x)
            return x == ver or (x[0] == "call" and x[1][0] == "glob" and x[1][1] in ("tuple", "list") and len(x[2]) == 1 and is_ver(x[2][0]))
        neq = [x for x in (gt[1] if gt[0] == "and" else ()) if x[0] == "cmp" and x[1] == "!=" and (is_ver(x[2]) or is_ver(x[3]))]
        if not neq:
            pr.append(f"the mismatch test is {T.show(gt)[:100]}, not `explicit and version != explicit`")
        else:
            ka, kb = kind_of(neq[0][2]), kind_of(neq[0][3])
            if ka is not None and kb is not None and ka != kb:
                pr.append(f"the mismatch test compares a {ka} with a {kb}: they are never equal, so every configured api_version is reported as a mismatch")
    # both rejections dominate the wrapping: no representative too-new version reaches the return
    for v in ([4], [4, 1], [7]):
        if fires(rets[0], v) is not False:
            pr.append("adapters are applied without excluding versions >= 4")
            break
    c.add("gate", ADAPT, "rejections (>= 4, explicit mismatch) dominate the wrapping", VIOLATED if pr else DISCHARGED, "; ".join(pr), loc)
    c.info["explicit_parse"] = T.show(expl) if expl is not None else None
    # version parsing agreement (sibling parsers)
    ev = ctx.summ(EXTRACT)
    efi = ctx.func(EXTRACT)
    meta = T.var(efi.params[0])
    parsed = [r.term for r in ev.returns if r.term[0] in ("call", "bag") and T.contains(r.term, T.const("api_version"))]
    pr = []
    if expl is None or not parsed:
        pr.append("version parsers not found")
    else:
        HOLE = ("var", "<version string>")
        def norm(x):
            # list(<generator>) / [comprehension] / list(map(f, xs)) are the same collection
            x = T.strip(x)
            while x[0] == "call" and x[1] in (T.glob("list"), T.glob("tuple")) and len(x[2]) == 1:
                x = x[2][0]
            return T.alpha(x)
        a = norm(T.replace(expl, {expl_str: HOLE}))
        b = norm(T.replace(parsed[0], {("idx", meta, T.const("api_version")): HOLE}))
        if a != b:
            pr.append(f"the configured version is parsed as {T.show(a)} but the reported one as {T.show(b)}: equal version strings can compare unequal (or different ones equal)")
        std = T.alpha(("bag", (("elem", call(T.glob("int"), T.var("§m")), (), (("it", T.var("§m"), call(("attr", HOLE, "split"), T.const("."))),)),), "gen"))
        if b != std:
            pr.append(f"the reported version is parsed as {T.show(b)} instead of all dot-separated integers")
    c.add("versions", ADAPT, "configured and reported version are parsed alike", VIOLATED if pr else DISCHARGED, "; ".join(pr), loc)


def _versions(ctx: Ctx, c: Collector) -> None:
    fi = ctx.func(EXTRACT)
    s = ctx.summ(EXTRACT)
    meta = T.var(fi.params[0])
    one = ("bag", (("elem", T.const(1), (), ()),), "list")
    have = ("cmp", "in", T.const("api_version"), meta)
    try:
        ok = any(boolfn.guards_hold_leaves(r.guards, {have: False}) and r.term == one for r in s.returns) and \
            not any(boolfn.guards_hold_leaves(r.guards, {have: True}) and r.term == one for r in s.returns)
    except boolfn.NotBoolean:
        ok = False
    c.check(ok, "versions", EXTRACT, "missing api_version means [1]", "a meta without api_version is not treated as version 1", fi.loc)


def _local_init(ctx: Ctx, c: Collector) -> None:
    fi = ctx.func(LOCAL_INIT)
    s = ctx.summ(LOCAL_INIT)
    me = T.var(fi.params[0])
    comp = call(T.glob("mosaik_api_v3.check_api_compliance"), ("attr", me, "sim"))
    dels = [e for e in s.events if e.kind == "del" and T.contains(e.term, T.const("time_resolution"))] + \
           [e for e in s.of_kind("call") if e.term[1][0] == "attr" and e.term[1][2] == "pop" and e.term[2][:1] == (T.const("time_resolution"),)]
    sends = [e for e in s.of_kind("call") if e.term[1] == ("attr", me, "send")]
    pr = []
    built = False
    if not dels and sends and sends[0].term[2] and sends[0].term[2][0][0] == "tuple" and len(sends[0].term[2][0][1]) == 3:
        # the other way round: time_resolution is a parameter of its own (so the **parameters cannot contain it)
        # and is put into the parameters that are sent exactly for compliant simulators
        a = fi.node.args
        kw = a.kwarg.arg if a.kwarg is not None else None
        own = "time_resolution" in [x.arg for x in a.args + a.kwonlyargs]
        K = sends[0].term[2][0][1][2]
        try:
            k_yes, k_no = T.strip(boolfn.resolve_phi(K, {comp: True})), T.strip(boolfn.resolve_phi(K, {comp: False}))
        except boolfn.NotBoolean:
            k_yes = k_no = None
        if own and kw is not None and k_yes is not None and k_yes[0] == "dict":
            built = True
            keys = [k for k, _v in k_yes[1]]
            if T.const("time_resolution") not in keys or (("star2",), T.var(kw)) not in k_yes[1]:
                pr.append("a compliant simulator is not sent time_resolution together with its parameters")
            elif dict((k, v) for k, v in k_yes[1] if k != ("star2",))[T.const("time_resolution")] != T.var("time_resolution"):
                pr.append("the time_resolution that is sent is not the one that was given")
            if k_no != T.var(kw):
                pr.append(f"a simulator whose init() cannot take time_resolution is sent {T.show(k_no)[:80]} instead of just its parameters")
    if built:
        pass
    elif not dels:
        pr.append("time_resolution is never removed for simulators whose init() cannot take it")
    else:
        d = dels[0]
        try:
            okd = boolfn.guards_hold_leaves(d.guards, {comp: False}) and not boolfn.guards_hold_leaves(d.guards, {comp: True})
        except boolfn.NotBoolean:
            okd = False
        if not okd:
            pr.append(f"time_resolution is removed under {[T.show(x) for x in guard_terms(d.guards)]} instead of exactly when check_api_compliance fails")
        if sends and sends[0].idx < d.idx:
            pr.append("init is sent before time_resolution is removed")
    if not sends or sends[0].term[2][0][0] not in ("tuple", "bag"):
        pr.append("init request not found")
    rj = [e for e in s.of_kind("raise") if e.term[0] == "call" and e.term[1] == T.glob(SCENERR)]
    if not rj:
        pr.append("a non-compliant simulator claiming v3 is not rejected")
    else:
        gt = T.guard_term(rj[0].guards[-1])
        ver = call(T.glob(EXTRACT), ("await", sends[0].term)) if sends else None
        # by cases over (compliant?, reported version >= [3]?): some rejection fires exactly for (no, yes) -- however the
        # test is split over nested ifs, flags or a helper
        V3 = ("cmp", "<=", ("bag", (("elem", T.const(3), (), ()),), "list"), ver)
        v3_leaf, v3_pol = boolfn.canon_leaf(V3)
        okg = True
        try:
            for cv in (True, False):
                for vv in (True, False):
                    a = {comp: cv, v3_leaf: (vv == v3_pol)}
                    fired = any(boolfn.guards_hold_leaves(r0.guards, a) for r0 in rj)
                    if fired != ((not cv) and vv):
                        okg = False
        except (boolfn.NotBoolean, KeyError):
            okg = False
        if not okg:
            pr.append(f"the rejection test {T.show(gt)[:120]} is not `non-compliant and version >= [3]`")
    c.add("local", LOCAL_INIT, "time_resolution dropped iff non-compliant; non-compliant v3 rejected", VIOLATED if pr else DISCHARGED, "; ".join(pr), fi.loc)


def _adapted_meta(ctx: Ctx, c: Collector) -> None:
    # simmanager.start returns the adapted proxy; SimRunner and ModelFactory read `type` from its meta
    fi = ctx.func("mosaik.simmanager.start")
    s = ctx.summ("mosaik.simmanager.start")
    rets = [r for r in s.returns]
    ok = bool(rets) and T.contains(rets[0].term, T.glob(ADAPT))
    c.check(ok, "meta", "mosaik.simmanager.start", "start() returns the adapted proxy", "the proxy handed to the scenario is not the result of init_and_get_adapter", fi.loc)
    # the configured api_version is *read* from the configuration entry: every start from the same entry (a
    # second instance, a second World built from the same SimConfig) is checked against it
    pr = []
    calls = [e for e in s.of_kind("call") if e.term[1] == T.glob(ADAPT)]
    if not calls:
        pr.append("init_and_get_adapter is not called")
    else:
        ev = unalias(dict(calls[0].term[3]).get("explicit_version_str", calls[0].term[2][3] if len(calls[0].term[2]) > 3 else T.NONE), s, fi)
        binds = {b.term[1]: T.strip(b.term[2]) for b in s.of_kind("bind")}
        ev = binds.get(ev, ev) if ev[0] == "var" else ev
        if ev[0] == "call" and ev[1][0] == "attr" and ev[1][2] in ("pop", "popitem", "setdefault"):
            pr.append(f"the configured api_version is taken out of the configuration entry ({T.show(ev)[:50]}): only the first start from this entry is checked against it, "
                      "later starts accept a simulator that announces another version")
        elif not (T.contains((ev,), T.const("api_version"))):
            pr.append(f"the configured version passed to init_and_get_adapter is {T.show(ev)[:50]}, not the entry's api_version")
    for e in s.events:
        if (e.kind == "call" and e.term[1][0] == "attr" and e.term[1][2] in ("pop", "popitem", "clear", "update", "setdefault") and T.contains((e.term[2],), T.const("api_version"))) \
                or (e.kind in ("store", "del") and T.contains((e.term[1],), T.const("api_version"))):
            pr.append(f"the api_version entry of the configuration is modified ({T.show(e.term)[:50]}, line {e.lineno})")
    c.add("meta", "mosaik.simmanager.start", "the configured api_version is read, not consumed", VIOLATED if pr else DISCHARGED, "; ".join(sorted(set(pr))), fi.loc)
    fi = ctx.func("mosaik.simmanager.SimRunner.__init__")
    s = ctx.summ("mosaik.simmanager.SimRunner.__init__")
    me, conn = T.var(fi.params[0]), T.var(fi.params[2])
    st = [e for e in s.of_kind("store") if e.term[1] == ("attr", me, "type")]
    ok = bool(st) and st[0].term[2] == ("idx", ("attr", conn, "meta"), T.const("type"))
    c.check(ok, "meta", "mosaik.simmanager.SimRunner.__init__", "SimRunner.type from the adapted meta", "SimRunner does not take its type from the (adapted) proxy meta", fi.loc)
    fi = ctx.func("mosaik.scenario.World.start")
    s = ctx.summ("mosaik.scenario.World.start")
    sr = [e for e in s.of_kind("call") if e.term[1] == T.glob("mosaik.simmanager.SimRunner")]
    mf = [e for e in s.of_kind("call") if e.term[1] == T.glob("mosaik.scenario.ModelFactory")]
    ok = bool(sr) and bool(mf) and sr[0].term[2][1] == mf[0].term[2][3] and T.contains(sr[0].term[2][1], T.glob("mosaik.simmanager.start"))
    c.check(ok, "meta", "mosaik.scenario.World.start", "ModelFactory and SimRunner share the adapted proxy", "ModelFactory and SimRunner are not built from the proxy returned by simmanager.start", fi.loc)
    # the installed API's Simulator.step signature (read, not imported)
    try:
        import importlib.util
        spec = importlib.util.find_spec("mosaik_api_v3")
        path = spec.origin if spec else None
        tree = ast.parse(open(path).read()) if path else None
        sig = None
        for n in ast.walk(tree):
            if isinstance(n, ast.ClassDef) and n.name == "Simulator":
                for m in n.body:
                    if isinstance(m, ast.FunctionDef) and m.name == "step":
                        sig = [a.arg for a in m.args.args]
        c.check(sig == ["self", "time", "inputs", "max_advance"], "meta", "mosaik_api_v3.Simulator.step", "current API step(time, inputs, max_advance)",
                f"installed mosaik_api_v3.Simulator.step has parameters {sig}", "")
    except Exception as ex:  # not part of /repo: information only
        c.info["mosaik_api_v3"] = f"not inspected: {ex}"


from ..report import VIOLATED, DISCHARGED  # noqa: E402
from ..terms import call  # noqa: E402
