"""R24 HELPERS — pairing clauses of the bulk connection helpers in mosaik.util."""
from __future__ import annotations

import ast
from typing import List, Optional

from .base import *  # noqa: F401,F403

M2O = "mosaik.util.connect_many_to_one"
EVENLY = "mosaik.util._connect_evenly"
RANDOMLY = "mosaik.util._connect_randomly"
FRONT = "mosaik.util.connect_randomly"
MIN_INSTANCES = 8


def run(ctx: Ctx) -> Collector:
    c = Collector("R24")
    _many_to_one(ctx, c)
    for qn in (EVENLY, RANDOMLY):
        _returned_set(ctx, c, qn)
    _once_per_source(ctx, c)
    _chunking(ctx, c)
    _capacity(ctx, c)
    _front(ctx, c)
    _entity_identity(ctx, c)
    _feasibility(ctx, c)
    _no_state_between_calls(ctx, c)
    return c


def _feasibility(ctx: Ctx, c: Collector) -> None:
    """A request is refused up front exactly when it cannot be met: more sources than len(dest_set) * max_connects
    places.  A request that fits exactly is carried out."""
    fi = ctx.func(RANDOMLY)
    s = ctx.summ(RANDOMLY)
    srcs, dests = T.var(fi.params[1]), T.var(fi.params[2])
    mc = T.var("max_connects")
    n = call(T.glob("len"), srcs)
    caps = (("op", "*", call(T.glob("len"), dests), mc), ("op", "*", mc, call(T.glob("len"), dests)))
    pr = []
    found = 0
    conds = [(T.strip(a.term[1]), True, a) for a in s.of_kind("assert") if not a.iters] + \
            [(T.guard_term(r.guards[-1]), False, r) for r in s.of_kind("raise") if not r.iters and r.guards]
    for cond, holds_on_normal_path, e in conds:
        for x in ([cond] if cond[0] == "cmp" else [y for y in T.subterms((cond,)) if y[0] == "cmp"]):
            if x[1] in ("<", "<=") and ((x[2] == n and x[3] in caps) or (x[3] == n and x[2] in caps)):
                found += 1
                if cond != x:
                    continue
                # normalised to the condition under which the request is accepted
                acc = x if holds_on_normal_path else T.negate(x)
                if acc != ("cmp", "<=", n, caps[0]) and acc != ("cmp", "<=", n, caps[1]):
                    pr.append(f"requests are accepted under {T.show(acc)} (line {e.lineno}) instead of len(src_set) <= len(dest_set) * max_connects: "
                              + ("a request that fits exactly is refused" if acc[1] == "<" and acc[2] == n else "a request that cannot be met is accepted"))
    c.add("feasible", RANDOMLY, "refused iff len(src_set) > len(dest_set) * max_connects", VIOLATED if pr else DISCHARGED,
          "; ".join(pr) if pr else f"{found} capacity precondition(s)", fi.loc)


def _no_state_between_calls(ctx: Ctx, c: Collector) -> None:
    """The helpers keep nothing from one call to the next: a default argument that is a container exists once, so a
    helper that changes it (directly or by handing it to another helper that does) counts the connections of earlier
    calls -- in other worlds, too -- against the limit of this one."""
    import ast as _ast
    from ..flow import _mutations, _MUTATORS
    prog = ctx.prog
    fns = [f for f in prog.all_functions() if f.module.name == "mosaik.util" and not isinstance(f.node, _ast.Lambda)]
    by_name = {f.name: f for f in fns}

    def mutated(f, p, depth=0) -> Optional[str]:
        if _mutations(f.node).get(p, set()) & _MUTATORS:
            return f"{f.name} changes it"
        if depth > 3:
            return None
        for nd in _ast.walk(f.node):
            if isinstance(nd, _ast.Call) and isinstance(nd.func, _ast.Name) and nd.func.id in by_name:
                g = by_name[nd.func.id]
                ga = g.node.args
                pos = [x.arg for x in ga.posonlyargs + ga.args]
                for i, a in enumerate(nd.args):
                    if isinstance(a, _ast.Name) and a.id == p and i < len(pos):
                        r = mutated(g, pos[i], depth + 1)
                        if r:
                            return f"{f.name} hands it to {g.name}: {r}"
                for k in nd.keywords:
                    if isinstance(k.value, _ast.Name) and k.value.id == p and k.arg is not None:
                        r = mutated(g, k.arg, depth + 1)
                        if r:
                            return f"{f.name} hands it to {g.name}: {r}"
        return None

    pr = []
    n = 0
    for f in fns:
        a = f.node.args
        names = [x.arg for x in a.posonlyargs + a.args]
        pairs = list(zip(names[len(names) - len(a.defaults):], a.defaults)) + [(x.arg, d) for x, d in zip(a.kwonlyargs, a.kw_defaults) if d is not None]
        for p, d in pairs:
            if isinstance(d, (_ast.Dict, _ast.List, _ast.Set)) or (isinstance(d, _ast.Call) and isinstance(d.func, _ast.Name) and d.func.id in ("dict", "list", "set", "Counter", "defaultdict")):
                n += 1
                r = mutated(f, p)
                if r:
                    pr.append(f"the default of {f.name}({p}=...) is one container for all calls, and {r}")
    c.add("stateless", "mosaik.util", "no container default is changed", VIOLATED if pr else DISCHARGED, "; ".join(pr) if pr else f"{n} container defaults, none changed", "")


def _connects(s: Summary, world: Term) -> List[Event]:
    return [e for e in s.of_kind("call") if e.term[1] == ("attr", world, "connect")]


def _many_to_one(ctx: Ctx, c: Collector) -> None:
    fi = ctx.func(M2O)
    s = ctx.summ(M2O)
    world, srcs, dest = (T.var(fi.params[i]) for i in range(3))
    cs = _connects(s, world)
    pr = []
    if len(cs) != 1:
        pr.append(f"{len(cs)} connect call sites (exactly one expected)")
    else:
        e = cs[0]
        if e.guards:
            pr.append("the connection is conditional: some sources are not connected")
        if len(e.iters) != 1 or T.strip(e.iters[0][2]) != srcs:
            pr.append("connect is not called once per element of src_set")
        elif e.term[2][:2] != (e.iters[0][1], dest):
            pr.append(f"connects {T.show(e.term[2][:2])} instead of (source, the single destination)")
        if dict(e.term[3]).get("async_requests") != T.var("async_requests"):
            pr.append("the async_requests flag is not passed through")
        if not any(a == ("star", T.var("attrs")) for a in e.term[2]):
            pr.append("the attribute pairs are not passed through")
    c.add("m2o", M2O, "one connect(src, dest) per source", VIOLATED if pr else DISCHARGED, "; ".join(pr), fi.loc)


def _returned_set(ctx: Ctx, c: Collector, qn: str) -> None:
    fi = ctx.func(qn)
    s = ctx.summ(qn)
    world = T.var(fi.params[0])
    cs = _connects(s, world)
    pr: List[str] = []
    if not cs:
        pr.append("no connection is ever made")
    rets = s.returns
    if not rets:
        pr.append("nothing is returned")
    got_all, bad_shape = [], False
    defs = [b for b in s.of_kind("bind") if b.term[2] in (call(T.glob("set")), ("bag", (), "set"), ("bag", (), "list"))]
    d = len(defs[0].guards) if defs else 0
    for r in rets:
        rv = r.term
        if rv[0] == "var":
            # a set that stayed a named object (it is filled through a helper): its elements are the `add`
            # calls on that name, initialised empty
            init = [b for b in s.of_kind("bind") if b.term[1] == rv]
            empty = (call(T.glob("set")), ("bag", (), "set"), ("bag", (), "list"), call(T.glob("list")))
            if len(init) == 1 and T.strip(init[0].term[2]) in empty:
                d0 = len(init[0].guards)
                adds = [e for e in s.of_kind("call") if e.term[1] in (("attr", rv, "add"), ("attr", rv, "append")) and len(e.term[2]) == 1 and e.idx < r.idx]
                other = [e for e in s.of_kind("call") if e.term[1][0] == "attr" and e.term[1][1] == rv and e.term[1][2] not in ("add", "append")]
                if not other:
                    got_all += [(repr(e.term[2][0]), repr(_drop_idempotent(tuple(e.guards[d0:]), e.term[2][0])), repr(tuple(e.iters))) for e in adds]
                    d = d0
                    continue
        # the keys of a counting table: `set(counts)` where every connection does `counts[dest] = ...` / `+= 1`
        tab = None
        if rv[0] == "call" and rv[1] in (T.glob("set"), T.glob("frozenset"), T.glob("list")) and len(rv[2]) == 1 and not rv[3]:
            tab = rv[2][0]
            if tab[0] == "call" and tab[1][0] == "attr" and tab[1][2] == "keys" and not tab[2]:
                tab = tab[1][1]
        if tab is not None and tab[0] == "var":
            init = [b for b in s.of_kind("bind") if b.term[1] == tab]
            empty_tabs = (("dict", ()), call(T.glob("dict")), call(T.glob("collections.Counter")), call(T.glob("collections.defaultdict"), T.glob("int")))
            if len(init) == 1 and T.strip(init[0].term[2]) in empty_tabs:
                d0 = len(init[0].guards)
                puts = [e for e in s.of_kind("store") if e.term[1][0] == "idx" and e.term[1][1] == tab and e.idx < r.idx]
                other = [e for e in s.events if (e.kind == "del" and T.contains((e.term,), tab)) or
                         (e.kind == "call" and e.term[1][0] == "attr" and e.term[1][1] == tab and e.term[1][2] in ("pop", "popitem", "clear", "update", "setdefault", "subtract"))]
                if puts and not other:
                    got_all += [(repr(e.term[1][2]), repr(_drop_idempotent(tuple(e.guards[d0:]), e.term[1][2])), repr(tuple(e.iters))) for e in puts]
                    d = d0
                    continue
        if rv[0] != "bag":
            bad_shape = True
            pr.append(f"the returned value {T.show(rv)[:80]} is not the set that is filled next to the connect calls: "
                      "it need not be the set of destinations that received a connection")
            continue
        # element guards are relative to the accumulator's definition; connect events are absolute
        got_all += [(repr(x[1]), repr(_drop_idempotent(x[2], x[1])), repr(x[3])) for x in rv[1]]
    if rets and not bad_shape:
        # several returns (a fast path and the general path) each hand out the accumulator as filled on
        # their own path: together they must cover exactly the connect sites
        got = sorted(set(got_all))
        want = sorted(set((repr(e.term[2][1]), repr(tuple(e.guards[d:])), repr(tuple(e.iters))) for e in cs))
        if got != want:
            gd = sorted({a for a, _, _ in got})
            wd = sorted({a for a, _, _ in want})
            if gd != wd:
                pr.append("the returned set is filled with something other than the destination passed to connect()")
            elif sorted((a, c2) for a, _, c2 in got) != sorted((a, c2) for a, _, c2 in want):
                pr.append("the returned set is not filled once per connect call (different loop nest)")
            else:
                pr.append("a destination is added to the returned set under a different condition than the one under which it is connected")
    c.add("returned", qn, "returned set == destinations passed to connect", VIOLATED if pr else DISCHARGED, "; ".join(pr), fi.loc)


def _drop_idempotent(guards, dest: Term):
    """`if dest not in connected: connected.add(dest)` is the same as an unconditional add."""
    out = []
    for g in guards:
        gt = T.guard_term(g)
        if gt[0] == "cmp" and gt[1] == "notin" and gt[2] == dest and gt[3][0] in ("bag", "var"):
            continue
        out.append(g)
    return tuple(out)


def _rel(iters, ret: Event):
    return tuple(iters)


def _asserted(s: Summary):
    return {a.term[1] for a in s.of_kind("assert")}


def _precondition_guards(s: Summary):
    """Guards that only exist because an input outside the documented precondition is rejected up front:
    assertions, and the negation of a top-level `if <violated>: raise`."""
    out = set()
    for r in s.of_kind("raise"):
        if r.iters or len(r.guards) != 1:
            continue
        out.add(T.negate(T.guard_term(r.guards[0])))
    return out


def _own_guards(s: Summary, e: Event):
    """Guards of an event that are not top-level assertions / precondition checks of the function."""
    asserted = _asserted(s)
    pre = _precondition_guards(s)
    return [g for g in e.guards if not (g[1] in asserted and g[2]) and T.guard_term(g) not in pre]


def _once_per_source(ctx: Ctx, c: Collector) -> None:
    """Every connect site sits in a loop over src_set and connects the loop's source; under every
    combination of the conditions that select between several sites (a fast path and the general
    path) exactly one of them runs."""
    from . import tables
    from .. import boolfn
    fi = ctx.func(RANDOMLY)
    s = ctx.summ(RANDOMLY)
    world, srcs = T.var(fi.params[0]), T.var(fi.params[1])
    cs = _connects(s, world)
    pr = []
    if not cs:
        pr.append("no connect call site")
    for e in cs:
        if len(e.iters) != 1 or T.strip(e.iters[0][2]) != srcs or e.term[2][0] != e.iters[0][1]:
            pr.append(f"the connect call at line {e.lineno} is not called exactly once for every element of src_set")
    if cs and not pr:
        try:
            for a, fired in tables.rows([(f"site@{e.lineno}", _own_guards(s, e)) for e in cs]):
                if len(fired) == 0:
                    pr.append("the connection of a source is conditional" + (f" (no connect when {tables.describe(a)})" if a else ""))
                elif len(fired) > 1:
                    pr.append(f"a source is connected more than once ({', '.join(fired)} both run when {tables.describe(a) or 'always'})")
        except boolfn.NotBoolean as ex:
            c.unk("once", RANDOMLY, "exactly one connect per source", f"condition not understood: {ex}", fi.loc)
            return
    c.add("once", RANDOMLY, "exactly one connect per source", VIOLATED if pr else DISCHARGED, "; ".join(sorted(set(pr))), fi.loc)


def _chunking(ctx: Ctx, c: Collector) -> None:
    fi = ctx.func(EVENLY)
    s = ctx.summ(EVENLY)
    world, srcs, dests = (T.var(fi.params[i]) for i in range(3))
    cs = _connects(s, world)
    pr: List[str] = []
    unk = None
    if len(cs) != 1:
        pr.append(f"{len(cs)} connect call sites")
    else:
        e = cs[0]
        its = e.iters
        # while pos < len(src): for src, dest in zip(src[pos:], window): ...; pos += len(window)
        if len(its) == 2 and its[0][1] == ("while",):
            cond = T.strip(its[0][2])
            z = T.strip(its[1][2])
            ok = z[0] == "call" and z[1] == T.glob("zip") and len(z[2]) == 2 and z[2][0][0] == "idx" and z[2][0][1] == srcs and z[2][0][2][0] == "slice"
            if not ok:
                unk = "chunking idiom not recognised"
            else:
                pos = z[2][0][2][1]
                window = z[2][1]
                hi = z[2][0][2][2]
                if hi != T.NONE and unalias(hi, s, fi) not in (("op", "+", pos, call(T.glob("len"), window)), ("op", "+", call(T.glob("len"), window), pos)):
                    pr.append(f"the source window is cut at {T.show(hi)[:40]}, not after one round of len(dest_set) sources")
                if cond != ("cmp", "<", pos, call(T.glob("len"), srcs)):
                    pr.append(f"loop condition is {T.show(cond)} instead of pos < len(src_set)")
                if its[1][1][0] != "tuple" or e.term[2][:2] != its[1][1][1]:
                    pr.append("connect is not called with the zipped (source, destination) pair")
                inits = [b for b in s.of_kind("bind") if b.term[1] == pos and not b.iters]
                if not inits or inits[0].term[2] != T.const(0):
                    pr.append("the position does not start at 0: the first sources are never connected")
                steps = [b for b in s.of_kind("bind") if b.term[1] == pos and b.iters == its[:1]]
                stride_ok = bool(steps) and steps[-1].term[2] in (("op", "+", pos, call(T.glob("len"), window)),)
                if not steps:
                    pr.append("the position is never advanced")
                elif not stride_ok:
                    pr.append(f"the position advances by {T.show(steps[-1].term[2])} but one round connects len(dest_set) sources: sources are skipped or connected twice")
                if e.guards != tuple(g for g in e.guards if T.guard_term(g) == cond):
                    pr.append("connections are conditional")
        elif len(its) == 2 and T.strip(its[0][2])[0] == "call" and T.strip(its[0][2])[1] == T.glob("range") and its[0][1][0] == "var":
            # for pos in range(0, len(src), len(window)): for src, dest in zip(src[pos : pos + len(window)], window): ...
            rg = T.strip(its[0][2])
            pos = its[0][1]
            z = T.strip(its[1][2])
            ok = z[0] == "call" and z[1] == T.glob("zip") and len(z[2]) == 2 and z[2][0][0] == "idx" and z[2][0][1] == srcs and z[2][0][2][0] == "slice" and len(rg[2]) == 3 and not rg[3]
            if not ok:
                unk = "chunking idiom not recognised"
            else:
                window = z[2][1]
                lo, hi = z[2][0][2][1], z[2][0][2][2]
                wlen = call(T.glob("len"), window)
                if lo != pos:
                    pr.append(f"the source window starts at {T.show(lo)[:40]}, not at the round's position")
                if hi != T.NONE and unalias(hi, s, fi) not in (("op", "+", pos, wlen), ("op", "+", wlen, pos)):
                    pr.append(f"the source window is cut at {T.show(hi)[:40]}, not after one round of len(dest_set) sources")
                if rg[2][0] != T.const(0):
                    pr.append("the position does not start at 0: the first sources are never connected")
                if rg[2][1] != call(T.glob("len"), srcs):
                    pr.append(f"the rounds stop at {T.show(rg[2][1])[:40]} instead of len(src_set)")
                if unalias(rg[2][2], s, fi) != wlen:
                    pr.append(f"the position advances by {T.show(rg[2][2])} but one round connects len(dest_set) sources: sources are skipped or connected twice")
                if its[1][1][0] != "tuple" or e.term[2][:2] != its[1][1][1]:
                    pr.append("connect is not called with the zipped (source, destination) pair")
                if e.guards:
                    pr.append("connections are conditional")
        else:
            unk = "chunking idiom not recognised"
    if pr:
        c.bad("chunk", EVENLY, "chunk stride == window width", "; ".join(pr), fi.loc)
    elif unk:
        c.unk("chunk", EVENLY, "chunk stride == window width", unk, fi.loc)
    else:
        c.ok("chunk", EVENLY, "chunk stride == window width", "zip(src[pos:], dest_set); pos += len(dest_set); while pos < len(src_set)", fi.loc)


def _capacity(ctx: Ctx, c: Collector) -> None:
    fi = ctx.func(RANDOMLY)
    s = ctx.summ(RANDOMLY)
    world, srcs, dests = (T.var(fi.params[i]) for i in range(3))
    cs = _connects(s, world)
    mc = T.var("max_connects")
    pr: List[str] = []
    if not cs:
        pr.append("no connect call site")
    for e in cs:
        pr += _capacity_site(s, e, srcs, dests, mc, many=len(cs) > 1, fi=fi)
    c.add("capacity", RANDOMLY, "count++ then remove iff count >= max_connects", VIOLATED if pr else DISCHARGED, "; ".join(pr), fi.loc)


def _limit_unreachable(s: Summary, e: Event, srcs: Term, mc: Term) -> bool:
    """The site's own guards bound the number of sources by max_connects (or make it infinite):
    no destination can then exceed the limit, whatever is drawn."""
    n = call(T.glob("len"), srcs)
    for g in _own_guards(s, e):
        gt = T.guard_term(g)
        conj = list(gt[1]) if gt[0] == "and" else [gt]
        for x in conj:
            if x[0] == "cmp" and x[1] in ("<=", "<") and x[2] == n and x[3] == mc:
                return True
            if x[0] == "cmp" and x[1] == "==" and mc in (x[2], x[3]) and any(y[0] == "call" and y[1] == T.glob("float") for y in (x[2], x[3])):
                return True
            if x[0] == "call" and x[1][0] == "glob" and x[1][1].endswith("isinf") and x[2] == (mc,):
                return True
    return False


def _capacity_site(s: Summary, e: Event, srcs: Term, dests: Term, mc: Term, many: bool, fi: Optional[FuncInfo] = None) -> List[str]:
    dest = e.term[2][1]
    pr: List[str] = []
    where = f"connect at line {e.lineno}: " if many else ""
    if _limit_unreachable(s, e, srcs, mc):
        return pr
    counts = [x for x in s.of_kind("store") if x.term[1][0] == "idx" and x.term[1][2] == dest and x.iters == e.iters]
    cnt_tab = counts[0].term[1][1] if counts else None
    if not counts:
        own = [T.show_guard(g)[:60] for g in _own_guards(s, e)]
        pr.append(where + "connections per destination are not counted" + (f" on the path taken when {' and '.join(own)}, which does not bound the number of sources by max_connects: "
                  "a destination can receive more than max_connects connections" if own else ""))
    else:
        okc = any(x.guards == e.guards and x.term[2] == ("op", "+", call(("attr", cnt_tab, "get"), dest, T.const(0)), T.const(1)) for x in counts) \
            or any(x.guards == e.guards and x.term[2][0] == "op" and x.term[2][1] == "+" and x.term[2][3] == T.const(1)
                   and not (x.term[2][2][0] == "call" and x.term[2][2][1][0] == "attr" and x.term[2][2][1][2] == "get" and len(x.term[2][2][2]) == 2 and x.term[2][2][2][1] != T.const(0)) for x in counts)
        if not okc:
            pr.append("the per-destination count is not incremented by one on every connection (unconditionally)")
        rem = [x for x in s.of_kind("call") if x.term[1] == ("attr", dests, "remove") and x.term[2] == (dest,)]
        # other ways to take exactly the chosen element out of the candidates: `del dests[i]` / `dests.pop(i)`
        # with dest == dests[i], or the swap-with-last idiom (`last = dests.pop(); if i < bound: dests[i] = last`)
        udest = unalias(dest, s, fi) if fi is not None else dest
        if not rem and udest[0] == "idx" and udest[1] == dests:
            i = udest[2]
            rem = [x for x in s.events if (x.kind == "del" and x.term[1] == ("idx", dests, i)) or (x.kind == "call" and x.term[1] == ("attr", dests, "pop") and x.term[2] == (i,))]
            if not rem:
                pops = [x for x in s.of_kind("call") if x.term[1] == ("attr", dests, "pop") and not x.term[2]]
                puts = [x for x in s.of_kind("store") if x.term[1] == ("idx", dests, i)]
                if pops and puts and puts[0].idx > pops[0].idx and unalias(puts[0].term[2], s, fi) in (pops[0].term, T.var("$taken1")) or (pops and puts and puts[0].term[2][0] == "var"):
                    rem = [pops[0]]
        if not rem:
            pr.append("a destination that has reached max_connects is never removed from the candidates")
        else:
            r = rem[0]
            own = guard_terms(r.guards[len(e.guards):])
            want = ("cmp", "<=", mc, ("idx", cnt_tab, dest))
            # the freshly stored count may be tested through the table or through the value just stored
            stored = [x.term[2] for x in counts if x.guards == e.guards]
            own = [want if (x[0] == "cmp" and x[1] == "<=" and x[2] == mc and x[3] in stored) else x for x in own]
            if own != [want]:
                if want in own:
                    extra = [x for x in own if x != want]
                    pr.append("the removal of a full destination is additionally conditional on " + " and ".join(T.show(x)[:60] for x in extra)
                              + ": after some connections the capacity test is skipped")
                elif ("cmp", "<", mc, ("idx", cnt_tab, dest)) in own or any(x[0] == "cmp" and x[1] == "<" and x[2] == mc and x[3] in stored for x in own):
                    pr.append("a destination is removed only after it exceeded max_connects (> instead of >=)")
                else:
                    pr.append(f"removal test is {[T.show(x)[:60] for x in own]} instead of count >= max_connects")
            if r.idx < counts[0].idx:
                pr.append("the capacity test precedes the increment")
            # the index bound shrinks together with the candidate list
            dec = [b for b in s.of_kind("bind") if b.guards == r.guards and b.term[2][0] == "op" and b.term[2][1] == "-" and b.term[2][3] == T.const(1)]
            # ... or the bound is read off the candidate list at every draw
            fresh = any(x.kind == "call" and x.iters == e.iters and x.term[1][0] in ("glob", "var", "attr") and len(x.term[2]) == 2
                        and unalias(x.term[2][1], s, fi) == ("op", "-", call(T.glob("len"), dests), T.const(1)) for x in s.of_kind("call"))
            if not dec and not fresh:
                pr.append("the random index bound is not decremented when a destination is removed")
    return pr


def _front(ctx: Ctx, c: Collector) -> None:
    fi = ctx.func(FRONT)
    s = ctx.summ(FRONT)
    pr = []
    rets = s.returns
    ev = [e for e in s.of_kind("call") if e.term[1] == T.glob(EVENLY)]
    rn = [e for e in s.of_kind("call") if e.term[1] == T.glob(RANDOMLY)]
    if not ev or not rn:
        pr.append("one of the two helpers is never called")
    else:
        from .. import boolfn
        flag = T.var("evenly")
        try:
            sel_ok = boolfn.guards_hold_leaves(ev[0].guards[-1:], {flag: True}) and not boolfn.guards_hold_leaves(ev[0].guards[-1:], {flag: False}) \
                and boolfn.guards_hold_leaves(rn[0].guards[-1:], {flag: False}) and not boolfn.guards_hold_leaves(rn[0].guards[-1:], {flag: True})
            rv = folded_return(s)
            ret_ok = rv is not None and boolfn.resolve_phi(rv, {flag: True}) == ev[0].term and boolfn.resolve_phi(rv, {flag: False}) == rn[0].term
        except boolfn.NotBoolean:
            sel_ok = ret_ok = False
        if not sel_ok:
            pr.append("the helper is not selected by the evenly flag")
        # the helpers shuffle the candidates and remove saturated ones: they get a list of their own, always
        dparam = T.var(fi.params[2]) if len(fi.params) > 2 else None
        for h in (ev[0], rn[0]):
            a = h.term[2][2] if len(h.term[2]) > 2 else None
            if a is None or dparam is None:
                continue
            av = unalias(a, s, fi)
            binds = [b for b in s.of_kind("bind") if b.term[1] == dparam]
            fresh = av == call(T.glob("list"), dparam) or (av == dparam and len(binds) == 1 and not binds[0].guards and T.strip(binds[0].term[2]) == call(T.glob("list"), dparam))
            if not fresh:
                pr.append("the candidate list handed to the helpers is not always a fresh list(dest_set): they shuffle it and remove saturated destinations, so the caller's own collection is modified "
                          "(and sources are skipped when the same list is passed as src_set and dest_set)")
                break
        if dict(rn[0].term[3]).get("max_connects") != T.var("max_connects"):
            pr.append("max_connects is not passed to the random helper")
        if not ret_ok:
            pr.append("the helper's result is not returned on both branches")
        # the caller's destination list is copied before it is shuffled / shrunk
        dest_p = T.var(fi.params[2])
        if ev[0].term[2][2] == dest_p or rn[0].term[2][2] == dest_p:
            pr.append("the caller's destination list is handed to the helpers without a copy (they shuffle / shrink it)")
    c.add("front", FRONT, "helper selected by `evenly`, result returned", VIOLATED if pr else DISCHARGED, "; ".join(pr), fi.loc)


from ..report import VIOLATED, DISCHARGED  # noqa: E402
from ..terms import call  # noqa: E402


# --------------------------------------------------------------------------- entity identity
ENTITY = "mosaik.scenario.Entity"


def _entity_identity(ctx: Ctx, c: Collector) -> None:
    """The helpers keep destinations in a set, count them in a dict and `remove` them from a
    list: all three identify entities by ==/hash.  Distinct entities must therefore never compare
    equal: Entity compares by identity, or by a key containing its unique id (the fields
    `full_id` is built from)."""
    from .sites import function_sites, typer_of
    from ..types import is_cls
    prog = ctx.prog
    typer = typer_of(prog)
    uses = []
    for qn in (EVENLY, RANDOMLY):
        fi = ctx.func(qn)
        for e, sub, env in function_sites(prog, fi):
            if sub[0] == "call" and sub[1][0] == "attr" and sub[1][2] in ("add", "remove", "get", "discard", "index", "count", "setdefault", "pop") and sub[2]:
                if is_cls(typer._type_of(sub[2][0], env), ENTITY):
                    uses.append((fi, e, T.show(sub)))
            elif sub[0] == "idx":
                bt = typer.unopt(typer._type_of(sub[1], env))
                if bt[0] == "dict" and is_cls(bt[1], ENTITY):
                    uses.append((fi, e, T.show(sub)))
            elif sub[0] == "cmp" and sub[1] in ("in", "notin", "==", "!="):
                if is_cls(typer._type_of(sub[2], env), ENTITY):
                    uses.append((fi, e, T.show(sub)))
    c.info["entity_equality_uses"] = len(uses)
    # (when the loops of the helpers were re-arranged -- pairs produced by a generator, a shared connect loop -- the uses may not be
    #  typed any more; the obligation is on the class either way: the helpers keep destinations in a set, count them in a dict and
    #  remove them from a list, whatever the spelling)
    ci = prog.cls(ENTITY)
    fid = prog.find_method(ENTITY, "full_id")
    unique = set()
    if fid is not None:
        rv = folded_return(summarise(prog, fid))
        unique = T.fields_of((rv,), T.var(fid.params[0])) if rv is not None else set()
    if not unique:
        raise AnalysisError("R24: Entity.full_id (the unique id of an entity) not found")
    decs = [ast.unparse(d).replace(" ", "") for d in ci.decorators]
    eq = prog.find_method(ENTITY, "__eq__")
    hs = prog.find_method(ENTITY, "__hash__")
    label = "distinct entities are distinct set members / dict keys"
    pr: List[str] = []
    how = "Entity compares and hashes by identity"
    dc = [d for d in decs if d.split("(")[0].split(".")[-1] == "dataclass"]
    if eq is None and dc and "eq=False" not in dc[0]:
        if not ("frozen=True" in dc[0] or "unsafe_hash=True" in dc[0]) and hs is None:
            pr.append(f"@{dc[0]} generates __eq__ and sets __hash__ to None: entities cannot be put into the helpers' set / dict")
        how = "field-wise dataclass equality includes the unique id"
    elif eq is not None:
        s = summarise(prog, eq)
        me = T.var(eq.params[0])
        rv = folded_return(s)
        key = T.fields_of((rv,), me) if rv is not None else set()
        ident = rv is not None and any(x[0] == "cmp" and x[1] in ("is", "isnot") and me in (x[2], x[3]) for x in T.subterms((rv,)))
        if ident and not key:
            how = "__eq__ is identity"
        elif not (unique <= key or "full_id" in key):
            pr.append(f"Entity.__eq__ compares {sorted(key) or 'nothing of self'}, which does not contain the unique id {sorted(unique)}: "
                      "distinct entities (same eid in two simulator instances) compare equal, so the returned set, the per-destination counters and dest_set.remove() confuse them")
        else:
            how = f"__eq__ compares a key containing the unique id {sorted(unique)}"
        if hs is None:
            own_hash = any(isinstance(n, ast.Assign) and any(isinstance(t, ast.Name) and t.id == "__hash__" for t in n.targets) for n in ci.node.body)
            if not own_hash:
                pr.append("Entity defines __eq__ without __hash__: instances are unhashable, the helpers' set / dict raise TypeError")
        elif hs is not None:
            hv = folded_return(summarise(prog, hs))
            hkey = T.fields_of((hv,), T.var(hs.params[0])) if hv is not None else set()
            if key and hkey and not hkey <= key and "full_id" not in key:
                pr.append(f"__hash__ uses {sorted(hkey - key)} which __eq__ ignores: equal entities can hash differently")
    c.add("identity", ENTITY, label, VIOLATED if pr else DISCHARGED, "; ".join(pr) if pr else f"{how}; {len(uses)} equality-based uses in the helpers", f"{ci.module.relpath}:{ci.node.lineno}" if hasattr(ci.module, "relpath") else "")
