"""R8 SHAPE — tier-length typing of time values ("units of measure").

Shapes of TieredTime-typed terms:
    ("sim", X)    as many tiers as simulator X's group depth (X is a term)
    ("k", n)      exactly n tiers (a construction from n scalar arguments)
    ("like", t)   as many tiers as term t
    None          unknown
Intervals I[pre -> post] are described by a pair of such shapes.  The rule enumerates, by type,
every site where two time values must have the same number of tiers (comparison, min/max, heap
push, scheduling, progress set / wait, stores into time fields, time + interval) and reports a
*definite* mismatch: a fixed-length value meets a simulator-depth value (R8a, the lift rule), or
an interval is applied to a time of another shape / another simulator (R8b, table shapes).
Unknown shapes are counted, never reported.
"""
from __future__ import annotations

from typing import Any, Dict, List, Optional, Sequence, Tuple

from .base import *  # noqa: F401,F403
from .sites import function_sites, typer_of
from ..types import is_cls, Typer
from .. import boolfn

TTIME = "mosaik.tiered_time.TieredTime"
TINT = "mosaik.tiered_time.TieredInterval"
RUNNER = "mosaik.simmanager.SimRunner"
TIME_FIELDS = ("current_step", "last_step", "output_time", "next_self_step")
MIN_INSTANCES = 3

Shape = Optional[Tuple[Any, ...]]


class Shaper:
    def __init__(self, ctx: Ctx):
        self.ctx = ctx
        self.typer = typer_of(ctx.prog)

    def is_time(self, t: Term, env) -> bool:
        return is_cls(self.typer._type_of(t, env), TTIME)

    def is_interval(self, t: Term, env) -> bool:
        return is_cls(self.typer._type_of(t, env), TINT)

    def is_runner(self, t: Term, env) -> bool:
        return is_cls(self.typer._type_of(t, env), RUNNER)

    # -------------------------------------------------------------- times
    def time_shape(self, t: Term, env, fi: FuncInfo) -> Shape:
        t = T.strip(t)
        k = t[0]
        if k == "call" and t[1] == T.glob(TTIME):
            args = t[2]
            if not any(a[0] == "star" for a in args):
                return ("k", len(args))
            # TieredTime(x, *([0] * (len(Y) - 1)))  /  TieredTime(*([0] * depth)) / TieredTime(-1, *([0] * (depth - 1)))
            fixed = [a for a in args if a[0] != "star"]
            stars = [a for a in args if a[0] == "star"]
            if len(stars) == 1:
                rep = stars[0][1]
                n = None
                if rep[0] == "op" and rep[1] == "*":
                    n = rep[3] if rep[2][0] == "bag" else rep[2]
                if n is not None:
                    n = T.strip(n)
                    base, off = n, 0
                    if n[0] == "op" and n[1] in ("-", "+") and n[3][0] == "const":
                        base, off = n[2], (n[3][1] if n[1] == "+" else -n[3][1])
                    if off + len(fixed) == 0:
                        if base[0] == "call" and base[1] == T.glob("len") and base[2]:
                            inner = base[2][0]
                            if inner[0] == "attr" and inner[2] == "tiers":
                                inner = inner[1]
                            return self.time_shape(inner, env, fi) or ("like", inner)
                        if base == T.var("depth") and fi.qualname.endswith("SimRunner.__init__"):
                            return ("sim", T.var(fi.params[0]))
                # TieredTime(x, *Y.tiers[1:])
                if rep[0] == "idx" and rep[1][0] == "attr" and rep[1][2] == "tiers" and rep[2] == ("slice", T.const(len(fixed)), T.NONE, T.NONE):
                    return self.time_shape(rep[1][1], env, fi)
            return None
        if k == "attr":
            base = t[1]
            if t[2] in TIME_FIELDS and self.is_runner(base, env):
                return ("sim", base)
            if t[2] == "time" and base[0] == "attr" and base[2] == "progress" and self.is_runner(base[1], env):
                return ("sim", base[1])
        if k == "idx" and t[1][0] == "attr" and t[1][2] == "next_steps" and self.is_runner(t[1][1], env):
            return ("sim", t[1][1])
        if k == "call" and t[1] == T.glob("heapq.heappop") and t[2] and t[2][0][0] == "attr" and t[2][0][2] == "next_steps":
            return ("sim", t[2][0][1])
        if k == "op" and t[1] == "+" and self.is_time(t[2], env):
            ish = self.interval_shape(t[3], env, fi)
            if ish is not None:
                return ish[1]
            return None
        if k in ("ifexp", "phi"):
            a, b = self.time_shape(t[2], env, fi), self.time_shape(t[3], env, fi)
            if a is not None and b is not None and a != b:
                return ("mixed", a, b)
            return a if a == b else (a or b)
        if k == "agg" and t[1] in ("min", "max"):
            for e in t[2][1]:
                sh = self.time_shape(e[1], self._elem_env(e, env), fi)
                if sh is not None and sh[0] == "sim":
                    return sh
            return None
        if k == "inl":
            return self.time_shape(t[2], env, fi)
        if k == "call" and t[1][0] == "glob" and t[1][1] in self.ctx.prog.functions:
            # pure helper returning one of a simulator's time fields
            f2 = self.ctx.prog.functions[t[1][1]]
            if len(f2.params) == len(t[2]) and not f2.is_async:
                s2 = summarise(self.ctx.prog, f2)
                shapes = set()
                for r in s2.returns:
                    if r.term == T.NONE:
                        continue
                    env2 = self.typer.event_env(f2, r)
                    sh = self.time_shape(r.term, env2, f2)
                    if sh is None:
                        return None
                    if sh[0] == "sim":
                        sh = ("sim", T.replace(sh[1], {T.var(p): a for p, a in zip(f2.params, t[2])}))
                    shapes.add(sh)
                if len(shapes) == 1:
                    return shapes.pop()
        if k == "var":
            return None
        return None

    def _elem_env(self, e: Term, env):
        env2 = dict(env)
        for it in e[3]:
            self.typer.bind_iter(it, env2)
        return env2

    # -------------------------------------------------------------- intervals: (pre, post)
    def interval_shape(self, t: Term, env, fi: FuncInfo) -> Optional[Tuple[Shape, Shape]]:
        t = T.strip(t)
        if t[0] == "attr" and self.is_runner(t[1], env):
            if t[2] == "from_world_time":
                return (("k", 1), ("sim", t[1]))
            if t[2] == "to_world_time":
                return (("sim", t[1]), ("k", 1))
        if t[0] == "call" and t[1] == T.glob(TINT):
            args = t[2]
            if not any(a[0] == "star" for a in args):
                kw = dict(t[3])
                pre = kw.get("pre_length", kw.get("cutoff"))
                n_pre = pre[1] if pre is not None and pre[0] == "const" else (len(args) if pre is None else None)
                return ((("k", n_pre) if n_pre is not None else None), ("k", len(args)))
            return None
        # table entries
        ref = self._table_entry(t, env)
        if ref is not None:
            return ref
        return None

    def _table_entry(self, t: Term, env) -> Optional[Tuple[Shape, Shape]]:
        owner = key = name = None
        if t[0] == "idx" and t[1][0] == "attr":
            owner, name, key = t[1][1], t[1][2], t[2]
        elif t[0] == "call" and t[1][0] == "attr" and t[1][2] == "get" and t[1][1][0] == "attr" and t[2]:
            owner, name, key = t[1][1][1], t[1][1][2], t[2][0]
        if name in ("input_delays", "triggering_ancestors") and self.is_runner(owner, env):
            return (("sim", key), ("sim", owner))
        if name in ("successors", "successors_to_wait_for") and self.is_runner(owner, env):
            return (("sim", owner), ("sim", key))
        return None

    def bound_interval(self, v: Term, iters, env) -> Optional[Tuple[Shape, Shape]]:
        """Shape of an interval-typed loop variable from the table it iterates."""
        for it in iters:
            dec = items_iter(it)
            if dec is None:
                continue
            table, kvar, vvar, form = dec
            if vvar == v and table[0] == "attr" and self.is_runner(table[1], env):
                if table[2] in ("input_delays", "triggering_ancestors"):
                    return (("sim", kvar), ("sim", table[1]))
                if table[2] in ("successors", "successors_to_wait_for"):
                    return (("sim", table[1]), ("sim", kvar))
            # triggers / port_triggers: list of (dest, delay) owned by a simulator
            tgt = it[1]
            src = T.strip(it[2])
            if tgt[0] == "tuple" and len(tgt[1]) == 2 and tgt[1][1] == v:
                owner = self._trigger_owner(src, iters, env)
                if owner is not None:
                    return (("sim", owner), ("sim", tgt[1][0]))
        return None

    def _trigger_owner(self, src: Term, iters, env) -> Optional[Term]:
        # src is `triggered` bound by `for port, triggered in X.triggers.items()` or X.triggers.values()
        for it in iters:
            dec = items_iter(it)
            if dec is None:
                continue
            table, kvar, vvar, form = dec
            if vvar == src and table[0] == "attr" and table[2] == "triggers" and self.is_runner(table[1], env):
                return table[1]
        return None


def _mismatch(a: Shape, b: Shape, related=None) -> Optional[str]:
    if a is None or b is None:
        return None
    for x, y in ((a, b), (b, a)):
        if x[0] == "mixed":
            return _mismatch(x[1], y, related) or _mismatch(x[2], y, related)
    if a[0] == "sim" and b[0] == "sim" and a[1] != b[1] and related is not None and related(a[1], b[1]):
        return (f"a time of simulator {T.show(b[1])}'s depth is used where {T.show(a[1])}'s depth is required: the interval of the connection between them "
                "(group boundary, shift, weak tier) has not been applied")
    if a[0] == "k" and b[0] == "k":
        return None if a[1] == b[1] else f"{a[1]} tier(s) vs {b[1]} tier(s)"
    if {a[0], b[0]} == {"k", "sim"}:
        kk = a if a[0] == "k" else b
        ss = a if a[0] == "sim" else b
        return f"a time with exactly {kk[1]} tier(s) meets a time of simulator {T.show(ss[1])}'s depth (it must be lifted with `+ {T.show(ss[1])}.from_world_time`): AssertionError for a simulator inside a group"
    return None


def run(ctx: Ctx) -> Collector:
    c = Collector("R8")
    sh = Shaper(ctx)
    typer = sh.typer
    n_sites = n_known = n_constr = 0
    for fi in analysis_units(ctx.prog):
        if fi.module.name in ("mosaik.tiered_time", "mosaik.util"):
            continue
        s = summarise(ctx.prog, fi)
        seen = set()
        for e, sub, env in function_sites(ctx.prog, fi):
            pairs: List[Tuple[Shape, Shape, str]] = []
            k = sub[0]
            if k == "call" and sub[1] == T.glob(TTIME) and not any(a[0] == "star" for a in sub[2]):
                n_constr += 1
            if k == "cmp" and sub[1] in ("<", "<=", "==", "!=") and sh.is_time(sub[2], env) and sh.is_time(sub[3], env):
                pairs.append((sh.time_shape(sub[2], env, fi), sh.time_shape(sub[3], env, fi), f"comparison {T.show(sub)[:90]}"))
            elif k == "agg" and sub[1] in ("min", "max"):
                shapes = []
                for el in sub[2][1]:
                    env2 = sh._elem_env(el, env)
                    term = el[1][1] if el[1][0] == "star" else el[1]
                    if el[1][0] != "star" and sh.is_time(term, env2):
                        shapes.append((sh.time_shape(term, env2, fi), term))
                ref = [x for x in shapes if x[0] is not None and x[0][0] == "sim"]
                if ref:
                    for x in shapes:
                        pairs.append((ref[0][0], x[0], f"{sub[1]}() term {T.show(x[1])[:90]}"))
            elif k == "call" and sub[1] == T.glob("heapq.heappush") and len(sub[2]) == 2 and sub[2][0][0] == "attr" and sub[2][0][2] == "next_steps":
                pairs.append((("sim", sub[2][0][1]), sh.time_shape(sub[2][1], env, fi), f"heappush {T.show(sub[2][1])[:80]}"))
            elif k == "call" and sub[1][0] == "attr" and sub[1][2] == "schedule_step" and sub[2] and sh.is_runner(sub[1][1], env):
                pairs.append((("sim", sub[1][1]), sh.time_shape(sub[2][0], env, fi), f"schedule_step({T.show(sub[2][0])[:80]})"))
            elif k == "call" and sub[1][0] == "attr" and sub[1][2] in ("set", "has_reached", "has_passed") and sub[1][1][0] == "attr" and sub[1][1][2] == "progress" and sub[2] and sh.is_runner(sub[1][1][1], env):
                owner = sub[1][1][1]
                tgt = sh.time_shape(sub[2][0], env, fi)
                shift = kwarg(sub, "shift", 1) if sub[1][2] != "set" else None
                if shift is None or shift == T.NONE:
                    pairs.append((("sim", owner), tgt, f"progress.{sub[1][2]}({T.show(sub[2][0])[:70]})"))
                else:
                    ish = sh.interval_shape(shift, env, fi) or sh.bound_interval(shift, e.iters, env)
                    if ish is not None:
                        if ish[0] is not None and ish[0] != ("sim", owner) and ish[0][0] == "sim":
                            c.bad("apply", fi.qualname, f"progress.{sub[1][2]} shift", f"the shift {T.show(shift)} maps from simulator {T.show(ish[0][1])} but is applied to {T.show(owner)}'s progress", ctx.loc(fi, e))
                        pairs.append((ish[1], tgt, f"progress.{sub[1][2]}: shifted progress vs target {T.show(sub[2][0])[:60]}"))
            elif k == "op" and sub[1] == "+" and sh.is_time(sub[2], env) and sh.is_interval(sub[3], env):
                ish = sh.interval_shape(sub[3], env, fi) or sh.bound_interval(sub[3], e.iters, env)
                if ish is not None:
                    pairs.append((sh.time_shape(sub[2], env, fi), ish[0], f"time + interval {T.show(sub)[:90]}"))
            if e.kind == "store" and sub is e.term:
                tgt, val = e.term[1], e.term[2]
                tsh = None
                if tgt[0] == "attr" and tgt[2] in TIME_FIELDS and sh.is_runner(tgt[1], env):
                    tsh = ("sim", tgt[1])
                elif tgt[0] == "attr" and tgt[2] == "next_steps" and sh.is_runner(tgt[1], env) and val[0] == "bag":
                    for el in val[1]:
                        pairs.append((("sim", tgt[1]), sh.time_shape(el[1], env, fi), f"next_steps := [{T.show(el[1])[:70]}]"))
                if tsh is not None and val != T.NONE:
                    pairs.append((tsh, sh.time_shape(val, env, fi), f"{T.show(tgt)} := {T.show(val)[:70]}"))
            def related(x, y, _e=e, _env=env):
                # one of the two simulators is an iteration variable over a connection table of the other
                for it in _e.iters:
                    dec = items_iter(it)
                    if dec is not None and dec[0][0] == "attr" and dec[0][1] in (x, y) and dec[1] in (x, y) and dec[0][1] != dec[1]:
                        return True
                    tgt = it[1]
                    if tgt[0] == "tuple" and len(tgt[1]) == 2 and tgt[1][0] in (x, y):
                        owner = sh._trigger_owner(T.strip(it[2]), _e.iters, _env)
                        if owner is not None and owner in (x, y) and owner != tgt[1][0]:
                            return True
                return False
            for a, b, what in pairs:
                key = (fi.qualname, what)
                if key in seen:
                    continue
                seen.add(key)
                n_sites += 1
                if a is not None and b is not None:
                    n_known += 1
                mm = _mismatch(a, b, related)
                if mm:
                    c.bad("lift", fi.qualname, what, mm, ctx.loc(fi, e))
    c.ok("lift", "mosaik.*", "tier-length agreement sites", f"{n_sites} sites, both shapes known at {n_known}, {n_constr} fixed-length TieredTime constructions", "")
    c.info.update({"shape_sites": n_sites, "shape_sites_both_known": n_known, "fixed_length_constructions": n_constr})
    if n_constr < 5 or n_known < 10:
        raise AnalysisError(f"R8 typed only {n_known} sites / {n_constr} constructions: the shape typing went vacuous")
    # field declarations of SimRunner.__init__
    fi = ctx.func("mosaik.simmanager.SimRunner.__init__")
    s = ctx.summ("mosaik.simmanager.SimRunner.__init__")
    me = T.var(fi.params[0])
    depth = T.var("depth")
    want = {
        "to_world_time": call(T.glob(TINT), T.const(0), cutoff=T.const(1), pre_length=depth),
    }
    pr = []
    st = {e.term[1][2]: e.term[2] for e in s.of_kind("store") if e.term[1][0] == "attr" and e.term[1][1] == me}
    fw = st.get("from_world_time")
    okf = fw is not None and fw[0] == "call" and fw[1] == T.glob(TINT) and dict(fw[3]).get("pre_length") == T.const(1) and dict(fw[3]).get("cutoff") == T.const(1) \
        and len(fw[2]) == 1 and fw[2][0][0] == "star" and T.contains(fw[2][0], depth)
    if not okf:
        pr.append("from_world_time is not TieredInterval(*([0] * depth), cutoff=1, pre_length=1)")
    if st.get("to_world_time") != want["to_world_time"]:
        pr.append("to_world_time is not TieredInterval(0, cutoff=1, pre_length=depth)")
    c.add("fields", "mosaik.simmanager.SimRunner.__init__", "from_world_time: I[1->depth], to_world_time: I[depth->1]", VIOLATED if pr else DISCHARGED, "; ".join(pr), fi.loc)
    # depth of the runner and group of the factory come from the same current_group
    wfi = ctx.func("mosaik.scenario.World.start")
    ws = ctx.summ("mosaik.scenario.World.start")
    wme = T.var(wfi.params[0])
    cg = ("attr", wme, "current_group")
    sr = [e for e in ws.of_kind("call") if e.term[1] == T.glob(RUNNER)]
    mf = [e for e in ws.of_kind("call") if e.term[1] == T.glob("mosaik.scenario.ModelFactory")]
    okd = bool(sr) and bool(mf) and dict(sr[0].term[3]).get("depth") == ("attr", cg, "depth") and mf[0].term[2][1] == cg \
        and not any(x.kind == "store" and x.term[1] == cg for x in ws.events)
    c.check(okd, "fields", "mosaik.scenario.World.start", "runner depth and factory group from the same current_group", "SimRunner depth and ModelFactory group do not come from the same current_group", wfi.loc)
    _init_state(ctx, c)
    return c


def _lin(t: Term, depth: Term):
    """A length that is linear in the depth parameter: (coefficient, constant), or None."""
    t = T.strip(t)
    if t == depth:
        return (1, 0)
    if t[0] == "const" and isinstance(t[1], int) and not isinstance(t[1], bool):
        return (0, t[1])
    if t[0] == "op" and t[1] in ("+", "-") and len(t) == 4:
        a, b = _lin(t[2], depth), _lin(t[3], depth)
        if a is None or b is None:
            return None
        return (a[0] + b[0], a[1] + b[1]) if t[1] == "+" else (a[0] - b[0], a[1] - b[1])
    if t[0] == "call" and t[1] == T.glob("len") and len(t[2]) == 1:
        sh = tiers_shape((t[2][0],), depth)
        if sh is not None:
            return (sh[1][0], sh[1][1] + len(sh[0]))
    return None


def _zeros(t: Term, depth: Term):
    """`[0] * n`, `(0,) * n`, `n * [0]`, `[0 for _ in range(n)]`: n zeros, n linear in depth."""
    t = T.strip(t)
    if t[0] == "idx" and T.strip(t[2])[0] == "slice":
        # zeros[a:] of n zeros: n - a zeros
        sl = T.strip(t[2])
        z = _zeros(t[1], depth)
        if z is not None and sl[1][0] == "const" and isinstance(sl[1][1], int) and sl[1][1] >= 0 and sl[2] == T.NONE and sl[3] == T.NONE:
            return (z[0], z[1] - sl[1][1])
        return None
    if t[0] == "op" and t[1] == "*" and len(t) == 4:
        for seq, n in ((t[2], t[3]), (t[3], t[2])):
            seq = T.strip(seq)
            one = (seq[0] == "bag" and len(seq[1]) == 1 and seq[1][0][1] == T.const(0) and not seq[1][0][2] and not seq[1][0][3]) or \
                  (seq[0] == "tuple" and len(seq[1]) == 1 and seq[1][0] == T.const(0))
            if one:
                return _lin(n, depth)
    if t[0] == "bag" and len(t[1]) == 1 and t[1][0][1] == T.const(0) and not t[1][0][2] and len(t[1][0][3]) == 1:
        src = T.strip(t[1][0][3][0][2])
        if src[0] == "call" and src[1] == T.glob("range") and len(src[2]) == 1:
            return _lin(src[2][0], depth)
    return None


def tiers_shape(args: Sequence[Term], depth: Term):
    """The positional arguments of a TieredTime / TieredInterval construction as (leading constants, number of zeros
    that follow as (coefficient of depth, constant)), or None."""
    lead: List[Any] = []
    zeros = (0, 0)
    for a in args:
        a0 = T.strip(a)
        if a0[0] == "star":
            z = _zeros(a0[1], depth)
            if z is None:
                return None
            zeros = (zeros[0] + z[0], zeros[1] + z[1])
        elif a0[0] == "const" and isinstance(a0[1], int):
            if zeros != (0, 0):
                if a0[1] != 0:
                    return None
                zeros = (zeros[0], zeros[1] + 1)
            else:
                lead.append(a0[1])
        else:
            return None
    # leading zeros count as zeros when nothing else leads
    while lead and lead[-1] == 0 and all(x == 0 for x in lead):
        lead.pop()
        zeros = (zeros[0], zeros[1] + 1)
    return tuple(lead), zeros


def _init_state(ctx: Ctx, c: Collector) -> None:
    """The state a simulator starts from (SimRunner.__init__): progress 0 in every tier, no step performed yet (last step at
    time -1), no step in flight, a first step at time 0 (sub-step 0) demanded iff the simulator is not event-based."""
    qn = "mosaik.simmanager.SimRunner.__init__"
    fi = ctx.func(qn)
    s = ctx.summ(qn)
    me = T.var(fi.params[0])
    depth = T.var("depth")
    TT = T.glob("mosaik.tiered_time.TieredTime")

    def time_of(t: Term):
        t = T.strip(t)
        if t[0] == "call" and t[1] == TT and not t[3]:
            return tiers_shape(t[2], depth)
        return None
    ZERO_D = ((), (1, 0))
    stores: Dict[str, List[Event]] = {}
    for e in s.of_kind("store"):
        if e.term[1][0] == "attr" and e.term[1][1] == me:
            stores.setdefault(e.term[1][2], []).append(e)
    pr = []
    # progress
    pg = stores.get("progress", [])
    okp = len(pg) == 1 and not pg[0].guards and pg[0].term[2][0] == "call" and pg[0].term[2][1] == T.glob("mosaik.progress.Progress") \
        and len(pg[0].term[2][2]) == 1 and time_of(pg[0].term[2][2][0]) == ZERO_D
    if not okp:
        pr.append("the progress does not start at time 0 in every tier of the simulator's depth")
    ls = stores.get("last_step", [])
    if not (len(ls) == 1 and not ls[0].guards and time_of(ls[0].term[2]) == ((-1,), (1, -1))):
        pr.append("last_step does not start as (-1, 0, ..., 0) of the simulator's depth (the time before the first step: the cache is pruned and output times are validated against it)")
    cs = stores.get("current_step", [])
    if not (len(cs) == 1 and not cs[0].guards and cs[0].term[2] == T.NONE):
        pr.append("current_step does not start as None (no step in flight)")
    # the first demanded step
    class _Case:            # a store, or one branch of a stored conditional expression
        def __init__(self, guards, value):
            self.guards, self.term = tuple(guards), ("store", None, value)
    ns0 = stores.get("next_steps", [])
    ns = []
    for e in ns0:
        v = T.strip(e.term[2])
        if v[0] in ("ifexp", "phi") and len(v) == 4:
            ns.append(_Case(tuple(e.guards) + (("g", v[1], True),), v[2]))
            ns.append(_Case(tuple(e.guards) + (("g", v[1], False),), v[3]))
        else:
            ns.append(_Case(e.guards, e.term[2]))
    typ_leaves: Dict[Term, str] = {}
    for e in ns:
        elem_guards = [g for el in elems_of(T.strip(e.term[2])) for g in el[2]]       # `[x] if c else []` is the list of x under c
        for g in list(e.guards) + elem_guards:
            for x in T.subterms((T.guard_term(g),)):
                if x[0] == "cmp" and x[1] in ("==", "!=") and any(y[0] == "const" and isinstance(y[1], str) for y in (x[2], x[3])):
                    typ_leaves[boolfn.canon_leaf(x)[0]] = [y for y in (x[2], x[3]) if y[0] == "const"][0][1]
    if not ns:
        pr.append("next_steps is not initialised")
    elif not typ_leaves and len(ns) == 1 and not ns[0].guards:
        v = T.strip(ns[0].term[2])
        pr.append("every simulator type starts with the same schedule: " + ("event-based simulators get a step at time 0 that nobody demanded" if elems_of(v) else "time-based and hybrid simulators never perform their first step"))
    elif not typ_leaves:
        c.unk("fields", qn, "initial state", "the condition of the initial schedule is not a test of the simulator type", fi.loc)
        return
    else:
        try:
            for ty in ("time-based", "event-based", "hybrid"):
                is_ev = ty == "event-based"
                live = [e for e in ns if boolfn.guards_hold_leaves(e.guards, {l: (k == ty) for l, k in typ_leaves.items()})]
                if not live:
                    pr.append(f"{ty} simulators get no initial schedule")
                    continue
                v = T.strip(live[-1].term[2])
                asg = {l: (k == ty) for l, k in typ_leaves.items()}
                els = tuple(("elem", x[1], (), x[3]) for x in elems_of(v) if boolfn.guards_hold_leaves(x[2], asg))
                if v[0] != "bag" or any(x[2] or x[3] for x in els):
                    pr.append(f"the initial schedule {T.show(v)[:60]} is not a plain list")
                elif is_ev and els:
                    pr.append("an event-based simulator starts with a scheduled step that nobody demanded")
                elif not is_ev and not (len(els) == 1 and time_of(els[0][1]) == ZERO_D):
                    pr.append(f"a {ty} simulator does not start with exactly one demanded step at time 0, sub-step 0, of its depth")
        except boolfn.NotBoolean as ex:
            c.unk("fields", qn, "initial state", f"condition not understood: {ex}", fi.loc)
            return
    c.add("fields", qn, "initial state: progress 0, last step -1, nothing in flight, first step at 0 iff not event-based", VIOLATED if pr else DISCHARGED, "; ".join(pr), fi.loc)


from ..report import VIOLATED, DISCHARGED  # noqa: E402
from ..terms import call  # noqa: E402
