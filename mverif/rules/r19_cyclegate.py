"""R19 CYCLEGATE — the cycle check is wired (dominates the scheduler), complete in shape
(seeding over all connection kinds, closure, zero test over all tiers, error payload), and
connect_interval places shift / weak in the right tiers."""
from __future__ import annotations

from typing import List, Optional

from .base import *  # noqa: F401,F403
from .. import boolfn
from .r11_reply import is_simulation_error

RUN = "mosaik.scenario.World.run"
CYC = "mosaik.scenario.World.ensure_no_dataflow_cycles"
ANC = "mosaik.scenario.World.cache_triggering_ancestors"
INTERVAL = "mosaik.scenario.connect_interval"
GROUP_PATH = "mosaik.scenario.group_path"
SCENERR = "mosaik.exceptions.ScenarioError"
UPDATE_MIN = "mosaik.scenario.update_min"
MIN_INSTANCES = 10


def run(ctx: Ctx) -> Collector:
    c = Collector("R19")
    _gate(ctx, c)
    _writers(ctx, c)
    _cycle_check(ctx, c)
    _ancestors(ctx, c)
    _interval(ctx, c)
    _group_scope(ctx, c)
    _depth(ctx, c)
    return c


def _depth_iterative(fn) -> Optional[tuple]:
    """`d = k; g = self; while g.parent [is not None]: g = g.parent; d += i; return d` -> (k, i)"""
    import ast
    body = [st for st in fn.body if not (isinstance(st, ast.Expr) and isinstance(st.value, ast.Constant))]
    if len(body) < 3 or not isinstance(body[-1], ast.Return) or not isinstance(body[-1].value, ast.Name) or not isinstance(body[-2], ast.While):
        return None
    cnt = body[-1].value.id
    wl = body[-2]
    me = fn.args.args[0].arg
    inits = {}
    for st in body[:-2]:
        tg = st.targets[0] if isinstance(st, ast.Assign) and len(st.targets) == 1 else (st.target if isinstance(st, ast.AnnAssign) and st.value is not None else None)
        if not isinstance(tg, ast.Name):
            return None
        inits[tg.id] = st.value
    k0 = inits.get(cnt)
    if not (isinstance(k0, ast.Constant) and isinstance(k0.value, int)):
        return None
    walkers = [n for n, v in inits.items() if isinstance(v, ast.Name) and v.id == me]
    walkers2 = [n for n, v in inits.items() if isinstance(v, ast.Attribute) and v.attr == "parent" and isinstance(v.value, ast.Name) and v.value.id == me]
    w = walkers[0] if walkers else (walkers2[0] if walkers2 else None)
    if w is None or wl.orelse:
        return None
    t = wl.test
    if isinstance(t, ast.Compare) and len(t.ops) == 1 and isinstance(t.ops[0], ast.IsNot) and isinstance(t.comparators[0], ast.Constant) and t.comparators[0].value is None:
        t = t.left
    if walkers:
        # the walker starts at the group itself and climbs while there is a parent
        if not (isinstance(t, ast.Attribute) and t.attr == "parent" and isinstance(t.value, ast.Name) and t.value.id == w):
            return None
    else:
        # the walker starts at the parent and climbs while it is a group
        if not (isinstance(t, ast.Name) and t.id == w):
            return None
    inc = None
    step = False
    for st in wl.body:
        if isinstance(st, ast.AugAssign) and isinstance(st.target, ast.Name) and st.target.id == cnt and isinstance(st.op, ast.Add) and isinstance(st.value, ast.Constant) and inc is None:
            inc = st.value.value
        elif isinstance(st, ast.Assign) and len(st.targets) == 1 and isinstance(st.targets[0], ast.Name) and st.targets[0].id == w and isinstance(st.value, ast.Attribute) \
                and st.value.attr == "parent" and isinstance(st.value.value, ast.Name) and st.value.value.id == w and not step:
            step = True
        else:
            return None
    if inc is None or not step:
        return None
    return k0.value, inc


def _depth(ctx: Ctx, c: Collector) -> None:
    """The depth of a group is the number of tiers of its simulators' time: 1 for a group without parent, one more than the
    parent's otherwise.  Every tier length (SimRunner, connect_interval) is read off it."""
    qn = "mosaik.scenario.SimGroup.depth"
    fi = ctx.prog.functions.get(qn)
    if fi is None:
        raise AnalysisError(f"R19: {qn} not found")
    s = ctx.summ(qn)
    me = T.var(fi.params[0])
    par = ("attr", me, "parent")
    pr = []
    unknown = None
    it = _depth_iterative(fi.node)
    if it is not None:
        k0, inc = it
        if k0 != 1:
            pr.append(f"a group without parent has depth {k0} instead of 1 (its simulators' time has one tier)")
        if inc != 1:
            pr.append(f"every enclosing group adds {inc} to the depth instead of 1")
        if pr:
            c.bad("interval", qn, "depth = 1 + number of enclosing groups", "; ".join(pr), fi.loc)
        else:
            c.ok("interval", qn, "depth = 1 + number of enclosing groups", "counted along the parent chain, starting from 1", fi.loc)
        return
    # counted over the parent chain: `sum(1 for _ in chain(self))` / `len(list(chain(self)))`, the chain being a walker that starts
    # at the group itself and climbs `.parent` while there is one (a generator helper read in place)
    if len(s.returns) == 1 and not s.returns[0].guards:
        v = T.strip(s.returns[0].term)
        bag = None
        unit = None
        offset = 0
        if v[0] == "op" and v[1] in ("+", "-") and len(v) == 4 and T.strip(v[3])[0] == "const" and isinstance(T.strip(v[3])[1], int):
            offset = T.strip(v[3])[1] if v[1] == "+" else -T.strip(v[3])[1]
            v = T.strip(v[2])
        if v[0] == "agg" and v[1] == "sum" and T.strip(v[2])[0] == "bag":
            bag = T.strip(v[2])
        elif v[0] == "call" and v[1] == T.glob("len") and len(v[2]) == 1 and T.strip(v[2][0])[0] == "bag":
            bag, unit = T.strip(v[2][0]), 1
        if bag is not None and len(bag[1]) == 1 and len(bag[1][0][3]) == 1 and bag[1][0][3][0][1] == ("while",):
            el = bag[1][0]
            cond = T.strip(el[3][0][2])
            w = cond[2] if cond[0] == "cmp" and cond[1] == "isnot" and cond[3] == T.NONE else cond
            inits = [b for b in s.of_kind("bind") if b.term[1] == w and not b.iters]
            steps = [b for b in s.of_kind("bind") if b.term[1] == w and b.iters == el[3]]
            val = T.strip(el[1])
            if unit is None and val[0] == "const" and isinstance(val[1], int):
                unit = val[1]
            if w[0] == "var" and len(inits) == 1 and T.strip(inits[0].term[2]) == me and len(steps) == 1 and steps[0].term[2] == ("attr", w, "parent") \
                    and all(T.guard_term(g) in (w, ("cmp", "isnot", w, T.NONE)) for g in el[2]) and unit is not None:
                if offset != 0:
                    c.bad("interval", qn, "depth = 1 + number of enclosing groups", f"a group without parent has depth {unit + offset} instead of 1 (its simulators' time has one tier)", fi.loc)
                elif unit != 1:
                    c.bad("interval", qn, "depth = 1 + number of enclosing groups", f"every group of the chain counts {unit} instead of 1", fi.loc)
                else:
                    c.ok("interval", qn, "depth = 1 + number of enclosing groups", "the number of groups in the parent chain, the group itself included", fi.loc)
                return
    # a value that is computed once when the group is made (`self._depth = ...` in __init__ / __post_init__, also through
    # object.__setattr__ for a frozen class) and handed out by the property is that value; the stored field of the parent is
    # the parent's depth
    rets = s.returns
    stored = None
    if len(rets) == 1 and not rets[0].guards and T.strip(rets[0].term)[0] == "attr" and T.strip(rets[0].term)[1] == me:
        fld = T.strip(rets[0].term)[2]
        for mname in ("__post_init__", "__init__"):
            mfi = ctx.prog.functions.get(f"mosaik.scenario.SimGroup.{mname}")
            if mfi is None:
                continue
            ms = ctx.summ(mfi.qualname)
            m_me = T.var(mfi.params[0])
            for e in ms.events:
                v = None
                if e.kind == "store" and e.term[1] == ("attr", m_me, fld):
                    v = e.term[2]
                elif e.kind == "call" and e.term[1] == ("attr", T.glob("object"), "__setattr__") and len(e.term[2]) == 3 and e.term[2][0] == m_me and e.term[2][1] == T.const(fld):
                    v = e.term[2][2]
                if v is not None and not e.guards:
                    stored = T.replace(unalias(v, ms, mfi), {m_me: me})
                    stored = T.replace(stored, {("attr", ("attr", me, "parent"), fld): ("attr", ("attr", me, "parent"), "depth")})
        writers = [f2.qualname for f2 in analysis_units(ctx.prog) for e in summarise(ctx.prog, f2).of_kind("store")
                   if e.term[1][0] == "attr" and e.term[1][2] == fld and f2.name not in ("__post_init__", "__init__")]
        if writers:
            stored = None
    try:
        for has in (False, True):
            def truthy(t, has=has):
                t = T.strip(t)
                if t == par:
                    return has
                if t == ("cmp", "is", par, T.NONE):
                    return not has
                if t == ("cmp", "isnot", par, T.NONE):
                    return has
                return None
            live = [r for r in s.returns if boolfn.guards_hold(r.guards, {}, truthy)]
            if len(live) != 1:
                unknown = "the value is not a plain case distinction on `parent`"
                break
            v = T.strip(boolfn.resolve_phi(stored if stored is not None else live[0].term, {}, truthy))
            if v[0] == "ifexp":
                v = T.strip(v[2] if boolfn.evaluate(v[1], {}, truthy) else v[3])
            if not has:
                if v != T.const(1):
                    if v[0] == "const":
                        pr.append(f"a group without parent has depth {v[1]} instead of 1 (its simulators' time has one tier)")
                    else:
                        unknown = f"depth of a root group is {T.show(v)[:60]}"
            else:
                pd = ("attr", par, "depth")
                if v not in (("op", "+", pd, T.const(1)), ("op", "+", T.const(1), pd)):
                    if T.contains((v,), pd) or v[0] == "const":
                        pr.append(f"the depth of a nested group is {T.show(v)[:60]} instead of parent.depth + 1")
                    else:
                        unknown = f"depth of a nested group is {T.show(v)[:60]}"
    except (boolfn.NotBoolean, KeyError) as ex:
        unknown = f"condition not understood: {ex}"
    if pr:
        c.bad("interval", qn, "depth = 1 + number of enclosing groups", "; ".join(pr), fi.loc)
    elif unknown:
        c.unk("interval", qn, "depth = 1 + number of enclosing groups", unknown, fi.loc)
    else:
        c.ok("interval", qn, "depth = 1 + number of enclosing groups", "1 without parent, parent.depth + 1 otherwise", fi.loc)


GROUP_CM = "mosaik.scenario.World.group"


def _group_scope(ctx: Ctx, c: Collector) -> None:
    """`with world.group():` blocks nest.  Entering makes a new group whose parent is the group that was current;
    leaving makes *that* group current again -- so it has to be remembered per block (in a local of the context
    manager), not in one place that an inner block overwrites: simulators started after an inner block would
    otherwise land in the wrong group, and cycles that leave the group go undetected."""
    fi = ctx.prog.functions.get(GROUP_CM)
    if fi is None:
        raise AnalysisError(f"R19: {GROUP_CM} not found")
    s = ctx.summ(GROUP_CM)
    me = T.var(fi.params[0])
    cur = ("attr", me, "current_group")
    ys = s.of_kind("yield")
    sts = [e for e in s.of_kind("store") if e.term[1] == cur]
    pr = []
    if len(ys) != 1 or not sts:
        c.unk("group-scope", GROUP_CM, "enter / leave", "context manager shape not recognised", fi.loc)
        return
    y = ys[0]
    enter = [e for e in sts if e.idx < y.idx]
    leave = [e for e in sts if e.idx > y.idx]
    if not enter:
        pr.append("no new group becomes current inside the block")
    else:
        v = T.strip(enter[-1].term[2])
        new = v if v[0] == "call" else None
        if new is None or new[1] != T.glob("mosaik.scenario.SimGroup") or dict(new[3]).get("parent", new[2][0] if new[2] else None) is None:
            pr.append("the group that becomes current is not a new SimGroup with a parent")
        else:
            par = unalias(dict(new[3]).get("parent", new[2][0] if new[2] else None), s, fi)
            if par != cur and not any(e.term[1] == par and T.strip(e.term[2]) == cur and e.idx < enter[-1].idx for e in s.of_kind("store")):
                pr.append(f"the new group's parent is {T.show(par)[:50]}, not the group that was current on entry")
    if not leave:
        pr.append("the enclosing group is not made current again when the block is left")
    else:
        v = leave[-1].term[2]
        binds = [b for b in s.of_kind("bind") if b.term[1] == v and b.idx < y.idx and not b.guards]
        if v[0] != "var" or len(binds) != 1 or T.strip(binds[0].term[2]) != cur or (enter and binds[0].idx > enter[0].idx):
            pr.append(f"on leaving, the current group is set to {T.show(v)[:50]} instead of the group that was current on entry, remembered in a local of this block: "
                      "an inner block overwrites what is remembered anywhere else, so after it the outer block restores the wrong group")
    c.add("group-scope", GROUP_CM, "group blocks nest: the entry group is remembered per block and restored", VIOLATED if pr else DISCHARGED, "; ".join(pr), fi.loc)


def _gate(ctx: Ctx, c: Collector) -> None:
    fi = ctx.func(RUN)
    s = ctx.summ(RUN)
    g = ctx.cfg(RUN)
    me = T.var(fi.params[0])
    cyc = [e for e in s.of_kind("call") if e.term[1] == ("attr", me, "ensure_no_dataflow_cycles")]
    anc = [e for e in s.of_kind("call") if e.term[1] == ("attr", me, "cache_triggering_ancestors")]
    sched = [e for e in s.of_kind("call") if e.term[1] == T.glob("mosaik.scheduler.run")]
    if not sched:
        raise AnalysisError("World.run does not call scheduler.run")
    k = lambda e: g.key(e.stmt)  # noqa: E731
    ok1 = bool(cyc) and g.dominates(k(cyc[0]), k(sched[0])) and not any(r == "body" for _, r in cyc[0].tries)
    c.check(ok1, "gate", RUN, "ensure_no_dataflow_cycles dominates scheduler.run", "the cycle check does not dominate the start of the scheduler (a cyclic scenario would be stepped, or its ScenarioError swallowed)", fi.loc)
    ok2 = bool(anc) and g.dominates(k(anc[0]), k(sched[0]))
    c.check(ok2, "gate", RUN, "cache_triggering_ancestors dominates scheduler.run", "triggering ancestors are not computed before the scheduler starts", fi.loc)
    # the arguments are passed through
    a = sched[0].term[2]
    want = (me, T.var("until"), T.var("rt_factor"), T.var("rt_strict"), T.var("lazy_stepping"))
    c.check(a == want, "gate", RUN, "scheduler.run(self, until, rt_factor, rt_strict, lazy_stepping)", f"scheduler.run is called with {T.show(a)[:120]}", ctx.loc(fi, sched[0]))


def _writers(ctx: Ctx, c: Collector) -> None:
    """All three connection kinds end up as edges: input_delays is written by connect_one and
    connect_async_requests only (plus the constructor)."""
    allowed = {"mosaik.scenario.World.connect_one", "mosaik.scenario.World.connect_async_requests", "mosaik.simmanager.SimRunner.__init__"}
    writers = set()
    for fi in analysis_units(ctx.prog):
        for e in summarise(ctx.prog, fi).events:
            tgt = None
            if e.kind == "store":
                tgt = e.term[1]
            elif e.kind == "call" and e.term[1][0] == "attr" and e.term[1][2] in ("setdefault", "update", "pop", "clear"):
                tgt = ("idx", e.term[1][1], T.NONE)
            elif e.kind == "del":
                tgt = e.term[1]
            if tgt is None:
                continue
            base = tgt[1] if tgt[0] == "idx" else tgt
            if base[0] == "attr" and base[2] == "input_delays":
                writers.add(fi.qualname)
    extra = writers - allowed
    missing = {"mosaik.scenario.World.connect_one", "mosaik.scenario.World.connect_async_requests"} - writers
    pr = []
    if extra:
        pr.append("input_delays is also written by " + ", ".join(sorted(extra)))
    if missing:
        pr.append("no edge is recorded in input_delays by " + ", ".join(sorted(missing)))
    c.add("writers", "mosaik.*", "who-may-write input_delays", VIOLATED if pr else DISCHARGED, "; ".join(pr), "")


def _cycle_check(ctx: Ctx, c: Collector) -> None:
    fi = ctx.func(CYC)
    s = ctx.spliced(CYC)
    me = T.var(fi.params[0])
    allsims = call(("attr", ("attr", me, "sims"), "values"))
    loc = fi.loc
    full_t = {e.idx: unalias(e.term[1], s, fi) for e in s.of_kind("store")}
    stores = [e for e in s.of_kind("store") if full_t[e.idx][0] == "idx" and full_t[e.idx][1][0] == "idx" and full_t[e.idx][1][1][0] == "var"]
    if not stores:
        raise AnalysisError("R19: no store into a descendant table found in ensure_no_dataflow_cycles")
    table = full_t[stores[0].idx][1][1]
    seeds = [e for e in stores if not any(i[1] == ("while",) for i in e.iters)]
    closes = [e for e in stores if any(i[1] == ("while",) for i in e.iters)]
    # --- seeding
    pr: List[str] = []
    if not seeds:
        pr.append("direct predecessors are never entered as descendants")
    else:
        e = seeds[0]
        ok = len(e.iters) == 2 and T.strip(e.iters[0][2]) == allsims and not e.guards
        if ok:
            simv = e.iters[0][1]
            dec = items_iter(e.iters[1])
            ok = dec is not None and dec[0] == ("attr", simv, "input_delays") and dec[3] == "items"
            if ok:
                pred, delay = dec[1], dec[2]
                tgt_ok = full_t[e.idx] == ("idx", ("idx", table, pred), simv)
                val = e.term[2]
                # (the witness path is only shown in the error message: a list [pred, sim] or any other structure that holds the two, e.g. a linked tuple)
                val_ok = val[0] == "tuple" and len(val[1]) == 2 and val[1][0] == delay and (
                    (val[1][1][0] == "bag" and [x[1] for x in val[1][1][1]] == [pred, simv]) or (T.contains((val[1][1],), pred) and T.contains((val[1][1],), simv)))
                if not tgt_ok:
                    pr.append(f"seeding stores into {T.show(full_t[e.idx])} instead of descendants[pred][sim]")
                if not val_ok:
                    pr.append(f"seeding stores {T.show(val)[:100]} instead of (delay, [pred, sim])")
        if not ok:
            pr.append("seeding does not enumerate every (pred, delay) of every simulator's input_delays unconditionally")
    c.add("seed", CYC, "every edge of input_delays is seeded", VIOLATED if pr else DISCHARGED, "; ".join(pr), loc)
    # --- worklist
    pr = []
    binds = {e.term[1][1]: e for e in s.of_kind("bind")}
    dirty = None
    for e in s.of_kind("bind"):
        v = e.term[2]
        if v == call(T.glob("set"), allsims) or (v[0] == "bag" and len(v) > 2 and v[2] == "set" and len(v[1]) == 1 and len(v[1][0][3]) == 1
                                                  and not v[1][0][2] and T.strip(v[1][0][3][0][2]) == allsims and v[1][0][1] == v[1][0][3][0][1]):
            dirty = e.term[1]
    if dirty is None:
        pr.append("the worklist is not initialised with all simulators")
    if not closes:
        pr.append("the closure never stores a combined path")
    else:
        e = closes[0]
        loops = [i for i in e.iters if i[1] != ("while",)]
        wl = [i for i in e.iters if i[1] == ("while",)]
        if dirty is not None and (not wl or T.strip(wl[0][2]) != dirty):
            pr.append("the closure loop does not run until the worklist is empty")
        if len(loops) != 2:
            pr.append("the closure does not combine every predecessor with every known descendant")
        else:
            d0, d1 = items_iter(loops[0]), loops[1]
            # outer: (src, src_to_mid) in mid.input_delays.items(); inner: (dest, (mid_to_dest, path)) in table[mid].items()
            ok = d0 is not None and d0[0][0] == "attr" and d0[0][2] == "input_delays" and d0[3] == "items"
            mid = d0[0][1] if ok else None
            inner_src = unalias(T.strip(d1[2]), s, fi)
            ok = ok and inner_src == call(("attr", ("idx", table, mid), "items"))
            ok = ok and d1[1][0] == "tuple" and len(d1[1][1]) == 2 and d1[1][1][1][0] == "tuple" and len(d1[1][1][1][1]) == 2
            if not ok:
                # maybe the loops are nested the other way round
                pr.append("closure loops are not `for src, src_to_mid in mid.input_delays.items(): for dest, (mid_to_dest, path) in descendants[mid].items()`")
            else:
                srcv, s2m = d0[1], d0[2]
                destv = d1[1][1][0]
                m2d, path = d1[1][1][1][1]
                # mid comes off the worklist
                mb = binds.get(mid[1]) if mid[0] == "var" else None
                if mb is None or mb.term[2] != call(("attr", dirty, "pop")) if dirty is not None else True:
                    pr.append("the processed simulator is not taken from the worklist")
                comb = ("op", "+", s2m, m2d)
                val = e.term[2]
                um = val[1][0] if val[0] == "tuple" and val[1] else val
                if um == comb:
                    # stored directly: that the store only happens when the new delay is smaller is R5's obligation (every store
                    # into a min-table is min-combined, whether through update_min or an explicit comparison)
                    pass
                elif um == ("op", "+", m2d, s2m):
                    pr.append("operands of the path sum are swapped (mid->dest + src->mid): TieredInterval addition is not commutative")
                elif not (um[0] == "call" and um[1] == T.glob(UPDATE_MIN) and len(um[2]) == 2):
                    pr.append("the combined delay is not stored through update_min")
                else:
                    if um[2][1] != comb:
                        if um[2][1] == ("op", "+", m2d, s2m):
                            pr.append("operands of the path sum are swapped (mid->dest + src->mid): TieredInterval addition is not commutative")
                        else:
                            pr.append(f"the combined delay is {T.show(um[2][1])[:80]} instead of src->mid + mid->dest")
                    old = unalias(um[2][0], s, fi)
                    reads_entry = any((x[0] == "call" and x[1] == ("attr", ("idx", table, srcv), "get") and x[2][:1] == (destv,)) or x == ("idx", ("idx", table, srcv), destv)
                                      for x in T.subterms(old))
                    if not reads_entry:
                        pr.append("update_min does not compare with the existing entry descendants[src][dest]")
                if full_t[e.idx] != ("idx", ("idx", table, srcv), destv):
                    pr.append(f"the result is stored in {T.show(full_t[e.idx])} instead of descendants[src][dest]")
                def _path_ok(pv: Term) -> bool:
                    pv = T.strip(pv)
                    if pv[0] == "op" and pv[1] == "+" and T.contains(pv, path) and T.contains(pv, srcv):
                        return True
                    if pv[0] == "tuple" and T.contains((pv,), path) and T.contains((pv,), srcv):
                        return True          # a linked representation (src, rest-of-path)
                    # [src, *path]
                    if pv[0] in ("bag", "tuple"):
                        els = [x[1] if pv[0] == "bag" else x for x in pv[1]]
                        return len(els) == 2 and els[0] == srcv and T.strip(els[1]) in (("star", path), path)
                    return False
                if not (val[0] == "tuple" and len(val[1]) == 2 and (val[1][1] == ("bag", (("elem", srcv, (), ()),) + (), "list") or _path_ok(val[1][1]))):
                    pr.append("the stored path is not [src] + path")
                # re-queue src under the same condition
                adds = [x for x in s.of_kind("call") if dirty is not None and x.term[1] == ("attr", dirty, "add") and x.iters == e.iters and guards_equiv(x.guards, e.guards)]
                if not adds or adds[0].term[2] != (srcv,):
                    pr.append("the predecessor whose descendants changed is not put back on the worklist")
        # nothing but "the new path is shorter" may stand between a path and its entry: a condition on the size of a table (an early
        # `continue` "once every simulator is known") stops the relaxation while shorter routes are still to come
        whiles = [T.strip(i[2]) for i in e.iters if i[1] == ("while",)]
        sized = []
        for g in e.guards:
            gt = T.guard_term(g)
            if T.strip(g[1]) in whiles or gt in whiles:
                continue
            if any(x[0] == "call" and x[1] == T.glob(UPDATE_MIN) for x in T.subterms((gt,))):
                continue
            if any(x[0] == "call" and x[1] == T.glob("len") and T.contains((x,), table) for x in T.subterms((gt,))):
                sized.append(T.show(gt)[:70])
        if sized:
            pr.append(f"the relaxation is skipped when {' and '.join(sized)}: shorter routes found later are not recorded, so a cycle without delay can go unreported")
    c.add("closure", CYC, "worklist closure: src->mid + mid->dest through update_min, re-queue src", VIOLATED if pr else DISCHARGED, "; ".join(pr), loc)
    # --- final test
    pr = []
    raises = [e for e in s.of_kind("raise")]
    if not raises:
        pr.append("no ScenarioError is ever raised")
    else:
        r = raises[-1]
        if not (r.term[0] == "call" and r.term[1] == T.glob(SCENERR)):
            pr.append(f"raises {T.show(r.term)[:60]} instead of ScenarioError")
        gts = guard_terms(r.guards)
        its = [i for i in r.iters]
        dec = items_iter(its[-1]) if its else None
        if dec is None or dec[0] != table or dec[3] != "items":
            pr.append("the final test does not visit every simulator's descendants")
        else:
            simv, descs = dec[1], dec[2]
            entry = ("idx", descs, simv)
            # `e = descs.get(sim); if e is None: continue` is `if sim not in descs: continue` (entries are tuples)
            got = call(("attr", descs, "get"), simv)
            norm = {got: entry}
            flat = []
            for x in gts:
                flat += list(x[1]) if x[0] == "and" else [x]
            gts = [T.replace(x, norm) for x in flat]
            gts = [("cmp", "in", simv, descs) if x == ("cmp", "isnot", entry, T.NONE) else x for x in gts]
            r = Event(r.idx, r.kind, T.replace(r.term, norm), r.raw, r.node, r.stmt, r.guards, r.iters, r.tries, r.awaited, r.extra)
            delay = ("idx", entry, T.const(0))
            pathv = ("idx", entry, T.const(1))
            if ("cmp", "in", simv, descs) not in gts:
                pr.append("the test is not restricted to simulators that are their own descendants")
            zero_ok = False
            for x in gts:
                if x[0] == "agg" and x[1] == "all" and len(x[2][1]) == 1:
                    el = x[2][1][0]
                    if len(el[3]) == 1 and not el[2]:
                        v, srcx = el[3][0][1], T.strip(el[3][0][2])
                        if srcx == ("attr", delay, "tiers") and el[1] == T.canon_cmp("==", v, T.const(0)):
                            zero_ok = True
                        elif srcx == ("attr", delay, "tiers"):
                            pr.append(f"the per-tier test is {T.show(el[1])} instead of tier == 0")
                            zero_ok = None
                        elif srcx[0] == "idx" and srcx[1] == ("attr", delay, "tiers"):
                            pr.append(f"only {T.show(srcx)} is tested for zero: a cycle resolved by a weak connection (non-zero sub-tier) is rejected, or an unresolved one accepted")
                            zero_ok = None
                elif x[0] == "not" and x[1][0] == "agg" and T.contains(x, ("attr", delay, "tiers")):
                    pr.append("the zero test is negated: cycles with a resolving connection are rejected and unresolved ones accepted")
                    zero_ok = None
                elif x[0] == "agg" and x[1] == "any" and T.contains(x, ("attr", delay, "tiers")):
                    pr.append("the zero test uses any() over the tiers: a cycle with a resolving connection is rejected")
                    zero_ok = None
                elif x[0] == "cmp" and x[1] in ("==",) and delay in (x[2], x[3]):
                    pr.append("the zero test compares the whole interval (including cutoff / pre_length) with a constant instead of testing that all tiers are 0")
                    zero_ok = None
                elif x[0] == "cmp" and T.contains(x, ("attr", delay, "time")) or (x[0] == "cmp" and T.contains(x, ("idx", ("attr", delay, "tiers"), T.const(0)))):
                    pr.append("only the main time tier is tested for zero")
                    zero_ok = None
            if zero_ok is False:
                c.unk("zero", CYC, "cycle iff all tiers of the round-trip delay are 0", "zero test not in a recognised form", loc)
                zero_ok = None
                pr_unknown = True
            if not T.contains(r.term, pathv):
                pr.append("the error does not carry the stored path of the cycle")
    if pr:
        c.bad("zero", CYC, "cycle iff all tiers of the round-trip delay are 0", "; ".join(pr), loc)
    elif not any(o.oid == "R19/zero" for o in c.obs):
        c.ok("zero", CYC, "cycle iff all tiers of the round-trip delay are 0", "all(t == 0 for t in delay.tiers) on descendants[sim][sim], ScenarioError carries the path", loc)


def _ancestors(ctx: Ctx, c: Collector) -> None:
    fi = ctx.func(ANC)
    s = ctx.spliced(ANC)
    stores = [e for e in s.of_kind("store") if e.term[1][0] == "idx" and e.term[1][1][0] == "attr" and e.term[1][1][2] == "triggering_ancestors"]
    seeds = [e for e in stores if not any(i[1] == ("while",) for i in e.iters)]
    closes = [e for e in stores if any(i[1] == ("while",) for i in e.iters)]
    pr: List[str] = []
    if not seeds:
        pr.append("direct triggering predecessors are never entered")
    else:
        e = seeds[0]
        # for sim in sims.values(): for port_triggers in sim.triggers.values(): for dest, delay in port_triggers
        ok = len(e.iters) == 3
        if ok:
            simv = e.iters[0][1]
            d1 = items_iter(e.iters[1])
            ok = d1 is not None and d1[0] == ("attr", simv, "triggers") and d1[3] in ("values", "items")
            if ok:
                pt = d1[2]
                i2 = e.iters[2]
                ok = T.strip(i2[2]) == pt and i2[1][0] == "tuple" and len(i2[1][1]) == 2
                if ok:
                    destv, delayv = i2[1][1]
                    if e.term[1] != ("idx", ("attr", destv, "triggering_ancestors"), simv):
                        pr.append(f"seeding stores into {T.show(e.term[1])} instead of dest.triggering_ancestors[sim]")
                    if not T.contains(e.term[2], delayv):
                        pr.append("seeding does not store the trigger connection's delay")
        if not ok:
            pr.append("seeding does not enumerate every trigger connection of every simulator")
        elif closes:
            # the work-list starts out with every simulator that was given a direct ancestor (or with all simulators): with an
            # empty work-list the closure loop never runs and only direct predecessors bound progress / max_advance
            wls = [T.strip(i[2]) for i in closes[0].iters if i[1] == ("while",)]
            wl = wls[0] if wls else None
            if wl is not None and wl[0] == "var":
                queued = [x for x in s.of_kind("call") if x.term[1] == ("attr", wl, "add") and x.term[2] == (destv,) and x.iters == e.iters
                          and all(g in e.guards for g in x.guards)]
                inits = [b for b in s.of_kind("bind") if b.term[1] == wl and not b.iters and T.contains((b.term[2],), ("attr", T.var(fi.params[0]), "sims"))]
                if not queued and not inits:
                    pr.append("the simulators that were given a direct triggering ancestor are not put on the work-list: the closure loop has nothing to process "
                              "and ancestors more than one connection away never bound progress / max_advance")
    if not closes:
        pr.append("the closure never stores a combined trigger path")
    else:
        e = closes[0]
        loops = [i for i in e.iters if i[1] != ("while",)]
        if len(loops) == 3:
            d0 = items_iter(loops[0])
            i1 = loops[1]
            d2 = items_iter(loops[2])
            ok = d0 is not None and d0[0][0] == "attr" and d0[0][2] == "triggers" and d2 is not None and d2[0] == ("attr", d0[0][1], "triggering_ancestors")
            if ok and i1[1][0] == "tuple":
                mid = d0[0][1]
                destv, m2d = i1[1][1]
                srcv, s2m = d2[1], d2[2]
                um = e.term[2]
                comb = ("op", "+", s2m, m2d)
                if not (um[0] == "call" and um[1] == T.glob(UPDATE_MIN) and um[2][1] == comb):
                    if um[0] == "call" and um[1] == T.glob(UPDATE_MIN) and um[2][1] == ("op", "+", m2d, s2m):
                        pr.append("operands of the path sum are swapped (mid->dest + src->mid)")
                    else:
                        pr.append(f"combined trigger delay is {T.show(um)[:100]} instead of update_min(existing, src->mid + mid->dest)")
                if e.term[1] != ("idx", ("attr", destv, "triggering_ancestors"), srcv):
                    pr.append(f"the result is stored in {T.show(e.term[1])}")
                adds = [x for x in s.of_kind("call") if x.term[1][0] == "attr" and x.term[1][2] == "add" and x.iters == e.iters and guards_equiv(x.guards, e.guards)]
                if not adds or adds[0].term[2] != (destv,):
                    pr.append("the simulator whose ancestors changed is not put back on the worklist")
            else:
                pr.append("closure loops not recognised")
        else:
            pr.append("closure loops not recognised")
    # nothing but "the new path is shorter" may stand between a trigger path and its entry: a condition on the
    # simulator (its type, whether it has outputs, ...) cuts the closure at that simulator
    for e, what in [(x, "seeding") for x in seeds[:1]] + [(x, "closure") for x in closes[:1]]:
        whiles = [T.strip(i[2]) for i in e.iters if i[1] == ("while",)]
        extra = []
        for g in e.guards:
            gt = T.guard_term(g)
            if T.strip(g[1]) in whiles or gt in whiles:
                continue
            if any(x[0] == "call" and x[1] == T.glob(UPDATE_MIN) for x in T.subterms((gt,))):
                continue
            # "there is something to iterate over" is no condition: the loop over an empty table does nothing anyway
            tables_iterated = set()
            for it in e.iters:
                d = items_iter(it) if it[1] != ("while",) else None
                if d is not None:
                    tables_iterated.add(T.strip(d[0]))
            if gt in tables_iterated:
                continue
            extra.append(T.show(gt)[:60])
        if extra:
            pr.append(f"the {what} is skipped unless {' and '.join(extra)}: trigger paths through the other simulators are not entered, so their ancestors do not bound the progress / max_advance of the simulators behind them")
    c.add("anc-closure", ANC, "trigger-ancestor closure: seed every trigger edge, combine src->mid + mid->dest, re-queue dest", VIOLATED if pr else DISCHARGED, "; ".join(pr), fi.loc)


def _interval(ctx: Ctx, c: Collector) -> None:
    fi = ctx.func(INTERVAL)
    s = ctx.summ(INTERVAL)
    sg, dg = T.var(fi.params[0]), T.var(fi.params[1])
    ts, wk = T.var(fi.params[2]), T.var(fi.params[3])
    gp = call(T.glob(GROUP_PATH), sg, dg)
    ascent, common = ("idx", gp, T.const(0)), ("idx", gp, T.const(2))
    pre = ("attr", sg, "depth")
    cut = ("op", "-", pre, ascent)
    loc = fi.loc
    rets = s.returns
    pr: List[str] = []
    if not rets:
        c.bad("interval", INTERVAL, "pre_length/cutoff/tiers, shift in tier 0, weak in the shared group's tier, weak needs a shared group", "no interval is returned", loc)
        return
    if len(rets) != 1 or rets[0].term[0] != "call" or rets[0].term[1] != T.glob("mosaik.tiered_time.TieredInterval"):
        c.unk("interval", INTERVAL, "shape", "return value not recognised", loc)
        return
    r = rets[0]
    kw = dict(r.term[3])
    descent = ("idx", gp, T.const(1))

    def lin(t):
        """linear form over (src depth, ascent, descent, 1), modulo depth(common) = depth(src) - ascent and depth(dest) = depth(common) + descent"""
        t = T.strip(t) if t is not None else None
        if t is None:
            return None
        if t == pre:
            return {"s": 1}
        if t == ascent:
            return {"a": 1}
        if t == descent:
            return {"d": 1}
        if t == ("attr", common, "depth"):
            return {"s": 1, "a": -1}
        if t == ("attr", dg, "depth"):
            return {"s": 1, "a": -1, "d": 1}
        if t[0] == "const" and isinstance(t[1], int) and not isinstance(t[1], bool):
            return {"1": t[1]}
        if t[0] == "op" and t[1] in ("+", "-") and len(t) == 4:
            a, b = lin(t[2]), lin(t[3])
            if a is None or b is None:
                return None
            out = dict(a)
            for k, v in b.items():
                out[k] = out.get(k, 0) + (v if t[1] == "+" else -v)
            return {k: v for k, v in out.items() if v}
        return None

    def same(x, want) -> bool:
        return x == want or (lin(x) is not None and lin(x) == lin(want))
    if not same(kw.get("pre_length"), pre):
        pr.append(f"pre_length is {T.show(kw.get('pre_length'))} instead of the source group's depth")
    if not same(kw.get("cutoff"), cut):
        pr.append(f"cutoff is {T.show(kw.get('cutoff'))} instead of src depth - ascent")
    tiers = r.term[2][0][1] if r.term[2] and r.term[2][0][0] == "star" else None
    sparse = None
    if tiers is not None and T.strip(tiers)[0] == "bag" and len(T.strip(tiers)[1]) == 1:
        # the non-zero tiers are collected in a table position -> value, and the tiers are `table.get(i, 0)` for
        # every position i of the destination's depth
        el = T.strip(tiers)[1][0]
        v = T.strip(el[1])
        if (v[0] == "call" and v[1][0] == "attr" and v[1][2] == "get" and v[1][1][0] == "var" and len(v[2]) == 2 and v[2][1] == T.const(0) and not el[2]
                and len(el[3]) == 1 and el[3][0][1] == v[2][0] and T.strip(el[3][0][2]) in (call(T.glob("range"), ("attr", dg, "depth")), call(T.glob("range"), T.const(0), ("attr", dg, "depth")))
                and any(b2.term[1] == v[1][1] and T.strip(b2.term[2]) in (("dict", ()), call(T.glob("dict"))) and not b2.iters for b2 in s.of_kind("bind"))):
            sparse = v[1][1]
    if tiers is None or (tiers[0] != "var" and sparse is None):
        pr.append("tiers not built from a mutable list")
    else:
        if sparse is not None:
            tiers = sparse
            if any((e.kind == "del" and T.contains((e.term,), tiers)) or (e.kind == "call" and e.term[1][0] == "attr" and e.term[1][1] == tiers and e.term[1][2] != "get") for e in s.events):
                pr.append("the table of non-zero tiers is modified in other ways than by placing a value")
        else:
            b = [e for e in s.of_kind("bind") if e.term[1] == tiers]
            zl = ("bag", (("elem", T.const(0), (), ()),), "list")
            bv = T.strip(b[0].term[2]) if b else None
            if not b or not (bv[0] == "op" and bv[1] == "*" and len(bv) == 4 and ((bv[2] == zl and same(bv[3], ("attr", dg, "depth"))) or (bv[3] == zl and same(bv[2], ("attr", dg, "depth"))))):
                pr.append("the interval does not have one zero tier per level of the destination group")
        sts = {e.term[1][2]: e for e in s.of_kind("store") if e.term[1][0] == "idx" and e.term[1][1] == tiers}
        e0 = sts.get(T.const(0))
        ew = sts.get(("op", "-", cut, T.const(1)))
        if ew is None:
            ew = next((e for k, e in sts.items() if k != T.const(0) and same(k, ("op", "-", cut, T.const(1)))), None)
        if e0 is None or e0.term[2] != ts:
            pr.append("time_shifted is not placed in tier 0")
        if ew is None or ew.term[2] != wk:
            others = [k for k in sts if k != T.const(0)]
            pr.append("weak is placed in tier " + (T.show(others[0]) if others else "<none>") + " instead of the shared group's tier (cutoff - 1)")
        if len(sts) > 2:
            pr.append("additional tiers are written")
        if e0 is not None and ew is not None:
            from . import tables
            from .. import boolfn
            ROOT = ("attr", common, "parent")
            # the two flags are non-negative integers (or Booleans): `x != 0`, `x > 0` are `x`, `x == 0` is `not x`; `parent is None` is `not parent`
            flag_forms = {}
            for fl in (ts, wk):
                flag_forms.update({("cmp", "!=", fl, T.const(0)): fl, ("cmp", "!=", T.const(0), fl): fl, ("cmp", "<", T.const(0), fl): fl,
                                   ("cmp", "==", fl, T.const(0)): ("not", fl), ("cmp", "==", T.const(0), fl): ("not", fl), ("cmp", "<=", fl, T.const(0)): ("not", fl)})
            flag_forms.update({("cmp", "is", ROOT, T.NONE): ("not", ROOT), ("cmp", "isnot", ROOT, T.NONE): ROOT})

            def nf(gs):
                return tuple(T.replace(g, flag_forms) for g in gs)
            try:
                rej = [(f"rej{x.idx}", nf(without_asserts(s, x.guards))) for x in s.of_kind("raise") if x.idx < r.idx]
                for a, fired in tables.rows([("t0", nf(without_asserts(s, e0.guards))), ("tw", nf(without_asserts(s, ew.guards))), ("ret", nf(without_asserts(s, r.guards)))] + rej, [ts, wk, ROOT]):
                    if "ret" not in fired or any(f.startswith("rej") for f in fired):
                        continue          # rejected (weak outside a group)
                    if a[ts] and "t0" not in fired:
                        pr.append("a connection that is %stime-shifted loses its time shift" % ("weak and " if a[wk] else ""))
                    if a[wk] and "tw" not in fired:
                        pr.append("a connection that is %sweak loses its weak sub-step" % ("time-shifted and " if a[ts] else ""))
            except boolfn.NotBoolean as ex:
                pr.append(f"tier placement conditions not understood: {ex}")
    # defaults: connect_interval(g1, g2) is the zero interval (used for successors / async requests)
    import ast as _ast
    dfl = [(_ast.literal_eval(d) if isinstance(d, _ast.Constant) else None) for d in fi.node.args.defaults]
    if dfl[-2:] != [0, 0]:
        pr.append(f"the defaults of time_shifted / weak are {dfl[-2:]} instead of 0: connect_interval(g1, g2) is no longer the zero interval between two groups")
    # weak outside a group is rejected before the interval is built
    raises = [e for e in s.of_kind("raise") if e.term[0] == "call" and e.term[1] == T.glob(SCENERR)]
    okr = False
    ROOTP = ("attr", common, "parent")
    none_forms = {("cmp", "is", ROOTP, T.NONE): ("not", ROOTP), ("cmp", "isnot", ROOTP, T.NONE): ROOTP,
                  ("cmp", "==", ROOTP, T.NONE): ("not", ROOTP), ("cmp", "!=", ROOTP, T.NONE): ROOTP}
    for e in raises:
        gt = guard_terms(e.guards)
        if gt == [("and", (wk, ("not", ROOTP)))] or set(gt) == {wk, ("not", ROOTP)}:
            okr = True
            continue
        # by cases: a group's parent is a SimGroup or None, so `parent is None` is `not parent`; the rejection fires exactly
        # when the connection is weak and the common group has no parent
        try:
            from . import tables as _tb
            from .. import boolfn as _bf
            gs = tuple(T.replace(g, none_forms) for g in without_asserts(s, e.guards))
            rows = list(_tb.rows([("rej", gs)], [wk, ROOTP]))
            if rows and all((("rej" in fired) == (bool(a[wk]) and not a[ROOTP])) for a, fired in rows):
                okr = True
        except Exception:
            pass
    if not okr:
        pr.append("a weak connection whose common group is the root is not rejected with ScenarioError")
    c.add("interval", INTERVAL, "pre_length/cutoff/tiers, shift in tier 0, weak in the shared group's tier, weak needs a shared group", VIOLATED if pr else DISCHARGED, "; ".join(pr), loc)
    # group_path: ascent = index of the common group in the source's ancestor chain, common group returned
    gfi = ctx.func(GROUP_PATH)
    gs = ctx.summ(GROUP_PATH)
    srcp, destp = T.var(gfi.params[0]), T.var(gfi.params[1])
    pr = []
    rts = gs.returns

    def chain_root(t: Term) -> Optional[Term]:
        """g if `t` denotes the parent chain [g, g.parent, g.parent.parent, ...]: an append-accumulator
        that starts with g and is extended by every parent, or (a list of) the values of a generator
        that yields its argument and then climbs `.parent` while there is one."""
        t = T.strip(t)
        while t[0] == "call" and t[1] in (T.glob("list"), T.glob("tuple")) and len(t[2]) == 1:
            t = T.strip(t[2][0])
        if t[0] == "bag":
            els = t[1]
            if len(els) == 1 and els[0][1][0] == "var" and len(els[0][3]) == 1 and els[0][3][0][1] == ("while",):
                # `w = g; while w: yield w; w = w.parent` (a generator helper read in place)
                w = els[0][1]
                cond = T.strip(els[0][3][0][2])
                inits = [b for b in gs.of_kind("bind") if b.term[1] == w and not b.iters]
                steps = [b for b in gs.of_kind("bind") if b.term[1] == w and b.iters == els[0][3]]
                if cond in (w, ("cmp", "isnot", w, T.NONE)) and len(inits) == 1 and len(steps) == 1 and steps[0].term[2] == ("attr", w, "parent") \
                        and all(T.guard_term(g) in (w, ("cmp", "isnot", w, T.NONE)) for g in els[0][2]):
                    ys = [e for e in gs.of_kind("yield") if e.term == w and e.iters == els[0][3]]
                    if not ys or ys[0].idx < steps[0].idx:
                        return T.strip(inits[0].term[2])
                return None
            if len(els) == 2 and not els[0][3] and els[1][1][0] == "attr" and els[1][1][2] == "parent":
                root = els[0][1]
                walkers = {root} | {e.term[1] for e in gs.of_kind("bind") if e.term[2] == root and not e.iters}
                if els[1][1][1] in walkers and any(i[1] == ("while",) and T.strip(i[2]) == ("attr", els[1][1][1], "parent") for i in els[1][3]):
                    return root
            return None
        return None

    def generator_chain(t: Term) -> Optional[Term]:
        t = T.strip(t)
        while t[0] == "call" and t[1] in (T.glob("list"), T.glob("tuple")) and len(t[2]) == 1:
            t = T.strip(t[2][0])
        if t[0] != "call":
            return None
        gen = root = None
        if t[1][0] == "attr" and not t[2]:
            gen, root = ctx.prog.find_method("mosaik.scenario.SimGroup", t[1][2]), t[1][1]
        elif t[1][0] == "glob" and len(t[2]) == 1:
            gen, root = ctx.prog.functions.get(t[1][1]), t[2][0]
        if gen is None or not gen.params:
            return None
        ys = ctx.raw(gen.qualname)
        p0 = T.var(gen.params[0])
        yields = ys.of_kind("yield")
        if len(yields) != 2 or ys.returns and any(r.term != T.NONE for r in ys.returns):
            return None
        first, nxt = yields
        walker = [b.term[1] for b in ys.of_kind("bind") if b.term[2] == p0 and not b.iters]
        w = walker[0] if walker else p0
        ok = first.term == p0 and not first.iters and not first.guards \
            and nxt.term == ("attr", w, "parent") and any(i[1] == ("while",) and T.strip(i[2]) == ("attr", w, "parent") for i in nxt.iters) \
            and any(b.term == ("bind", w, ("attr", w, "parent")) and b.iters == nxt.iters and b.idx < nxt.idx for b in ys.of_kind("bind"))
        return root if ok else None

    def parent_chain(t: Term) -> Optional[Term]:
        r = chain_root(t)
        return r if r is not None else generator_chain(t)

    idx_calls = [e for e in gs.of_kind("call") if e.term[1][0] == "attr" and e.term[1][2] == "index" and len(e.term[2]) == 1]

    def climber(var: Term, start: Term, evs) -> bool:
        """`var` starts at `start` and is advanced by `var = var.parent` inside the loop of the events."""
        inits = [b for b in gs.of_kind("bind") if b.term[1] == var and b.term[2] == start and not b.iters]
        steps = [b for b in gs.of_kind("bind") if b.term[1] == var and b.term[2] == ("attr", var, "parent") and b.iters and b.iters == evs.iters]
        return bool(inits) and bool(steps) and inits[-1].idx < evs.idx

    # form C: a table group -> number of levels above the source (filled while climbing from the source), probed
    # while climbing from the destination
    fills = [e for e in gs.of_kind("store") if e.term[1][0] == "idx" and e.term[1][1][0] == "var" and e.term[2] == call(T.glob("len"), e.term[1][1]) and e.iters]
    probes = [e for e in gs.of_kind("call") if fills and e.term[1] == ("attr", fills[0].term[1][1], "get") and len(e.term[2]) == 1 and e.iters]
    if not idx_calls and fills and probes:
        f, pz = fills[0], probes[0]
        gvar_s, gvar_d = f.term[1][2], pz.term[2][0]
        empty_init = any(b.term[1] == f.term[1][1] and T.strip(b.term[2]) == ("dict", ()) and not b.iters for b in gs.of_kind("bind"))
        if not (empty_init and climber(gvar_s, srcp, f)):
            pr.append("the table of ancestors is not filled with the source group and every parent, numbered from 0")
        if not climber(gvar_d, destp, pz):
            pr.append("the candidates for the common group are not the destination group and its parents, innermost first")
        okret = any(r.term[0] == "tuple" and len(r.term[1]) == 3 and unalias(r.term[1][0], gs, gfi) in (pz.term, ("idx", pz.term[1][1], pz.term[2][0])) and r.term[1][2] == gvar_d
                    and ("cmp", "isnot", pz.term, T.NONE) in [unalias(x, gs, gfi) for x in guard_terms(r.guards)] for r in rts)
        if not okret:
            pr.append("does not return (levels above the source, descent, common group) for the first destination ancestor found in the table")
        if not any(e.kind == "raise" and not e.iters for e in gs.events):
            pr.append("two groups without a common ancestor do not raise")
    elif not idx_calls and _table_form(ctx, gs, gfi, srcp, destp, rts, parent_chain, climber, pr):
        pass        # form D: a level table of the source's chain probed by membership / get / subscript (checked in _table_form)
    elif not idx_calls:
        pr.append("the common group is not looked up in the source's ancestor chain")
    else:
        look = idx_calls[0]
        chain = look.term[1][1]
        cand = look.term[2][0]
        if cand == destp:
            # form A: the destination variable climbs to its parent until the lookup succeeds
            if chain[0] == "bag" or chain[0] == "call":
                if parent_chain(chain) != srcp:
                    pr.append("the source's ancestor chain is not [src] extended by every parent")
            else:
                init = [e for e in gs.of_kind("bind") if e.term[1] == chain]
                if init and parent_chain(init[0].term[2]) == srcp:
                    pass
                else:
                    if not init or not (init[0].term[2][0] == "bag" and len(init[0].term[2][1]) == 1 and init[0].term[2][1][0][1] == srcp):
                        pr.append("the source's ancestor chain does not start with the source group itself")
                    apps = [e for e in gs.of_kind("call") if e.term[1] == ("attr", chain, "append")]
                    if not apps or not any(i[1] == ("while",) for i in apps[0].iters):
                        pr.append("the source's ancestor chain is not extended by every parent")
            okret = any(r.term[0] == "tuple" and len(r.term[1]) == 3 and r.term[1][0] == look.term and r.term[1][2] == destp for r in rts)
            if not okret:
                pr.append("does not return (index of the common group in the source chain, descent, common group)")
            climbs = [e for e in gs.of_kind("bind") if e.term[1] == destp and e.term[2] == ("attr", destp, "parent")]
            if not climbs:
                pr.append("the destination side never climbs to its parent")
            else:
                if ("attr", destp, "parent") not in guard_terms(climbs[0].guards):
                    pr.append("the destination climbs to its parent although it has none / stops although it has one (guard of the climb is not `dest.parent`)")
                if not any(i[1] == ("while",) and T.strip(i[2]) == T.const(True) for i in climbs[0].iters):
                    pr.append("the search for the common group is not repeated until it is found")
        else:
            # form B: the candidates are iterated over the destination's parent chain
            if parent_chain(chain) != srcp:
                init = [e for e in gs.of_kind("bind") if e.term[1] == chain]
                if not init or parent_chain(init[0].term[2]) != srcp:
                    pr.append("the source's ancestor chain is not [src] extended by every parent")
            it = look.iters[-1] if look.iters else None
            src_it = T.strip(it[2]) if it is not None else None
            counter = None
            if src_it is not None and src_it[0] == "call" and src_it[1] == T.glob("enumerate") and len(src_it[2]) == 1 and it[1][0] == "tuple" and len(it[1][1]) == 2:
                counter, loopvar, src_it = it[1][1][0], it[1][1][1], T.strip(src_it[2][0])
            else:
                loopvar = it[1] if it is not None else None
            if it is None or loopvar != cand or parent_chain(src_it) != destp:
                pr.append("the candidates for the common group are not the destination group and its parents, innermost first")
            okret = any(r.term[0] == "tuple" and len(r.term[1]) == 3 and r.term[1][0] == look.term and r.term[1][2] == cand and (counter is None or r.term[1][1] == counter) for r in rts)
            if not okret:
                pr.append("does not return (index of the common group in the source chain, descent, common group)")
        if not any(r == "body" for _, r in look.tries) and ("cmp", "in", look.term[2][0], look.term[1][1]) not in guard_terms(look.guards):
            pr.append("a destination group that is not an ancestor of the source ends the search (ValueError not handled)")
    c.add("group_path", GROUP_PATH, "ascent = index of first common ancestor", VIOLATED if pr else DISCHARGED, "; ".join(pr), gfi.loc)


def _table_form(ctx, gs, gfi, srcp, destp, rts, parent_chain, climber, pr) -> bool:
    """Form D of group_path: a table {group: levels above the source} over the source's parent chain (filled while climbing, or a
    dict comprehension over enumerate(chain)), probed with the destination group and its parents, innermost first (`c in table`,
    `table.get(c)`, `table[c]`); the result is (table[c], descent, c) for the first candidate found.  Returns False when the function
    is not of this form at all (nothing is appended to pr then); True when it is, with every deviation appended to pr."""
    def level_table(t, depth=0):
        t0 = T.strip(t)
        if depth > 3:
            return None
        if t0[0] == "var":
            fl = [e for e in gs.of_kind("store") if e.term[1][0] == "idx" and e.term[1][1] == t0 and e.iters]
            if fl:
                f = fl[0]
                empty_init = any(b.term[1] == t0 and T.strip(b.term[2]) == ("dict", ()) and not b.iters for b in gs.of_kind("bind"))
                counted = f.term[2] == call(T.glob("len"), t0)
                return "ok" if (empty_init and counted and climber(f.term[1][2], srcp, f)) else "bad"
            b = [e for e in gs.of_kind("bind") if e.term[1] == t0 and not e.iters]
            if len(b) == 1:
                return level_table(b[0].term[2], depth + 1)
            return None
        if t0[0] == "bag" and len(t0) > 2 and t0[2] == "dict" and len(t0[1]) == 1:
            el = t0[1][0]
            if el[1][0] == "pair" and len(el[3]) == 1:
                it = el[3][0]
                src_it = T.strip(it[2])
                if src_it[0] == "call" and src_it[1] == T.glob("enumerate") and len(src_it[2]) == 1 and it[1][0] == "tuple" and len(it[1][1]) == 2:
                    av, gv = it[1][1]
                    ok = el[1][1] == gv and el[1][2] == av and not el[2] and parent_chain(src_it[2][0]) == srcp
                    return "ok" if ok else "bad"
            return "bad"
        return None

    # the result: (table[c] | table.get(c), descent, c)
    found = None
    for r in rts:
        if not (r.term[0] == "tuple" and len(r.term[1]) == 3):
            continue
        first = unalias(r.term[1][0], gs, gfi)
        c = r.term[1][2]
        tab = None
        if first[0] == "idx":
            tab, key = first[1], first[2]
        elif first[0] == "call" and first[1][0] == "attr" and first[1][2] == "get" and len(first[2]) == 1:
            tab, key = first[1][1], first[2][0]
        if tab is None:
            continue
        kind = level_table(tab)
        if kind is None:
            continue
        found = (r, first, tab, key, c, kind)
        break
    if found is None:
        return False
    r, first, tab, key, c, kind = found
    if kind == "bad":
        pr.append("the table of ancestors is not filled with the source group and every parent, numbered from 0")
    if key != c:
        pr.append(f"the level returned is looked up for {T.show(key)[:40]}, not for the common group {T.show(c)[:40]} that is returned")
    # membership: the result is returned only for a candidate that is in the table
    gts = [unalias(x, gs, gfi) for x in guard_terms(r.guards)]
    getc = call(("attr", tab, "get"), c)
    tabs = {tab, T.strip(unalias(tab, gs, gfi))}
    member = any((x[0] == "cmp" and x[1] == "in" and x[2] == c and (x[3] in tabs or T.strip(unalias(x[3], gs, gfi)) in tabs))
                 or (x[0] == "cmp" and x[1] == "isnot" and x[3] == T.NONE and x[2][0] == "call" and x[2][1][0] == "attr" and x[2][1][2] == "get" and x[2][2] == (c,))
                 for x in gts)
    if not member:
        pr.append("the result is not tied to the candidate being one of the source's ancestors (no membership test guards the return)")
    # candidates: the destination and its parents, innermost first
    if c == destp:
        climbs = [e for e in gs.of_kind("bind") if e.term[1] == destp and e.term[2] == ("attr", destp, "parent")]
        if not climbs or not any(i[1] == ("while",) for i in climbs[0].iters):
            pr.append("the destination side never climbs to its parent")
        else:
            has_parent = [x for x in guard_terms(climbs[0].guards) if x in (("attr", destp, "parent"), ("cmp", "isnot", ("attr", destp, "parent"), T.NONE))]
            if not has_parent:
                pr.append("the destination climbs to its parent although it has none / stops although it has one (guard of the climb is not `dest.parent`)")
    else:
        it = r.iters[-1] if r.iters else None
        src_it = T.strip(it[2]) if it is not None else None
        loopvar = it[1] if it is not None else None
        if src_it is not None and src_it[0] == "call" and src_it[1] == T.glob("enumerate") and len(src_it[2]) == 1 and it[1][0] == "tuple" and len(it[1][1]) == 2:
            loopvar, src_it = it[1][1][1], T.strip(src_it[2][0])
        if it is None or loopvar != c or parent_chain(src_it) != destp:
            pr.append("the candidates for the common group are not the destination group and its parents, innermost first")
    if not any(e.kind == "raise" for e in gs.events):
        pr.append("two groups without a common ancestor do not raise")
    return True


from ..report import VIOLATED, DISCHARGED  # noqa: E402
from ..terms import call  # noqa: E402
