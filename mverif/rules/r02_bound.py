"""R2 BOUND — completeness of the lower bounds computed by advance_progress / get_max_advance,
including the INFLIGHT sub-rule (a step that has been popped from the heap but is not finished
yet must still be visible in every bound that speaks about "the earliest unfinished step")."""
from __future__ import annotations

from typing import Dict, List, Optional, Set, Tuple

from .base import *  # noqa: F401,F403
from .. import boolfn
from ..flow import inline_calls, uninl

ADV = "mosaik.scheduler.advance_progress"
MAXADV = "mosaik.scheduler.get_max_advance"
SIMPROC = "mosaik.scheduler.sim_process"

MIN_INSTANCES = 9


def run(ctx: Ctx) -> Collector:
    c = Collector("R2")
    holder, heap = discover_inflight_pair(ctx, c)
    _advance_progress(ctx, c, holder, heap)
    _max_advance(ctx, c, holder, heap)
    return c


def discover_inflight_pair(ctx: Ctx, c: Optional[Collector] = None) -> Tuple[str, str]:
    """The pending-step representation {heap field, in-flight holder field} is discovered from
    the statement `x.<holder> = heappop(x.<heap>)` in sim_process."""
    s = ctx.summ(SIMPROC)
    fi = ctx.func(SIMPROC)
    for e in s.of_kind("store"):
        tgt, val = e.term[1], e.term[2]
        take = None
        if val[0] == "call" and val[1] == T.glob("heapq.heappop") and len(val[2]) == 1 and val[2][0][0] == "attr" and tgt[0] == "attr" and tgt[1] == val[2][0][1]:
            take, heap_t = "heappop", val[2][0]
        elif val[0] == "call" and val[1][0] == "attr" and val[1][2] == "pop" and val[1][1][0] == "attr" and tgt[0] == "attr" and tgt[1] == val[1][1][1] and val[2] in ((T.const(0),), ()):
            take, heap_t = ("pop(0)" if val[2] else "pop()"), val[1][1]
        if take is not None:
            holder, heap = tgt[2], heap_t[2]
            # suspension points between the pop and the clearing of the holder
            g = ctx.cfg(SIMPROC)
            clears = [x for x in s.of_kind("store") if x.term[1] == tgt and x.term[2] == T.NONE]
            if c is not None:
                # how the queue is filled decides how its minimum may be taken
                pushes = set()
                for f2 in analysis_units(ctx.prog):
                    for x in summarise(ctx.prog, f2).of_kind("call"):
                        a0 = x.term[2][0] if x.term[2] else None
                        if a0 is not None and a0[0] == "attr" and a0[2] == heap:
                            if x.term[1] == T.glob("heapq.heappush"):
                                pushes.add("heappush")
                            elif x.term[1][0] == "glob" and x.term[1][1].startswith("bisect.insort"):
                                pushes.add("insort")
                        if x.term[1][0] == "attr" and x.term[1][2] in ("append", "insert") and x.term[1][1][0] == "attr" and x.term[1][1][2] == heap:
                            pushes.add(x.term[1][2])
                c.info["queue_discipline"] = sorted(pushes) + [take]
                if not clears:
                    c.bad("INFLIGHT", SIMPROC, f"holder={holder} heap={heap}", "the in-flight holder is never cleared after the step", ctx.loc(fi, e))
                elif take != "heappop" and "heappush" in pushes:
                    c.bad("INFLIGHT", SIMPROC, f"holder={holder} heap={heap}", f"{heap} is filled with heappush (a binary heap: only element 0 is in place) but the next step is taken with list.{take}: "
                          "what remains is not a heap, so a later step can end up in front of an earlier pending one, which is then hidden from the progress bounds and from the wait set", ctx.loc(fi, e))
                elif take == "heappop" and pushes - {"heappush"}:
                    c.bad("INFLIGHT", SIMPROC, f"holder={holder} heap={heap}", f"{heap} is filled with {sorted(pushes - {'heappush'})} but taken with heappop: the heap invariant is not maintained", ctx.loc(fi, e))
                elif take == "pop()":
                    c.bad("INFLIGHT", SIMPROC, f"holder={holder} heap={heap}", "the *last* element of the queue is taken as the next step", ctx.loc(fi, e))
                else:
                    sus = g.suspension_between(g.key(e.stmt), g.key(clears[0].stmt))
                    c.ok("INFLIGHT", SIMPROC, f"holder={holder} heap={heap}", f"pop at line {e.lineno}, cleared at line {clears[0].lineno}, {len(sus)} suspension point(s) in between (other tasks observe the heap without its minimum)", ctx.loc(fi, e))
                    c.info["inflight_suspensions"] = len(sus)
            return holder, heap
    raise AnalysisError("R2: no statement `x.<holder> = heappop(x.<heap>)` in sim_process: cannot discover the pending-step representation")


# --------------------------------------------------------------------------- pending-step abstraction
class Crash(Exception):
    pass


def _mk_truthy(subject: Term, holder: str, heap: str, atoms: Dict[str, bool], free: Optional[Dict[Term, bool]] = None, collect: Optional[set] = None):
    cur = ("attr", subject, holder)
    hp = ("attr", subject, heap)

    def outcome(t: Term):
        t = T.strip(t)
        if t[0] == "inl":
            return outcome(t[2])
        if t == T.NONE:
            return frozenset(["none"])
        if t == cur:
            return frozenset(["cur"]) if atoms["C"] else frozenset(["none"])
        if t == ("idx", hp, T.const(0)):
            if not atoms["H"]:
                raise Crash("reads %s[0] of an empty heap" % heap)
            return frozenset(["heap"])
        if t[0] == "idx" and t[1] == hp:
            return frozenset([f"other:{heap}[{T.show(t[2])}] (not the heap minimum)"])
        if t[0] == "attr" and t[1] == subject and t[2] not in (holder, heap):
            return frozenset([f"other:{t[2]} (not a pending step)"])
        if t[0] == "ifexp":
            return outcome(t[2]) if ev(t[1]) else outcome(t[3])
        if t[0] == "phi":
            return outcome(t[2]) if ev(t[1]) else outcome(t[3])
        if t[0] == "agg" and t[1] == "min":
            outs = set()
            for e in t[2][1]:
                if all(ev(g[1]) == g[2] for g in e[2]):
                    o = outcome(e[1])
                    if o is None:
                        return None
                    outs |= o
            outs.discard("none") if len(outs) > 1 else None
            return frozenset(outs)
        return None

    def ev(t: Term) -> bool:
        return boolfn.evaluate(t, {}, truthy)

    def truthy(t: Term) -> Optional[bool]:
        if t[0] == "inl":
            return truthy(t[2])
        if t == cur:
            return atoms["C"]
        if t == hp:
            return atoms["H"]
        if t[0] == "cmp" and t[1] in ("is", "isnot", "==", "!="):
            a, b = t[2], t[3]
            if a == T.NONE:
                a, b = b, a
            if b == T.NONE:
                o = outcome(a)
                if o is None:
                    return None
                isnone = o == frozenset(["none"])
                return isnone if t[1] in ("is", "==") else not isnone
        if t[0] == "cmp" and t[1] in ("<", "<=", "!=", "=="):
            ln = call(T.glob("len"), hp)
            if t == T.canon_cmp("<", T.const(0), ln) or t == T.canon_cmp("<=", T.const(1), ln) or t == T.canon_cmp("!=", ln, T.const(0)):
                return atoms["H"]
            if t == T.canon_cmp("==", ln, T.const(0)):
                return not atoms["H"]
        if t == call(T.glob("len"), hp):
            return atoms["H"]
        if t == call(T.glob("bool"), hp):
            return atoms["H"]
        o = outcome(t)
        if o is not None:
            return o != frozenset(["none"])
        # a condition that is neither about the holder nor about the heap: a free atom
        if t[0] in ("and", "or", "not", "const"):
            return None
        leaf, pol = boolfn.canon_leaf(t)
        if leaf != t:
            v = truthy(leaf)
            return None if v is None else (v == pol)
        if collect is not None:
            collect.add(leaf)
            return False
        if free is not None and leaf in free:
            return free[leaf]
        return None

    return outcome, ev


def pending_table(elems, subject: Term, holder: str, heap: str, unwrap) -> Tuple[Optional[Dict[Tuple[bool, bool], Set[str]]], str]:
    """For each state (C = holder set, H = heap non-empty) the set of pending-step sources
    that enter the bound through `elems` (already filtered to the ones about `subject`).
    `unwrap(term)` strips the arithmetic around the pending step (+ distance, .time, - 1)."""
    table: Dict[Tuple[bool, bool], Set[str]] = {}
    # conditions that are neither about the holder nor about the heap are free atoms: the
    # requirement must hold for every value of them
    collect: set = set()
    for C in (False, True):
        for H in (False, True):
            outcome, ev = _mk_truthy(subject, holder, heap, {"C": C, "H": H}, None, collect)
            try:
                for term, guards in elems:
                    for g in guards:
                        ev(g[1])
                    outcome(unwrap(term))
            except (Crash, boolfn.NotBoolean):
                pass
    free_leaves = sorted(collect, key=repr)
    if len(free_leaves) > 4:
        return None, "too many unrelated conditions in the pending-step expression"
    import itertools
    for C in (False, True):
        for H in (False, True):
          merged: Optional[Set[str]] = None
          for vals in itertools.product([False, True], repeat=len(free_leaves)):
            free = dict(zip(free_leaves, vals))
            atoms = {"C": C, "H": H}
            outcome, ev = _mk_truthy(subject, holder, heap, atoms, free)
            present: Set[str] = set()
            try:
                for term, guards in elems:
                    if not all(ev(g[1]) == g[2] for g in guards):
                        continue
                    core = unwrap(term)
                    o = outcome(core)
                    if o is None:
                        return None, f"term {T.show(core)} not understood as a pending-step expression"
                    if o == frozenset(["none"]):
                        raise Crash(f"uses None as a time when holder {'set' if C else 'unset'} and heap {'non-empty' if H else 'empty'}")
                    present |= set(o)
            except Crash as e:
                present = {"crash:" + str(e)}
            except boolfn.NotBoolean as e:
                return None, f"guard not understood: {e}"
            if free_leaves:
                tag = ", ".join(("" if v else "not ") + T.show(l) for l, v in free.items())
                # keep the weakest case: what is guaranteed for every value of the free atoms
                if merged is None:
                    merged = set(present)
                    worst = tag
                else:
                    crashes = {p for p in merged | present if p.startswith("crash:")}
                    merged = (merged & present) | crashes
            else:
                merged = present
          table[(C, H)] = merged if merged is not None else set()
    return table, ""


def judge_pending(table: Dict[Tuple[bool, bool], Set[str]], need_inflight: bool, holder: str, heap: str) -> List[str]:
    problems = []
    for (C, H), present in sorted(table.items()):
        crashes = [p for p in present if p.startswith("crash:")]
        state = f"[{holder} {'set' if C else 'None'}, {heap} {'non-empty' if H else 'empty'}]"
        if crashes:
            problems.append(f"{state}: {crashes[0][6:]}")
            continue
        others = [p for p in present if p.startswith("other:")]
        if others:
            problems.append(f"{state}: the bound uses {others[0][6:]}")
            continue
        if need_inflight and C and "cur" not in present:
            problems.append(f"{state}: the step in flight ({holder}) does not enter the bound; it depends on {heap} only" if H or present else
                            f"{state}: the step in flight ({holder}) does not enter the bound")
        if H and not C and "heap" not in present:
            problems.append(f"{state}: the earliest scheduled step ({heap}[0]) does not enter the bound")
        if H and C and not need_inflight and "heap" not in present:
            problems.append(f"{state}: the earliest scheduled step ({heap}[0]) does not enter the bound")
        if not C and not H and present:
            problems.append(f"{state}: a term enters the bound although no step is pending")
    return problems


def _peel_offset(t: Term) -> Tuple[Term, int]:
    off = 0
    while t[0] == "op" and t[1] in ("+", "-") and t[3][0] == "const" and isinstance(t[3][1], int) and not isinstance(t[3][1], bool):
        off += t[3][1] if t[1] == "+" else -t[3][1]
        t = t[2]
    return t, off


def _min_bag(t: Term) -> Tuple[Optional[Term], int, str]:
    """sink expression -> (bag, outer integer offset, aggregator name)"""
    t = T.strip(t)
    if t[0] == "op" and t[1] == "-" and t[2][0] == "const" and t[3][0] == "agg":
        return t[3][2], 0, "negated " + t[3][1]
    t, off = _peel_offset(t)
    if t[0] == "agg":
        bag = t[2]
        # min(min(X) - 1, u) is min over {x - 1 for x in X} and u: an unconditional inner min is flattened, its offset goes to its
        # terms; then one common offset is taken out again (x - 1, u  ==  (x, u + 1) - 1)
        if t[1] == "min" and T.strip(bag)[0] == "bag":
            b = T.strip(bag)
            flat = []
            changed = False
            for el in b[1]:
                it, ioff = _peel_offset(T.strip(el[1]))
                it = T.strip(it)
                if it[0] == "agg" and it[1] == "min" and not it[3] and T.strip(it[2])[0] == "bag":
                    for el2 in T.strip(it[2])[1]:
                        tm = el2[1] if ioff == 0 else ("op", "+" if ioff > 0 else "-", el2[1], T.const(abs(ioff)))
                        flat.append(("elem", tm, tuple(el[2]) + tuple(el2[2]), tuple(el[3]) + tuple(el2[3])))
                    changed = True
                else:
                    flat.append(el)
            if changed:
                if off == 0:
                    offs = [_peel_offset(T.strip(el[1]))[1] for el in flat]
                    common = min(offs)
                    if common != 0:
                        flat2 = []
                        for el in flat:
                            base, o = _peel_offset(T.strip(el[1]))
                            o -= common
                            flat2.append(("elem", base if o == 0 else ("op", "+" if o > 0 else "-", base, T.const(abs(o))), el[2], el[3]))
                        flat, off = flat2, common
                bag = ("bag", tuple(flat)) + tuple(b[2:])
        return bag, off, t[1]
    return None, off, ""


# --------------------------------------------------------------------------- advance_progress
def _advance_progress(ctx: Ctx, c: Collector, holder: str, heap: str) -> None:
    fi = ctx.func(ADV)
    s = ctx.summ(ADV)
    sim = T.var(param_by_annotation(fi, "SimRunner", 0))
    world = T.var(param_by_annotation(fi, "World", 1))
    sets = [e for e in s.of_kind("call") if e.term[1] == ("attr", ("attr", sim, "progress"), "set")]
    if not sets:
        c.bad("sink", ADV, "progress.set", "the simulator's progress is never set", fi.loc)
        return
    ev = sets[-1]
    if ev.guards or ev.iters:
        c.bad("sink", ADV, "progress.set", "progress.set is conditional" + show_ctx(ev.guards, ev.iters), ctx.loc(fi, ev))
    arg = ev.term[2][0] if ev.term[2] else T.NONE
    arg = inline_calls(ctx.prog, fi.module.name, arg)
    bag, off, aggname = _min_bag(arg)
    if bag is None:
        c.unk("sink", ADV, "progress.set", f"argument {T.show(arg)[:200]} is not a min(...) expression", ctx.loc(fi, ev))
        return
    if aggname != "min":
        c.bad("sink", ADV, "progress.set", f"the progress is the {aggname} of its terms, it must be their min (a lower bound)", ctx.loc(fi, ev))
        return
    if off != 0:
        c.bad("sink", ADV, "progress.set", f"the bound is shifted by {off}", ctx.loc(fi, ev))
    c.ok("sink", ADV, "progress.set", f"min over {len(bag[1])} term group(s)", ctx.loc(fi, ev))
    c.info["advance_progress_terms"] = [T.show(e)[:200] for e in bag[1]]
    loc = ctx.loc(fi, ev)

    rest = list(bag[1])
    # ---- ancestor terms
    anc = []
    for e in list(rest):
        for it in e[3]:
            dec = items_iter(it)
            if dec is not None and dec[0] == ("attr", sim, "triggering_ancestors"):
                anc.append((e, dec))
                rest.remove(e)
                break
    if not anc:
        c.bad("anc", ADV, "ancestor-term", f"no min-term ranges over {T.show(sim)}.triggering_ancestors: steps that ancestors may still trigger do not bound the progress", loc)
    else:
        problems: List[str] = []
        elems = []
        subj = None
        for e, (tab, kvar, vvar, form) in anc:
            if kvar is None or len(e[3]) != 1:
                problems.append("the iteration does not bind the ancestor and its distance")
                continue
            subj = kvar
            term = e[1]
            if not (term[0] == "op" and term[1] == "+" and term[3] == vvar):
                if term[0] == "op" and term[1] == "+" and term[2] == vvar:
                    problems.append(f"operands of the path sum are swapped in {T.show(uninl(term))[:120]}")
                else:
                    problems.append(f"term {T.show(uninl(term))[:120]} does not add the distance {T.show(vvar)} of the same table entry")
                continue
            elems.append((term[2], e[2]))
        if elems and subj is not None:
            table, why = pending_table(elems, subj, holder, heap, lambda t: t)
            if table is None:
                c.unk("anc", ADV, "ancestor-term", why, loc)
            else:
                problems += judge_pending(table, True, holder, heap)
        if problems:
            c.bad("anc", ADV, "ancestor-term", "; ".join(problems), loc)
        elif elems:
            c.ok("anc", ADV, "ancestor-term", "pending(anc) + distance for every triggering ancestor; pending sees the in-flight step and the heap minimum", loc)

    # ---- own terms
    own = [e for e in rest if not e[3] and (T.fields_of(inline_or(e), sim) & {holder, heap}) and not _is_until(e[1], sim, world)]
    for e in own:
        rest.remove(e)
    if not own:
        c.bad("own", ADV, "own-steps", f"neither {T.show(sim)}.{heap}[0] nor {T.show(sim)}.{holder} enters the bound", loc)
    else:
        table, why = pending_table([(e[1], e[2]) for e in own], sim, holder, heap, lambda t: t)
        if table is None:
            c.unk("own", ADV, "own-steps", why, loc)
        else:
            pr = judge_pending(table, True, holder, heap)
            if pr:
                c.bad("own", ADV, "own-steps", "; ".join(pr), loc)
            else:
                c.ok("own", ADV, "own-steps", "own in-flight step and own earliest scheduled step bound the progress", loc)

    # ---- until
    unt = [e for e in rest if _is_until(e[1], sim, world)]
    for e in unt:
        rest.remove(e)
    if not unt:
        c.bad("until", ADV, "until-term", "TieredTime(until) + from_world_time is not among the min-terms: waits for times after the last step are never released", loc)
    elif any(e[2] or e[3] for e in unt):
        c.bad("until", ADV, "until-term", "the until term is conditional", loc)
    else:
        c.ok("until", ADV, "until-term", T.show(unt[0][1]), loc)

    # ---- real-time term
    rtf = ("attr", world, "rt_factor")
    rt = [e for e in rest if any(x == T.glob("time.perf_counter") or x == T.glob("perf_counter") for x in T.subterms(e[1]))]
    for e in rt:
        rest.remove(e)
    if not rt:
        c.bad("rt", ADV, "rt-term", "no real-time term: in real-time mode nothing holds the progress back to wall-clock time", loc)
    else:
        e = rt[0]
        gts = guard_terms(e[2])
        pr = []
        if gts != [rtf]:
            pr.append(f"guarded by {[T.show(x) for x in gts]} instead of world.rt_factor")
        ELAPSED = ("op", "-", call(T.glob("time.perf_counter")), ("attr", sim, "rt_start"))
        divs = [x for x in T.subterms(e[1]) if x[0] == "op" and x[1] == "/" and x[3] == rtf]
        # ceil as -(-a // b)
        def _unint(y: Term) -> Term:
            y = T.strip(y)
            return T.strip(y[2][0]) if y[0] == "call" and y[1] == T.glob("int") and len(y[2]) == 1 else y
        fdivs = [x for x in T.subterms(e[1]) if x[0] == "unop" and x[1] == "-" and _unint(x[2])[0] == "op" and _unint(x[2])[1] == "//" and _unint(x[2])[3] == rtf
                 and T.strip(_unint(x[2])[2]) == ("unop", "-", ELAPSED)]
        rounding_unknown = False
        if fdivs:
            pass
        elif not divs:
            pr.append("elapsed wall-clock time is not divided by world.rt_factor")
        elif T.strip(divs[0][2]) != ELAPSED:
            pr.append(f"elapsed time is {T.show(divs[0][2])[:60]} instead of perf_counter() - sim.rt_start")
        else:
            # the quotient is rounded *up*: a step for time t may begin once (t - 1) * rt_factor seconds have passed; rounded down,
            # it begins a whole rt_factor late and every simulator -- however fast -- is reported as too slow
            wraps = [x for x in T.subterms(e[1]) if x[0] == "call" and len(x[2]) >= 1 and T.strip(x[2][0]) == divs[0]]
            names = [w[1][1].rsplit(".", 1)[-1] if w[1][0] == "glob" else (w[1][2] if w[1][0] == "attr" else "?") for w in wraps]
            if "ceil" in names:
                pass
            elif any(n in ("int", "floor", "round", "trunc") for n in names) or any(x[0] == "op" and x[1] == "//" and x[3] == rtf for x in T.subterms(e[1])):
                pr.append("the elapsed simulation time is rounded down instead of up: a step begins a whole rt_factor late, and a simulator that answers instantly is reported as too slow")
            else:
                rounding_unknown = True
        if not pr and rounding_unknown:
            c.unk("rt", ADV, "rt-term", f"rounding of the elapsed simulation time not understood in {T.show(e[1])[:100]}", loc)
        elif pr:
            c.bad("rt", ADV, "rt-term", "; ".join(pr), loc)
        else:
            c.ok("rt", ADV, "rt-term", T.show(e[1])[:160] + " if world.rt_factor", loc)

    for e in rest:
        c.unk("extra", ADV, "extra-term:" + T.show(uninl(e[1]))[:80], "min-term of unknown meaning lowers the progress bound", loc)


def inline_or(e: Term) -> Term:
    return e


def _is_until(t: Term, sim: Term, world: Term) -> bool:
    t = T.strip(t)
    return (t[0] == "op" and t[1] == "+" and t[3] == ("attr", sim, "from_world_time") and t[2][0] == "call"
            and t[2][1][0] == "glob" and t[2][1][1].endswith("TieredTime") and len(t[2][2]) == 1
            and t[2][2][0] in (("attr", world, "until"), T.var("until")))


# --------------------------------------------------------------------------- get_max_advance
def _max_advance(ctx: Ctx, c: Collector, holder: str, heap: str) -> None:
    fi = ctx.func(MAXADV)
    s = ctx.summ(MAXADV)
    sim = T.var(param_by_annotation(fi, "SimRunner", 1))
    world = T.var(param_by_annotation(fi, "World", 0))
    until_names = [p for p in fi.params if p == "until"]
    untils = [("attr", world, "until")] + [T.var(p) for p in until_names]
    rets = [r for r in s.returns]
    if not rets:
        c.bad("sink", MAXADV, "return", "get_max_advance returns nothing", fi.loc)
        return
    asserted = {T.strip(a.term[1]) for a in s.of_kind("assert") if not a.iters}
    if len(rets) > 1:
        # a special case split off the general one: `if not <terms>: return until` in front of `return min(<terms> ...) - 1`. The
        # general return is the sink (it must be complete by itself: with pending steps that all lie after `until`, the special
        # case does not apply); the special one may only return `until`
        general = [r0 for r0 in rets if any(x[0] == "agg" and x[1] in ("min", "max") for x in T.subterms((inline_calls(ctx.prog, fi.module.name, r0.term),)))]
        special = [r0 for r0 in rets if r0 not in general]
        ok_special = len(general) == 1 and all(
            T.strip(r0.term) in untils or T.strip(r0.term) == ("op", "-", ("op", "+", untils[-1], T.const(1)), T.const(1)) for r0 in special) and all(
            r0.guards and T.guard_term(r0.guards[-1])[0] == "not" and T.strip(T.guard_term(r0.guards[-1])[1])[0] in ("bag", "var") for r0 in special)
        if ok_special:
            drop = {T.negate(T.guard_term(r0.guards[-1])) for r0 in special} | {T.strip(T.guard_term(r0.guards[-1])[1]) for r0 in special}
            g0 = general[0]
            g0.guards = tuple(g for g in g0.guards if T.guard_term(g) not in drop)
            rets = [g0]
    if len(rets) != 1 or any(not (g[2] and T.strip(g[1]) in asserted) for g in rets[0].guards):
        c.unk("sink", MAXADV, "return", "more than one return / conditional return", fi.loc)
        return
    r = rets[0]
    loc = ctx.loc(fi, r)
    val = inline_calls(ctx.prog, fi.module.name, r.term)
    bag, off, aggname = _min_bag(val)
    if bag is None:
        c.unk("sink", MAXADV, "return", f"returned value {T.show(val)[:200]} is not a min(...) expression", loc)
        return
    if aggname != "min":
        c.bad("sink", MAXADV, "return", f"max_advance is the {aggname} of its terms; it must be their min", loc)
        return
    c.ok("sink", MAXADV, "return", f"min over {len(bag[1])} term group(s), offset {off}", loc)
    rest = list(bag[1])

    def time_of(t: Term) -> Optional[Term]:
        return t[1] if t[0] == "attr" and t[2] == "time" else (("idx", ("attr", t[1][1], "tiers"), T.const(0))[1][1] if False else None)

    # ancestors
    anc = []
    for e in list(rest):
        for it in e[3]:
            dec = items_iter(it)
            if dec is not None and dec[0] == ("attr", sim, "triggering_ancestors"):
                anc.append((e, dec))
                rest.remove(e)
                break
    if not anc:
        c.bad("anc", MAXADV, "ancestor-term", "no term ranges over sim.triggering_ancestors: steps triggered by ancestors do not limit max_advance", loc)
    else:
        problems: List[str] = []
        elems = []
        subj = None
        for e, (tab, kvar, vvar, form) in anc:
            if kvar is None or len(e[3]) != 1:
                problems.append("the iteration does not bind the ancestor and its distance")
                continue
            subj = kvar
            term, o = _peel_offset(e[1])
            if off + o != -1:
                problems.append(f"ancestor term is offset by {off + o}; the promise is 'no step in (t, m]', i.e. earliest triggered step - 1")
            core = time_of(term)
            if core is None:
                problems.append(f"term {T.show(uninl(term))[:120]} is not the main time (.time) of a tiered time")
                continue
            if not (core[0] == "op" and core[1] == "+" and core[3] == vvar):
                problems.append(f"term {T.show(uninl(core))[:120]} does not add the distance {T.show(vvar)} of the same table entry")
                continue
            elems.append((core[2], e[2]))
        if elems and subj is not None:
            table, why = pending_table(elems, subj, holder, heap, lambda t: t)
            if table is None:
                c.unk("anc", MAXADV, "ancestor-term", why, loc)
            else:
                problems += judge_pending(table, True, holder, heap)
        if problems:
            c.bad("anc", MAXADV, "ancestor-term", "; ".join(problems), loc)
        elif elems:
            c.ok("anc", MAXADV, "ancestor-term", "(pending(anc) + distance).time - 1 for every triggering ancestor; pending sees the in-flight step", loc)

    # own next step (typestate exemption: called between pop and step, the bound is on later steps)
    own = [e for e in rest if not e[3] and (T.fields_of(e, sim) & {holder, heap})]
    for e in own:
        rest.remove(e)
    if not own:
        c.bad("own", MAXADV, "own-next-step", f"sim.{heap}[0] does not limit max_advance", loc)
    else:
        pr = []
        elems = []
        for e in own:
            term, o = _peel_offset(e[1])
            if off + o != -1:
                pr.append(f"own-step term is offset by {off + o} instead of -1")
            core = time_of(term)
            if core is None:
                pr.append(f"term {T.show(term)[:100]} is not a main time")
                continue
            elems.append((core, e[2]))
        if elems:
            table, why = pending_table(elems, sim, holder, heap, lambda t: t)
            if table is None:
                c.unk("own", MAXADV, "own-next-step", why, loc)
                pr = None
            else:
                pr += judge_pending(table, False, holder, heap)
        if pr:
            c.bad("own", MAXADV, "own-next-step", "; ".join(pr), loc)
        elif pr is not None:
            c.ok("own", MAXADV, "own-next-step", "own earliest scheduled step - 1", loc)

    # until
    unt = []
    for e in list(rest):
        term, o = _peel_offset(e[1])
        if term in untils:
            unt.append((e, off + o))
            rest.remove(e)
    if not unt:
        c.bad("until", MAXADV, "until-term", "`until` is not among the terms: max_advance may exceed the end of the simulation", loc)
    else:
        e, o = unt[0]
        if e[2] or e[3]:
            c.bad("until", MAXADV, "until-term", "the until term is conditional", loc)
        elif o != 0:
            c.bad("until", MAXADV, "until-term", f"the until term is offset by {o} (max_advance must equal until when nothing else limits it)", loc)
        else:
            c.ok("until", MAXADV, "until-term", "until (net offset 0)", loc)
    for e in rest:
        c.unk("extra", MAXADV, "extra-term:" + T.show(uninl(e[1]))[:80], "term of unknown meaning in max_advance", loc)


from ..terms import call  # noqa: E402
