"""R18 FLAGS (debug part) — debug mode does not interfere with scheduling: the wrapper passes
arguments and result through, the hooks' write set is disjoint from what the scheduler reads,
the hooks mutate neither the step inputs nor scheduler state, and the World._debug flag only
selects enable()/disable() and the creation of the execution graph."""
from __future__ import annotations

import symtable
from typing import List, Set

from .base import *  # noqa: F401,F403

DBG = "mosaik._debug"
WRAPPED = "mosaik._debug.enable.wrapped_step"
HOOKS = ["mosaik._debug.pre_step", "mosaik._debug.post_step", WRAPPED]
MUTATORS = {"append", "add", "pop", "remove", "clear", "update", "setdefault", "set", "discard", "insert", "extend", "popitem",
            "schedule_step", "cancel", "heappush", "heappop"}
GRAPH_OK = {"add_node", "add_edge"}
MIN_INSTANCES = 5


def run(ctx: Ctx) -> Collector:
    c = Collector("R18")
    _wrapper(ctx, c)
    _write_sets(ctx, c)
    _flag(ctx, c)
    _global_step(ctx, c)
    return c


def _discover_wrapper(ctx: Ctx) -> None:
    """The wrapper is whatever function enable() installs as scheduler.step (nested in enable() in the pinned tree)."""
    global WRAPPED, HOOKS
    en = ctx.summ(DBG + ".enable")
    for e in en.of_kind("store"):
        if (e.term[1] == T.glob("mosaik.scheduler.step") or T.show(e.term[1]).endswith("scheduler.step")) and e.term[2][0] == "glob" and e.term[2][1] in ctx.prog.functions:
            WRAPPED = e.term[2][1]
            HOOKS = HOOKS[:2] + [WRAPPED]
            return
    WRAPPED = "mosaik._debug.enable.wrapped_step"
    HOOKS = HOOKS[:2] + [WRAPPED]


def _wrapper(ctx: Ctx, c: Collector) -> None:
    _discover_wrapper(ctx)
    fi = ctx.func(WRAPPED)
    s = ctx.summ(WRAPPED)
    ps = [T.var(p) for p in fi.params]
    pr = []
    orig = [e for e in s.of_kind("await") if e.term[0] == "call" and e.term[1][0] == "idx" and e.term[1][2] == T.const("step")]
    if not orig:
        pr.append("the original step is not awaited")
    else:
        o = orig[0]
        if o.term[2] != tuple(ps) or o.guards:
            pr.append(f"the original step is called with {T.show(o.term[2])[:80]} instead of the wrapper's four arguments, unconditionally")
        if len(s.returns) != 1 or s.returns[0].term != ("await", o.term):
            pr.append("the wrapper does not return the original step's result")
        pre = [e for e in s.of_kind("call") if e.term[1] == T.glob(DBG + ".pre_step")]
        post = [e for e in s.of_kind("call") if e.term[1] == T.glob(DBG + ".post_step")]
        if not pre or pre[0].idx > o.idx or not post or post[0].idx < o.idx:
            pr.append("pre_step / post_step do not bracket the original step")
    # the saved original is scheduler.step
    m = ctx.prog.modules[DBG]
    import ast
    saved = m.globals_assigned.get("_originals")
    oks = isinstance(saved, ast.Dict) and any(isinstance(k, ast.Constant) and k.value == "step" and ast.unparse(v) == "scheduler.step" for k, v in zip(saved.keys, saved.values))
    if not oks:
        pr.append("_originals['step'] is not scheduler.step")
    en = ctx.summ(DBG + ".enable")
    st = [e for e in en.of_kind("store") if e.term[1] == T.glob("mosaik.scheduler.step") or T.show(e.term[1]).endswith("scheduler.step")]
    if not st or st[0].term[2] != T.glob(WRAPPED):
        pr.append("enable() does not install the wrapper as scheduler.step")
    c.add("wrapper", WRAPPED, "arguments and result passed through; pre/post bracket the step", VIOLATED if pr else DISCHARGED, "; ".join(pr), fi.loc)


def _write_sets(ctx: Ctx, c: Collector) -> None:
    prog = ctx.prog
    # fields read by the scheduler side
    reads: Set[str] = set()
    for fi in analysis_units(prog):
        if fi.module.name in (DBG, "mosaik.util"):
            continue
        s = summarise(prog, fi)
        for e in s.events:
            terms = [e.term[2]] if e.kind in ("store", "bind") else [e.term]
            if e.kind == "store":
                terms.append(e.term[1][1] if e.term[1][0] in ("attr", "idx") else ())
            for t in terms + [g[1] for g in e.guards]:
                for b, f in T.field_reads(t):
                    reads.add(f)
    pr: List[str] = []
    n = 0
    for qn in HOOKS:
        fi = ctx.func(qn)
        s = ctx.summ(qn)
        inputs = T.var("inputs") if "inputs" in fi.params else None
        for e in s.events:
            if e.kind == "store":
                tgt = e.term[1]
                n += 1
                if tgt[0] == "attr":
                    root = T.path_root(tgt)
                    if root is not None and root[0] == "var" and root[1] in ("sim", "world") and tgt[2] in reads:
                        pr.append(f"{qn.rsplit('.', 1)[-1]} writes {T.show(tgt)}, which the scheduler reads")
                if inputs is not None and T.path_root(tgt) == inputs:
                    pr.append(f"{qn.rsplit('.', 1)[-1]} writes into the step inputs")
            elif e.kind == "del" and inputs is not None and T.path_root(e.term[1]) == inputs:
                pr.append(f"{qn.rsplit('.', 1)[-1]} deletes from the step inputs")
            elif e.kind == "call" and e.term[1][0] == "attr" and e.term[1][2] in MUTATORS:
                recv = e.term[1][1]
                root = T.path_root(recv)
                n += 1
                if root is not None and root[0] == "var" and root[1] in ("sim", "world", "sims", "inputs") and "execution_graph" not in T.show(recv):
                    pr.append(f"{qn.rsplit('.', 1)[-1]} calls {T.show(e.term)[:60]} on scheduler state / the step inputs")
            elif e.kind == "call" and e.term[1][0] == "glob" and e.term[1][1] in ("heapq.heappush", "heapq.heappop", "mosaik.scheduler.advance_progress", "mosaik.scheduler.notify_dependencies"):
                pr.append(f"{qn.rsplit('.', 1)[-1]} calls {e.term[1][1]}")
            elif e.kind == "await" and qn != WRAPPED:
                pr.append(f"{qn.rsplit('.', 1)[-1]} suspends")
    c.add("noninterference", DBG, "hook write set disjoint from scheduler reads; inputs not mutated", VIOLATED if pr else DISCHARGED, "; ".join(pr[:5]), "")
    c.info["hook_effects"] = n
    # inputs recorded by deep copy
    ps = ctx.summ(DBG + ".pre_step")
    rec = [e for e in ps.of_kind("call") if e.term[1][0] == "attr" and e.term[1][2] == "add_node"]
    okc = bool(rec) and dict(rec[0].term[3]).get("inputs") in (call(T.glob("copy.deepcopy"), T.var("inputs")),)
    c.check(okc, "noninterference", DBG + ".pre_step", "inputs recorded as a deep copy", "the step inputs are stored in the execution graph by reference (the simulator may mutate them later; debug and non-debug runs then differ in what is recorded)", ctx.func(DBG + ".pre_step").loc)


def _flag(ctx: Ctx, c: Collector) -> None:
    pr = []
    for fi in analysis_units(ctx.prog):
        s = summarise(ctx.prog, fi)
        for e in s.events:
            uses_guard = any(x[0] == "attr" and x[2] == "_debug" and x[1] == T.var("self") for x in T.subterms(e.guards))
            uses_term = any(x[0] == "attr" and x[2] == "_debug" and x[1] == T.var("self") for x in T.subterms(e.term))
            if fi.qualname == "mosaik.scenario.World.__init__":
                continue
            # display only: the flag shown in a repr / str or a log line selects nothing
            if fi.name in ("__repr__", "__str__") or (e.kind == "call" and T.show(e.term[1]).startswith(("logger.", "warnings.warn"))) or (uses_term and not uses_guard and e.term[0] == "fstr"):
                continue
            if uses_guard:
                okg = e.kind == "call" and (e.term[1] in (T.glob(DBG + ".enable"), T.glob(DBG + ".disable"), ("attr", T.glob(DBG), "enable"), ("attr", T.glob(DBG), "disable")))
                if not okg:
                    pr.append(f"{fi.qualname}: `{T.show(e.term)[:50]}` depends on the debug flag")
            elif uses_term and e.kind != "test":
                pr.append(f"{fi.qualname}: the debug flag flows into `{T.show(e.term)[:50]}`")
    wi = ctx.summ("mosaik.scenario.World.__init__")
    dbg_guarded = [e for e in wi.events if any(T.guard_term(g) == T.var("debug") for g in e.guards)]
    for e in dbg_guarded:
        okk = (e.kind == "store" and e.term[1][0] == "attr" and e.term[1][2] in ("_debug", "execution_graph")) or (e.kind == "call" and ("warning" in T.show(e.term[1]) or "DiGraph" in T.show(e.term[1])))
        if not okk:
            pr.append(f"World.__init__: `{T.show(e.term)[:50]}` depends on the debug argument")
    c.add("flag", "mosaik.*", "World._debug only selects enable()/disable() and the execution graph", VIOLATED if pr else DISCHARGED, "; ".join(pr[:4]), "")


def _global_step(ctx: Ctx, c: Collector) -> None:
    """enable() replaces the module attribute scheduler.step: whoever performs the step (sim_process, or a helper that a later
    change split off it) must look the name up as a module global at call time."""
    import ast as _ast
    m = ctx.prog.modules["mosaik.scheduler"]
    st = symtable.symtable(m.src, m.path, "exec")
    tabs = {ch.get_name(): ch for ch in st.get_children() if ch.get_type() == "function"}
    callers = []
    for node in m.tree.body:
        if isinstance(node, (_ast.FunctionDef, _ast.AsyncFunctionDef)) and node.name != "step":
            if any(isinstance(n, _ast.Call) and isinstance(n.func, _ast.Name) and n.func.id == "step" for n in _ast.walk(node)):
                callers.append(node.name)
    bad = []
    for nm in callers:
        try:
            sym = tabs[nm].lookup("step")
            if not (sym.is_global() and not sym.is_local() and not sym.is_parameter()):
                bad.append(nm)
        except KeyError:
            bad.append(nm)
    ok = bool(callers) and not bad
    c.check(ok, "wrapper", "mosaik.scheduler.sim_process", "`step` resolves as a module global (the debug wrapper is actually called)",
            (f"{', '.join(bad)} does not look `step` up as a module global" if bad else "no function of mosaik.scheduler calls `step` by its module-level name") + ": replacing scheduler.step has no effect", "")


from ..report import VIOLATED, DISCHARGED  # noqa: E402
from ..terms import call  # noqa: E402
