"""R21 PROJECTION — where a tiered time may be flattened to an integer.

Every projection of a tiered value (`.time`, `.tiers[i]`, `.tiers[a:b]`, iteration over
`.tiers`) is enumerated by type and classified by the sink it flows into.  Data-path sinks
(the output cache query, the timed input buffer) drop the sub-time of weak delays: genuine
defect W1 (known finding, keyed by function and sink).  A projection with no recognised sink is
*unknown* (exit 2), never a violation, so a new log line cannot raise an alarm; a new data-path
projection elsewhere is a new violation."""
from __future__ import annotations

from typing import Any, Dict, Iterator, List, Optional, Tuple

from .base import *  # noqa: F401,F403
from .sites import typer_of
from ..types import is_cls

TT = "mosaik.tiered_time.TieredTime"
TI = "mosaik.tiered_time.TieredInterval"
MIN_INSTANCES = 15


def _walk(t: Any, anc: Tuple[Term, ...], env, typer) -> Iterator[Tuple[Term, Tuple[Term, ...], Any]]:
    if not isinstance(t, tuple):
        return
    if T.is_term(t):
        if t[0] == "elem":
            env2 = dict(env)
            for it in t[3]:
                yield from _walk(it[2], anc + (t,), env2, typer)
                typer.bind_iter(it, env2)
            for g in t[2]:
                yield from _walk(g[1], anc + (t,), env2, typer)
            yield from _walk(t[1], anc + (t,), env2, typer)
            return
        yield t, anc, env
        anc = anc + (t,)
    for x in t:
        yield from _walk(x, anc, env, typer)


def _is_proj(t: Term, env, typer) -> Optional[str]:
    if t[0] == "attr" and t[2] == "time" and is_cls(typer._type_of(t[1], env), TT):
        return ".time"
    if t[0] == "attr" and t[2] == "tiers":
        bt = typer._type_of(t[1], env)
        if is_cls(bt, TT) or is_cls(bt, TI):
            return ".tiers"
    return None


def _classify(fi: FuncInfo, e: Event, proj: Term, anc: Tuple[Term, ...]) -> Tuple[str, str]:
    mod = fi.module.name
    if mod in ("mosaik._debug", "mosaik.util"):
        return "display", "debug / plotting module"
    if fi.qualname in ("mosaik.scheduler.get_progress", "mosaik.scheduler.get_avg_progress"):
        return "display", "progress percentage"
    if fi.qualname == "mosaik.scheduler.prune_dataflow_cache":
        return "cache-maintenance", "pruning threshold over integer cache keys"
    if e.kind == "raise":
        return "display", "exception message"
    for a in reversed(anc):
        if a[0] == "fstr":
            return "display", "formatted message"
        if a[0] == "call":
            f = a[1]
            name = f[2] if f[0] == "attr" else f[1] if f[0] == "glob" else ""
            if f[0] == "attr" and f[2] == "get_output_for":
                if fi.qualname.startswith("mosaik.simmanager.MosaikRemote"):
                    return "api", "answer to a simulator's get_data request at its step time"
                return "data-path", "get_output_for(step time - shift)"
            if f[0] == "attr" and f[2] in ("add", "get_input") and f[1][0] == "attr" and f[1][2] == "timed_input_buffer":
                return "data-path", "timed_input_buffer.add(due time)" if f[2] == "add" else "timed_input_buffer.get_input(step time)"
            if f[0] == "attr" and f[2] == "step" and len(a[2]) == 3:
                return "api", "time argument of the step request"
            if f[0] == "attr" and f[2] == "get" and a[2] and a[2][0] == T.const("time"):
                return "api", "default of the reported output time"
            if (f[0] == "glob" and (f[1].startswith("loguru.") or f[1].endswith(("warning", "info", "error", "debug")))) or \
               (f[0] == "attr" and (f[2] in ("update", "set_postfix_str", "warning", "info", "error", "debug") and "tqdm" in T.show(f[1]) or f[2] in ("warning", "info", "error", "debug"))):
                return "display", "logging / progress bar"
            if f[0] == "glob" and f[1].endswith("Error"):
                return "display", "exception message"
        if a[0] == "op" and a[1] == "*" and any("rt_factor" in T.show(x) for x in (a[2], a[3])):
            return "real-time", "product with rt_factor"
        if a[0] == "call" and a[1][0] == "glob" and a[1][1] in ("any", "all"):
            txt = T.show(a)
            if "max_loop_iterations" in txt:
                return "guard", "same-time loop guard"
            if "(0 == " in txt:
                return "guard", "zero test of a delay (cycle check)"
        if a[0] == "cmp":
            mine = proj if proj in (a[2], a[3]) else next((x for x in (a[2], a[3]) if x in anc), None)
            other = [x for x in (a[2], a[3]) if x != mine]
            txt = " ".join(T.show(x) for x in other)
            if "until" in txt:
                return "api", "comparison with until"
            if "await" in txt or ".get('time'" in txt:
                return "api", "comparison with a value from the simulator's reply"
            if "max_loop_iterations" in txt:
                return "guard", "same-time loop guard"
            if other and other[0] == T.const(0):
                return "guard", "zero test of a delay"
        if a[0] == "agg" and a[1] in ("any", "all"):
            txt = T.show(a)
            if "max_loop_iterations" in txt:
                return "guard", "same-time loop guard"
            if "(0 == " in txt or "== 0" in txt:
                return "guard", "zero test of a delay (cycle check)"
        if a[0] == "store" and a[1][0] == "idx" and a[1][1][0] == "attr" and a[1][1][2] == "outputs" and T.contains(a[1][2], proj):
            return "data-path", "key of the output cache"
    if fi.qualname == "mosaik.scheduler.get_max_advance":
        return "api", "max_advance sent to the simulator"
    if fi.qualname == "mosaik.scheduler.rt_sleep":
        return "real-time", "sleep computation"
    if e.kind == "test" and "until" in T.show(e.term):
        return "api", "comparison with until"
    return "unknown", ""


def run(ctx: Ctx) -> Collector:
    c = Collector("R21")
    typer = typer_of(ctx.prog)
    seen = set()
    counts: Dict[str, int] = {}
    for fi in analysis_units(ctx.prog):
        if fi.module.name == "mosaik.tiered_time":
            continue
        s = summarise(ctx.prog, fi)
        for e in s.events:
            if e.kind == "bind":
                continue        # the value is classified where it is used
            if e.kind == "call" and e.term[0] == "call" and e.term[1][0] == "glob" and e.term[1][1] in ("min", "max", "sum", "len", "int", "float", "round", "abs", "sorted", "list", "tuple"):
                continue        # a pure computation: likewise (the call is part of the expression that uses it)
            env = typer.event_env(fi, e)
            for sub, anc, env2 in _walk(e.term, (), env, typer):
                kind = _is_proj(sub, env2, typer)
                if kind is None:
                    continue
                # .tiers followed by [..] / iteration: report once (the outer form)
                if kind == ".time" and anc and anc[-1][0] == "attr" and anc[-1][2] == "time":
                    pass
                cls, sink = _classify(fi, e, sub, anc + ((e.term,) if e.kind == "store" else ()))
                key = (fi.qualname, cls, sink)
                if key in seen:
                    continue
                seen.add(key)
                counts[cls] = counts.get(cls, 0) + 1
                loc = ctx.loc(fi, e)
                if cls == "data-path":
                    c.bad("site", fi.qualname, f"data-path projection into {sink}",
                          f"{T.show(sub)[:60]} is flattened to an integer on the data path: the sub-time of weak delays is dropped, so a value due at sub-step k+1 is "
                          "visible at sub-step 0 of the same time iff the producer happened to finish first (schedule-dependent inputs)", loc)
                elif cls == "unknown":
                    c.unk("site", fi.qualname, f"projection {T.show(sub)[:50]} in {T.show(e.term)[:60]}", "no recognised sink for this projection of a tiered time", loc)
                else:
                    c.ok("site", fi.qualname, f"{cls} projection: {sink}", T.show(sub)[:60], loc)
    c.info["projection_classes"] = counts
    return c
