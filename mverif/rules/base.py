"""Shared rule context and helpers."""
from __future__ import annotations

import ast
from typing import Any, Dict, Iterable, List, Optional, Sequence, Tuple

from ..loader import AnalysisError, FuncInfo, Program
from ..flow import Event, Summary, inline_calls, uninl
from .. import flow as _flow
from ..cfg import CFG, cfg_of
from ..report import Collector
from .. import terms as T
from ..terms import Term, V, ANY


def summarise(prog: Program, fi: FuncInfo) -> Summary:
    """Every rule reads the normal form: the event summary with helpers spliced in."""
    return _flow.final(prog, fi)


def absorbed_helpers(prog: Program) -> set:
    """Helpers introduced after the pinned tree that are spliced into at least one caller: they are
    analysed as part of their callers, not as units of their own."""
    cached = getattr(prog, "_absorbed", None)
    if cached is not None:
        return cached
    out = set()
    for fi in prog.all_functions():
        for e in _flow.spliced(prog, fi).events:
            q = e.extra.get("spliced_call") if isinstance(e.extra, dict) else None
            if q is not None and q in prog.functions and _flow.is_new_helper(prog.functions[q]):
                out.add(q)
    prog._absorbed = out  # type: ignore[attr-defined]
    return out


def analysis_units(prog: Program) -> List[FuncInfo]:
    """All functions that are analysed on their own (everything but absorbed helpers)."""
    ab = absorbed_helpers(prog)
    return [fi for fi in prog.all_functions() if fi.qualname not in ab]


class Ctx:
    def __init__(self, prog: Program):
        self.prog = prog

    def func(self, qn: str) -> FuncInfo:
        return self.prog.func(qn)

    def summ(self, qn: str) -> Summary:
        """The function's event summary with helpers spliced in (see flow.spliced): the normal form
        every rule reads."""
        from ..flow import final
        return final(self.prog, self.prog.func(qn))

    def raw(self, qn: str) -> Summary:
        return _flow.summarise(self.prog, self.prog.func(qn))

    def spliced(self, qn: str) -> Summary:
        from ..flow import final
        return final(self.prog, self.prog.func(qn))

    def cfg(self, qn: str) -> CFG:
        return cfg_of(self.prog.func(qn))

    def loc(self, fi: FuncInfo, ev: Optional[Event] = None) -> str:
        return f"{fi.module.relpath}:{ev.lineno if ev is not None else fi.lineno}"


def param_by_annotation(fi: FuncInfo, ann_name: str, fallback_index: Optional[int] = None) -> str:
    """Name of the (first) parameter annotated with `ann_name` (last dotted component)."""
    a = fi.node.args
    for p in a.posonlyargs + a.args + a.kwonlyargs:
        ann = p.annotation
        if ann is None:
            continue
        txt = ast.unparse(ann)
        if isinstance(ann, ast.Constant) and isinstance(ann.value, str):
            txt = ann.value
        if txt.split(".")[-1] == ann_name or txt == ann_name:
            return p.arg
    if fallback_index is not None and fallback_index < len(fi.params):
        return fi.params[fallback_index]
    raise AnalysisError(f"{fi.qualname}: no parameter annotated {ann_name}")


def elems_of(bag: Term) -> Tuple[Term, ...]:
    b = T.strip(bag)
    return b[1] if b[0] == "bag" else ()


def vacuous_nonempty(gt: Term, contexts: Sequence[Tuple[Tuple[Term, ...], Tuple[Term, ...]]]) -> bool:
    """`gt` says that a collection B is not empty, and every one of the given (guards, iters) contexts contains the
    context of some element of B: whenever one of them is instantiated, so is that element, i.e. B is not empty.
    Guarding the things that happen in those contexts by "B is not empty" (`if not waits: return`) changes nothing."""
    gt = T.strip(gt)
    if gt[0] == "call" and gt[1] == ("glob", "len") and len(gt[2]) == 1:
        gt = gt[2][0]
    B = T._plain_bag(gt)
    if B is None or not B[1] or not contexts:
        return False
    for guards, iters in contexts:
        gs = set(T.guard_term(g) for g in guards)
        if not any(set(x[3]) <= set(iters) and set(T.guard_term(g) for g in x[2]) <= gs for x in B[1]):
            return False
    return True


def awaited_elems(s: Summary) -> List[Tuple[Term, Tuple[Term, ...], Tuple[Term, ...], Event, str]]:
    """Everything that is awaited in the function, flattened to single awaitables:
    (term, guards, iters, await event, mode) with mode in
    {"all": awaited to completion, "first": FIRST_COMPLETED-style, "direct"}."""
    out = []
    for e in s.of_kind("await"):
        t = e.term
        if t[0] == "call" and t[1][0] == "glob" and t[1][1] in ("asyncio.gather", "asyncio.wait", "asyncio.wait_for"):
            fn = t[1][1]
            mode = "all"
            kw = dict(t[3])
            if fn == "asyncio.wait":
                rw = kw.get("return_when")
                if rw is not None and not (rw[0] == "const" and rw[1] == "ALL_COMPLETED") and not (rw[0] == "glob" and rw[1].endswith("ALL_COMPLETED")):
                    mode = "first"
                if kw.get("timeout") not in (None, T.NONE):
                    mode = "first"
            if fn == "asyncio.wait_for":
                mode = "first"
            items: List[Tuple[Term, Tuple, Tuple]] = []
            for a in t[2]:
                if a[0] == "star" and a[1][0] == "bag":
                    items += [(x[1], x[2], x[3]) for x in a[1][1]]
                elif a[0] == "bag":
                    items += [(x[1], x[2], x[3]) for x in a[1]]
                elif a[0] == "star":
                    items.append((a, (), ()))
                else:
                    items.append((a, (), ()))
            for term, g, i in items:
                # look through create_task / ensure_future wrappers
                tt = term
                while tt[0] == "call" and (
                    (tt[1][0] == "glob" and tt[1][1] in ("asyncio.create_task", "asyncio.ensure_future"))
                    or (tt[1][0] == "attr" and tt[1][2] == "create_task")
                ) and tt[2]:
                    tt = tt[2][0]
                out.append((tt, e.guards + g, e.iters + i, e, mode))
        else:
            # `for f in <bag>: await f`
            if e.iters and t[0] == "var":
                last = e.iters[-1]
                src = T.strip(last[2])
                if last[1] == t and src[0] == "bag":
                    for x in src[1]:
                        out.append((x[1], e.guards + x[2], e.iters[:-1] + x[3], e, "all"))
                    continue
            out.append((t, e.guards, e.iters, e, "direct"))
    return out


def items_iter(it: Term) -> Optional[Tuple[Term, Optional[Term], Optional[Term], str]]:
    """Decode an iteration `('it', target, source)` over a dict-like table.
    Returns (table, key_var, value_var, form)."""
    _, tgt, src = it
    src = T.strip(src)
    if src[0] == "call" and src[1][0] == "attr" and src[1][2] in ("items", "keys", "values") and not src[2]:
        table = src[1][1]
        form = src[1][2]
        if form == "items" and tgt[0] == "tuple" and len(tgt[1]) == 2:
            return table, tgt[1][0], tgt[1][1], "items"
        if form == "items":
            return table, ("idx", tgt, T.const(0)), ("idx", tgt, T.const(1)), "items"
        if form == "keys":
            return table, tgt, ("idx", table, tgt), "keys"
        if form == "values":
            return table, None, tgt, "values"
    if src[0] in ("attr", "var"):
        return src, tgt, ("idx", src, tgt), "keys"
    return None


def is_call_to(t: Term, *names: str) -> bool:
    if t[0] != "call":
        return False
    f = t[1]
    if f[0] == "glob":
        return f[1] in names or f[1].rsplit(".", 1)[-1] in names
    if f[0] == "attr":
        return f[2] in names
    return False


def callee_name(t: Term) -> str:
    f = t[1]
    if f[0] == "glob":
        return f[1]
    if f[0] == "attr":
        return "." + f[2]
    return T.show(f)


def kwarg(t: Term, name: str, pos: Optional[int] = None) -> Optional[Term]:
    for k, v in t[3]:
        if k == name:
            return v
    if pos is not None and pos < len(t[2]):
        return t[2][pos]
    return None


def guard_terms(guards: Sequence[Term]) -> List[Term]:
    return [T.guard_term(g) for g in guards]


def show_ctx(guards: Sequence[Term], iters: Sequence[Term]) -> str:
    s = ""
    if iters:
        s += " for " + "; ".join(T.show(i) for i in iters)
    if guards:
        s += " if " + " and ".join(T.show_guard(g) for g in guards)
    return s


# ----------------------------------------------------------------------------- refactoring-robust views
def unalias(t: Any, s: Summary, fi: Optional[FuncInfo] = None, at: Optional[Event] = None) -> Any:
    """Replace opaque locals (kept as variables because they are mutated later) by the value
    they were bound to, when there is exactly one binding: `d = x.setdefault(k, {}); d[j] = v`
    is seen as `x.setdefault(k, {})[j] = v`."""
    binds: Dict[str, List[Event]] = {}
    for e in s.of_kind("bind"):
        binds.setdefault(e.term[1][1], []).append(e)
    params = set(fi.params) if fi is not None else set(s.func.params)

    def walk(x: Any, depth: int) -> Any:
        if not isinstance(x, tuple):
            return x
        reaching = None
        if x and x[0] == "var" and len(x) == 2 and x[1] in binds and x[1] not in params and len(binds[x[1]]) > 1 and at is not None and depth < 6:
            # several bindings (the name is re-used in another loop): the one that reaches `at` -- the latest binding before it,
            # provided it is in the same or an enclosing loop and under conditions that hold at `at` as well (it dominates)
            before = [b for b in binds[x[1]] if b.idx < at.idx]
            if before:
                b = before[-1]
                if tuple(at.iters[:len(b.iters)]) == tuple(b.iters) and tuple(at.guards[:len(b.guards)]) == tuple(b.guards) and tuple(at.tries[:len(b.tries)]) == tuple(b.tries):
                    reaching = b
        if x and x[0] == "var" and len(x) == 2 and x[1] in binds and x[1] not in params and (len(binds[x[1]]) == 1 or reaching is not None) and depth < 6:
            v = (reaching or binds[x[1]][0]).term[2]
            # only aliases of something that lives elsewhere (an access path or the result of a
            # method call on one), never a container that is created here
            takers = ("pop", "popitem", "popleft", "heappop", "get_nowait")
            is_take = v[0] == "call" and ((v[1][0] == "attr" and v[1][2] in takers) or (v[1][0] == "glob" and v[1][1].rsplit(".", 1)[-1] in takers))
            if x[1].startswith("$taken") or v[0] in ("attr", "idx", "var") or (v[0] == "call" and v[1][0] == "attr" and not is_take):
                return walk(v, depth + 1)
        return tuple(walk(y, depth) for y in x)

    return walk(t, 0)


def folded_return(s: Summary) -> Optional[Term]:
    """All guarded returns of a function folded into one nested conditional value (the own test
    of each return is its condition; earlier early-exit negations are implied by position)."""
    rets = list(s.returns)
    if not rets:
        return None
    val: Term = T.NONE
    tail = rets[-1]
    common = 0
    # guards shared by every return (assertions at the top) are not conditions of the value
    gsets = [r.guards for r in rets]
    while all(len(g) > common for g in gsets) and len({g[common] for g in gsets}) == 1:
        common += 1
    if len(tail.guards) <= common or all(T.guard_term(g) != T.guard_term(tail.guards[-1]) for g in ()):
        pass
    seq = rets
    if len(rets[-1].guards) == common:
        val = rets[-1].term
        seq = rets[:-1]
    elif len(rets) >= 2 and len(rets[-1].guards) == common + 1 and any(T.guard_term(rets[-1].guards[-1]) == T.negate(T.guard_term(r.guards[-1])) for r in rets[:-1] if len(r.guards) > common):
        # if c: return a  / else: return b   (the last return is the complement of an earlier one)
        val = rets[-1].term
        seq = rets[:-1]
    for r in reversed(seq):
        own = [T.guard_term(g) for g in r.guards[common:]]
        if not own:
            val = r.term
            continue
        cond = own[-1] if len(own) == 1 else ("and", tuple(own))
        val = ("phi", cond, r.term, val)
    return val


def merged_store(stores: Sequence[Event]) -> Optional[Term]:
    """Value stored into one target by one or several (branch-wise) store events, as a phi."""
    if not stores:
        return None
    if len(stores) == 1:
        return stores[0].term[2]
    common = 0
    gsets = [e.guards for e in stores]
    while all(len(g) > common for g in gsets) and len({g[common] for g in gsets}) == 1:
        common += 1
    val = stores[-1].term[2]
    for e in reversed(stores[:-1]):
        own = [T.guard_term(g) for g in e.guards[common:]]
        if not own:
            return e.term[2]
        cond = own[-1] if len(own) == 1 else ("and", tuple(own))
        val = ("phi", cond, e.term[2], val)
    return val


ATOMIC_CALLEES = {"get_input_data", "get_max_advance", "advance_progress", "notify_dependencies", "rt_check", "prune_dataflow_cache", "get_progress",
                  "get_avg_progress", "earliest_pending_step", "connect_interval", "group_path", "update_min", "parse_attrs", "parse_set_triple", "wrap_set",
                  "merge_all", "merge_existing", "extract_version", "doc_link"}


def inlined_events(ctx: "Ctx", s: Summary, lo: int = -1, hi: int = 10 ** 9) -> List[Event]:
    """Events of small synchronous package helpers called between event indices lo and hi,
    parameter-substituted and re-guarded, as if their bodies stood at the call site (one level).
    A maintainer extracting a few checks into a helper does not change what the caller does."""
    out: List[Event] = []
    for e in s.of_kind("call"):
        if not (lo < e.idx < hi):
            continue
        f = e.term[1]
        if f[0] != "glob" or f[1] not in ctx.prog.functions:
            continue
        callee = ctx.prog.functions[f[1]]
        if callee.is_async or callee.name in ATOMIC_CALLEES or callee.cls is not None or len(callee.params) != len(e.term[2]) or e.term[3]:
            continue
        cs = summarise(ctx.prog, callee)
        if len(cs.events) > 40:
            continue
        mapping = {T.var(p): a for p, a in zip(callee.params, e.term[2])}
        for ce in cs.events:
            term = T.replace(ce.term, mapping)
            guards = e.guards + tuple(T.replace(g, mapping) for g in ce.guards)
            ne = Event(e.idx, ce.kind, term, term, ce.node, e.stmt, guards, e.iters + tuple(T.replace(i, mapping) for i in ce.iters), e.tries + ce.tries, ce.awaited,
                       dict(ce.extra, via=callee.qualname, callee_event=ce))
            out.append(ne)
    return out


def guards_equiv(g1: Sequence[Term], g2: Sequence[Term]) -> Optional[bool]:
    """Do two guard contexts hold under exactly the same assignments of their atomic conditions?
    (None if a condition is not understood.)"""
    from . import tables
    from .. import boolfn
    if tuple(g1) == tuple(g2):
        return True
    try:
        for a, fired in tables.rows([("a", tuple(g1)), ("b", tuple(g2))], []):
            if ("a" in fired) != ("b" in fired):
                return False
        return True
    except boolfn.NotBoolean:
        return None


def without_asserts(s: Summary, guards: Sequence[Term]) -> Tuple[Term, ...]:
    """Guards that stem from `assert` statements are assumptions, not conditions."""
    asserted = {T.strip(e.term[1]) for e in s.of_kind("assert")}
    return tuple(g for g in guards if not (g[2] and T.strip(g[1]) in asserted))


def init_field_value(prog: Program, fi: FuncInfo, t: Term) -> Term:
    """`self.F` where F is assigned exactly once, in the constructor, to an expression over fields that
    are themselves never re-assigned after construction: the expression (a value computed once in
    __init__ and handed out by an accessor is the value computed on every access)."""
    t = T.strip(t)
    if fi.cls is None or not fi.params or not (t[0] == "attr" and t[1] == T.var(fi.params[0])):
        return t
    fld = t[2]
    writers = _flow._field_writers(prog, fld)
    init = prog.find_method(fi.cls.qualname, "__init__")
    if init is None or len(writers) != 1 or writers[0][0].qualname != init.qualname or writers[0][1].kind != "store" or writers[0][1].guards or writers[0][1].iters:
        return t
    me_i = T.var(init.params[0])
    val = T.strip(writers[0][1].term[2])
    for b, f in T.field_reads((val,)):
        if b != me_i:
            return t
        if [w for w in _flow._field_writers(prog, f) if w[0].name != "__init__"]:
            return t
    if any(x[0] == "var" and x != me_i for x in T.subterms((val,))):
        return t
    return T.replace(val, {me_i: T.var(fi.params[0])})
