"""Shared rule context and helpers."""
from __future__ import annotations

import ast
from typing import Any, Dict, Iterable, List, Optional, Sequence, Tuple

from ..loader import AnalysisError, FuncInfo, Program
from ..flow import Event, Summary, summarise, inline_calls, uninl
from ..cfg import CFG, cfg_of
from ..report import Collector
from .. import terms as T
from ..terms import Term, V, ANY


class Ctx:
    def __init__(self, prog: Program):
        self.prog = prog

    def func(self, qn: str) -> FuncInfo:
        return self.prog.func(qn)

    def summ(self, qn: str) -> Summary:
        return summarise(self.prog, self.prog.func(qn))

    def cfg(self, qn: str) -> CFG:
        return cfg_of(self.prog.func(qn))

    def loc(self, fi: FuncInfo, ev: Optional[Event] = None) -> str:
        return f"{fi.module.relpath}:{ev.lineno if ev is not None else fi.lineno}"


def param_by_annotation(fi: FuncInfo, ann_name: str, fallback_index: Optional[int] = None) -> str:
    """Name of the (first) parameter annotated with `ann_name` (last dotted component)."""
    a = fi.node.args
    for p in a.posonlyargs + a.args + a.kwonlyargs:
        ann = p.annotation
        if ann is None:
            continue
        txt = ast.unparse(ann)
        if isinstance(ann, ast.Constant) and isinstance(ann.value, str):
            txt = ann.value
        if txt.split(".")[-1] == ann_name or txt == ann_name:
            return p.arg
    if fallback_index is not None and fallback_index < len(fi.params):
        return fi.params[fallback_index]
    raise AnalysisError(f"{fi.qualname}: no parameter annotated {ann_name}")


def elems_of(bag: Term) -> Tuple[Term, ...]:
    b = T.strip(bag)
    return b[1] if b[0] == "bag" else ()


def awaited_elems(s: Summary) -> List[Tuple[Term, Tuple[Term, ...], Tuple[Term, ...], Event, str]]:
    """Everything that is awaited in the function, flattened to single awaitables:
    (term, guards, iters, await event, mode) with mode in
    {"all": awaited to completion, "first": FIRST_COMPLETED-style, "direct"}."""
    out = []
    for e in s.of_kind("await"):
        t = e.term
        if t[0] == "call" and t[1][0] == "glob" and t[1][1] in ("asyncio.gather", "asyncio.wait", "asyncio.wait_for"):
            fn = t[1][1]
            mode = "all"
            kw = dict(t[3])
            if fn == "asyncio.wait":
                rw = kw.get("return_when")
                if rw is not None and not (rw[0] == "const" and rw[1] == "ALL_COMPLETED") and not (rw[0] == "glob" and rw[1].endswith("ALL_COMPLETED")):
                    mode = "first"
                if kw.get("timeout") not in (None, T.NONE):
                    mode = "first"
            if fn == "asyncio.wait_for":
                mode = "first"
            items: List[Tuple[Term, Tuple, Tuple]] = []
            for a in t[2]:
                if a[0] == "star" and a[1][0] == "bag":
                    items += [(x[1], x[2], x[3]) for x in a[1][1]]
                elif a[0] == "bag":
                    items += [(x[1], x[2], x[3]) for x in a[1]]
                elif a[0] == "star":
                    items.append((a, (), ()))
                else:
                    items.append((a, (), ()))
            for term, g, i in items:
                # look through create_task / ensure_future wrappers
                tt = term
                while tt[0] == "call" and (
                    (tt[1][0] == "glob" and tt[1][1] in ("asyncio.create_task", "asyncio.ensure_future"))
                    or (tt[1][0] == "attr" and tt[1][2] == "create_task")
                ) and tt[2]:
                    tt = tt[2][0]
                out.append((tt, e.guards + g, e.iters + i, e, mode))
        else:
            # `for f in <bag>: await f`
            if e.iters and t[0] == "var":
                last = e.iters[-1]
                src = T.strip(last[2])
                if last[1] == t and src[0] == "bag":
                    for x in src[1]:
                        out.append((x[1], e.guards + x[2], e.iters[:-1] + x[3], e, "all"))
                    continue
            out.append((t, e.guards, e.iters, e, "direct"))
    return out


def items_iter(it: Term) -> Optional[Tuple[Term, Optional[Term], Optional[Term], str]]:
    """Decode an iteration `('it', target, source)` over a dict-like table.
    Returns (table, key_var, value_var, form)."""
    _, tgt, src = it
    src = T.strip(src)
    if src[0] == "call" and src[1][0] == "attr" and src[1][2] in ("items", "keys", "values") and not src[2]:
        table = src[1][1]
        form = src[1][2]
        if form == "items" and tgt[0] == "tuple" and len(tgt[1]) == 2:
            return table, tgt[1][0], tgt[1][1], "items"
        if form == "items":
            return table, ("idx", tgt, T.const(0)), ("idx", tgt, T.const(1)), "items"
        if form == "keys":
            return table, tgt, ("idx", table, tgt), "keys"
        if form == "values":
            return table, None, tgt, "values"
    if src[0] == "attr":
        return src, tgt, ("idx", src, tgt), "keys"
    return None


def is_call_to(t: Term, *names: str) -> bool:
    if t[0] != "call":
        return False
    f = t[1]
    if f[0] == "glob":
        return f[1] in names or f[1].rsplit(".", 1)[-1] in names
    if f[0] == "attr":
        return f[2] in names
    return False


def callee_name(t: Term) -> str:
    f = t[1]
    if f[0] == "glob":
        return f[1]
    if f[0] == "attr":
        return "." + f[2]
    return T.show(f)


def kwarg(t: Term, name: str, pos: Optional[int] = None) -> Optional[Term]:
    for k, v in t[3]:
        if k == name:
            return v
    if pos is not None and pos < len(t[2]):
        return t[2][pos]
    return None


def guard_terms(guards: Sequence[Term]) -> List[Term]:
    return [T.guard_term(g) for g in guards]


def show_ctx(guards: Sequence[Term], iters: Sequence[Term]) -> str:
    s = ""
    if iters:
        s += " for " + "; ".join(T.show(i) for i in iters)
    if guards:
        s += " if " + " and ".join(T.show_guard(g) for g in guards)
    return s
