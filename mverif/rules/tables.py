"""Decision tables: which guarded effects (raise / call / store / return) fire under which
combination of the atomic conditions that guard them.  Exhaustive over the 2^k assignments of
the canonical leaves (with trichotomy for ordered pairs); no execution."""
from __future__ import annotations

from typing import Callable, Dict, Iterable, Iterator, List, Optional, Sequence, Tuple

from .. import boolfn
from .. import terms as T
from ..terms import Term

MAX_LEAVES = 16


def rows(items: Sequence[Tuple[str, Sequence[Term]]], must_have: Sequence[Term] = (), truthy=None,
         constraint: Optional[Callable[[Dict[Term, bool]], bool]] = None) -> Iterator[Tuple[Dict[Term, bool], List[str]]]:
    ls: List[Term] = []
    for _, guards in items:
        for g in guards:
            for l in boolfn.leaves(g[1], truthy):
                if l not in ls:
                    ls.append(l)
    for m in must_have:
        l, _ = boolfn.canon_leaf(m)
        if l not in ls:
            ls.append(l)
    ls, tri_ok = boolfn.order_closure(ls)
    if len(ls) > MAX_LEAVES:
        raise boolfn.NotBoolean(f"{len(ls)} atomic conditions: table too large")
    for a in boolfn.assignments(ls, lambda a: tri_ok(a) and (constraint is None or constraint(a))):
        fired = [label for label, guards in items if boolfn.guards_hold_leaves(guards, a, truthy)]
        yield a, fired


def val(a: Dict[Term, bool], cond: Term) -> bool:
    """Value of an (atomic or compound) condition under a row."""
    return boolfn.eval_leaves(cond, a)


def describe(a: Dict[Term, bool], only: Optional[Sequence[Term]] = None) -> str:
    parts = []
    for l, v in a.items():
        if only is not None and l not in only:
            continue
        parts.append(("" if v else "not ") + T.show(l))
    return ", ".join(parts)
