"""Typed site enumeration shared by R7, R8, R9, R21: every sub-term of every event of every
function together with the type environment it is evaluated in."""
from __future__ import annotations

from typing import Any, Dict, Iterator, List, Optional, Set, Tuple

from ..loader import FuncInfo, Program
from ..flow import Event, Summary, spliced as summarise
from ..types import Typer, Type, ANY
from .. import terms as T
from ..terms import Term


def typer_of(prog: Program) -> Typer:
    t = getattr(prog, "_typer", None)
    if t is None:
        t = Typer(prog)
        prog._typer = t  # type: ignore[attr-defined]
    return t


def walk_typed(typer: Typer, t: Any, env: Dict[str, Type]) -> Iterator[Tuple[Term, Dict[str, Type]]]:
    """All sub-terms with the environment that types their free variables (descends into bag
    elements binding their iteration variables)."""
    if not isinstance(t, tuple):
        return
    if T.is_term(t):
        if t[0] == "elem":
            env2 = dict(env)
            for it in t[3]:
                yield from walk_typed(typer, it[2], env2)
                typer.bind_iter(it, env2)
            for g in t[2]:
                yield from walk_typed(typer, g[1], env2)
            yield from walk_typed(typer, t[1], env2)
            return
        if t[0] == "lambda":
            env2 = dict(env)
            for p in t[1]:
                env2[p] = ANY
            yield from walk_typed(typer, t[2], env2)
            return
        yield t, env
    for x in t:
        yield from walk_typed(typer, x, env)


def function_sites(prog: Program, fi: FuncInfo, summary: Optional[Summary] = None) -> Iterator[Tuple[Event, Term, Dict[str, Type]]]:
    """(event, sub-term, env) for every distinct sub-term occurrence in the function, reported
    at the first event in which it occurs."""
    typer = typer_of(prog)
    s = summary if summary is not None else summarise(prog, fi)
    seen: Set[Any] = set()
    for e in s.events:
        env = typer.event_env(fi, e)
        parts = [e.term] + [g[1] for g in e.guards[-1:]]
        for part in parts:
            for sub, env2 in walk_typed(typer, part, env):
                key = sub
                if key in seen:
                    continue
                seen.add(key)
                yield e, sub, env2
