"""R10 VALIDATE-FIRST for the simulator-facing API (set_event, set_data, get_data), the
real-time set-up in scheduler.run, and R18 FLAGS (rt_strict / lazy_stepping are confined)."""
from __future__ import annotations

from typing import Dict, List, Optional

from .base import *  # noqa: F401,F403
from . import tables
from .. import boolfn
from .r11_reply import is_simulation_error

REMOTE = "mosaik.simmanager.MosaikRemote"
RUN = "mosaik.scheduler.run"
SIMPROC = "mosaik.scheduler.sim_process"
RTCHECK = "mosaik.scheduler.rt_check"
WAIT = "mosaik.scheduler.wait_for_dependencies"
SCENERR = "mosaik.exceptions.ScenarioError"
MIN_INSTANCES = 9


def run(ctx: Ctx) -> Collector:
    c = Collector("R10")
    _set_event(ctx, c)
    _assert_async(ctx, c)
    _set_data(ctx, c)
    _get_data(ctx, c)
    _run_setup(ctx, c)
    _rt_check(ctx, c)
    _flags(ctx, c)
    return c


def _set_event(ctx: Ctx, c: Collector) -> None:
    qn = REMOTE + ".set_event"
    fi = ctx.func(qn)
    s = ctx.summ(qn)
    me, et = T.var(fi.params[0]), T.var(fi.params[1])
    world = ("attr", me, "world")
    RT = ("attr", world, "rt_factor")
    LTU = ("cmp", "<", et, ("attr", world, "until"))
    sim = ("idx", ("attr", world, "sims"), ("attr", me, "sid"))
    sims = [sim, ("attr", me, "sim")]
    raises = s.of_kind("raise")
    scheds = [e for e in s.of_kind("call") if e.term[1][0] == "attr" and e.term[1][2] == "schedule_step"]
    warns = [e for e in s.of_kind("call") if e.term[1] == T.glob("loguru.logger.warning") or (e.term[1][0] == "attr" and e.term[1][2] == "warning")]
    items = [(f"raise{e.idx}", e.guards) for e in raises] + [(f"sched{e.idx}", e.guards) for e in scheds] + [(f"warn{e.idx}", e.guards) for e in warns]
    pr: List[str] = []
    try:
        for a, fired in tables.rows(items, [RT, LTU]):
            r = [x for x in fired if x.startswith("raise")]
            sc = [x for x in fired if x.startswith("sched")]
            w = [x for x in fired if x.startswith("warn")]
            if not a[RT]:
                if not r:
                    pr.append("set_event outside real-time mode is not an error")
                if sc:
                    pr.append("an event is scheduled outside real-time mode (before the rejection)")
            else:
                if r:
                    pr.append("set_event is rejected in real-time mode")
                if a[LTU] and not sc:
                    pr.append("an event before `until` is not scheduled")
                if not a[LTU] and sc:
                    pr.append("an event at or after `until` is scheduled")
                if not a[LTU] and not w:
                    pr.append("an event at or after `until` is ignored without a warning")
    except boolfn.NotBoolean as ex:
        c.unk("set_event", qn, "decision table", f"condition not understood: {ex}", fi.loc)
        return
    for e in raises:
        if not is_simulation_error(ctx, e.term) or not T.contains(e.term, ("attr", me, "sid")):
            pr.append("the rejection is not a SimulationError naming the simulator")
    for e in scheds:
        want = [("op", "+", call(T.glob("mosaik.tiered_time.TieredTime"), et), ("attr", x, "from_world_time")) for x in sims]
        if e.term[1][1] not in sims:
            pr.append("the event is scheduled for another simulator")
        if not e.term[2] or e.term[2][0] not in want:
            pr.append(f"schedules {T.show(e.term[2])[:80]} instead of TieredTime(event_time) + sim.from_world_time (a one-tier time cannot be compared with the steps of a grouped simulator)")
    c.add("set_event", qn, "error outside rt mode; schedule iff < until, else warn; lifted to the simulator's tiers", VIOLATED if pr else DISCHARGED, "; ".join(sorted(set(pr))), fi.loc)


def _assert_async(ctx: Ctx, c: Collector) -> None:
    qn = REMOTE + "._assert_async_requests"
    fi = ctx.func(qn)
    s = ctx.summ(qn)
    src, dest = T.var(fi.params[1]), T.var(fi.params[2])
    A = ("cmp", "in", dest, ("attr", src, "successors"))
    B = ("cmp", "in", dest, ("attr", src, "successors_to_wait_for"))
    raises = s.of_kind("raise")
    pr = []
    # invariant successors_to_wait_for <= successors: every store into the first table has a sibling
    # store into the second one (same owner, same key, same guards) -- then "in wait_for but not in
    # successors" is not a state, and testing the smaller table alone is the same gate
    subset = True
    n_w = 0
    for f2 in analysis_units(ctx.prog):
        s2 = summarise(ctx.prog, f2)
        sts = [e for e in s2.of_kind("store") if e.term[1][0] == "idx" and e.term[1][1][0] == "attr"]
        for e in sts:
            if e.term[1][1][2] != "successors_to_wait_for":
                continue
            n_w += 1
            owner, key = e.term[1][1][1], e.term[1][2]
            if not any(o.term[1][1][2] == "successors" and o.term[1][1][1] == owner and o.term[1][2] == key and o.guards == e.guards and o.iters == e.iters for o in sts):
                subset = False
    c.info["wait_for_subset_of_successors"] = subset and n_w > 0
    constraint = (lambda a: not (a[B] and not a[A])) if subset and n_w else None
    try:
        for a, fired in tables.rows([(f"raise{e.idx}", e.guards) for e in raises], [A, B], constraint=constraint):
            if (not a[A] or not a[B]) and not fired:
                pr.append("a request without an async_requests connection is not refused (%s)" % ("no connection at all" if not a[A] else "connection without async_requests"))
            if a[A] and a[B] and fired:
                pr.append("a request over a proper async_requests connection is refused")
    except boolfn.NotBoolean as ex:
        c.unk("gate", qn, "refusal table", f"condition not understood: {ex}", fi.loc)
        return
    for e in raises:
        if not (e.term[0] == "call" and e.term[1] == T.glob(SCENERR)):
            pr.append(f"refuses with {T.show(e.term)[:50]} instead of ScenarioError")
    c.add("gate", qn, "refuse unless dest in successors and in successors_to_wait_for", VIOLATED if pr else DISCHARGED, "; ".join(sorted(set(pr))), fi.loc)


def _gated(s: Summary, me: Term, uses, what: str) -> List[str]:
    """Every use (event, source-simulator term) is preceded, in the same iteration, by
    self._assert_async_requests(<that simulator>, self.sim)."""
    pr = []
    gates = [e for e in s.of_kind("call") if e.term[1] == ("attr", me, "_assert_async_requests")]
    for e, srcsim in uses:
        ok = any(g.idx < e.idx and g.term[2] == (srcsim, ("attr", me, "sim")) and g.iters == e.iters[:len(g.iters)] and not g.guards[len(e.guards):] for g in gates)
        if not ok:
            pr.append(f"{what} of {T.show(srcsim)[:60]} is not preceded by _assert_async_requests(<that simulator>, self.sim)")
    return pr


def _set_data(ctx: Ctx, c: Collector) -> None:
    qn = REMOTE + ".set_data"
    fi = ctx.func(qn)
    s = ctx.summ(qn)
    me = T.var(fi.params[0])
    uses = []
    for e in s.events:
        for sub in T.subterms(e.term):
            if sub[0] == "attr" and sub[2] == "inputs_from_set_data":
                uses.append((e, sub[1]))
                break
    pr = []
    if not uses:
        pr.append("set_data never writes inputs_from_set_data")
    pr += _gated(s, me, uses[:1], "writing the set_data buffer")
    # layout: buffer[eid][attr][src_full_id] = val
    st = s.of_kind("store")
    if not st:
        pr.append("set_data stores nothing")
    if st:
        e = st[-1]
        if len(e.iters) == 3:
            d0, d1, d2 = (items_iter(i) for i in e.iters)
            if d0 and d1 and d2:
                src_full, attr, val = d0[1], d2[1], d2[2]
                tgt_full = unalias(e.term[1], s, fi)
                if tgt_full[0] != "idx" or tgt_full[2] != src_full or e.term[2] != val or not T.contains(tgt_full, attr) or not any(x[0] == "attr" and x[2] == "inputs_from_set_data" for x in T.subterms(tgt_full)):
                    pr.append("values are not filed as buffer[eid][attr][source full id] = value")
        else:
            pr.append("set_data does not iterate source -> destination -> attribute")
    # the simulator owning the buffer is the one named by the destination id
    c.add("set_data", qn, "gated by _assert_async_requests; filed under [eid][attr][src_full_id]", VIOLATED if pr else DISCHARGED, "; ".join(pr), fi.loc)


def _get_data(ctx: Ctx, c: Collector) -> None:
    qn = REMOTE + ".get_data"
    fi = ctx.func(qn)
    s = ctx.summ(qn)
    me = T.var(fi.params[0])
    uses = []
    for e in s.of_kind("call"):
        if e.term[1][0] == "attr" and e.term[1][2] == "get_output_for":
            uses.append((e, e.term[1][1]))
    pr = _gated(s, me, uses, "reading the output cache")
    gates = [e for e in s.of_kind("call") if e.term[1] == ("attr", me, "_assert_async_requests")]
    if not gates or gates[0].guards[2:] or len(gates[0].iters) != 1:
        pr.append("not every requested entity's simulator is checked with _assert_async_requests")
    sends = [e for e in s.of_kind("call") if e.term[1][0] == "attr" and e.term[1][2] == "send"]
    for e in sends:
        if gates and e.idx < gates[0].idx:
            pr.append("a simulator is queried before the request has been validated")
    for e, _ in uses:
        if e.term[2] != (("attr", ("attr", ("attr", me, "sim"), "last_step"), "time"),):
            pr.append(f"the cache is queried for {T.show(e.term[2])[:60]} instead of the requesting simulator's step time")
    c.add("get_data", qn, "gated by _assert_async_requests before cache / simulator access", VIOLATED if pr else DISCHARGED, "; ".join(pr), fi.loc)


def _run_setup(ctx: Ctx, c: Collector) -> None:
    fi = ctx.func(RUN)
    s = ctx.summ(RUN)
    world = T.var(param_by_annotation(fi, "World", 0))
    rtf = T.var("rt_factor")
    pr = []
    # conditions that only exist because another argument is validated up front (`if <bad>: raise`) hold on the
    # whole normal path and are not conditions of what follows
    pre = {T.negate(T.guard_term(r.guards[0])) for r in s.of_kind("raise") if len(r.guards) == 1 and not r.iters}

    def own(gs):
        return tuple(g for g in gs if T.guard_term(g) not in pre)
    st_u = [e for e in s.of_kind("store") if e.term[1] == ("attr", world, "until")]
    if not st_u or st_u[0].term[2] != T.var("until") or own(st_u[0].guards):
        pr.append("world.until is not set from the until argument")
    st_r = [e for e in s.of_kind("store") if e.term[1] == ("attr", world, "rt_factor")]
    scaled = ("op", "*", rtf, ("attr", world, "time_resolution"))
    scaled2 = ("op", "*", ("attr", world, "time_resolution"), rtf)
    val = None
    if not st_r:
        pr.append("world.rt_factor is never set")
    else:
        val = st_r[0].term[2]
        okv = val[0] == "phi" and T.strip(val[1]) in (("cmp", "isnot", rtf, T.NONE),) and val[2] in (scaled, scaled2) and val[3] == rtf
        okv = okv or (val[0] == "phi" and T.strip(val[1]) == ("cmp", "is", rtf, T.NONE) and val[3] in (scaled, scaled2))
        okv = okv or (val[0] == "ifexp" and val[2] in (scaled, scaled2))
        if not okv:
            if val == rtf:
                pr.append("world.rt_factor is stored before it is scaled by world.time_resolution: the pacing (advance_progress, next_step_settled) uses the unscaled factor "
                          "while rt_check uses the scaled one")
            else:
                pr.append(f"world.rt_factor is {T.show(val)[:100]} instead of rt_factor * world.time_resolution (None stays None)")
    rj = [e for e in s.of_kind("raise") if e.term[0] == "call" and e.term[1] == T.glob("ValueError")]
    try:
        bad = True
        for e in rj:
            if not T.contains((e.guards,), rtf):
                continue          # the validation of another argument
            ok_rows = True
            for a, fired in tables.rows([("r", own(e.guards) if not T.contains((own(e.guards),), rtf) else tuple(g for g in e.guards if T.contains((g,), rtf)))], [("cmp", "is", rtf, T.NONE), ("cmp", "<", T.const(0), rtf)]):
                should = (not a[("cmp", "is", rtf, T.NONE)]) and not a[("cmp", "<", T.const(0), rtf)]
                if should != bool(fired):
                    ok_rows = False
            if ok_rows:
                bad = False
        if bad:
            pr.append("rt_factor <= 0 is not rejected with ValueError (or valid factors are rejected)")
    except boolfn.NotBoolean:
        pr.append("rt_factor validation not understood")
    if rj and st_r and rj[0].idx > st_r[0].idx:
        pr.append("rt_factor is stored before it is validated")
    procs = [e for e in s.of_kind("call") if e.term[1] == T.glob(SIMPROC)]
    if not procs:
        pr.append("no simulator process is started")
    else:
        a = procs[0].term[2]
        it = procs[0].iters
        allsims = call(("attr", ("attr", world, "sims"), "values"))
        if len(it) != 1 or T.strip(it[0][2]) != allsims or a[:3] != (world, it[0][1], T.var("until")):
            pr.append("sim_process is not started once for every simulator with (world, sim, until, ...)")
        if val is not None and len(a) > 3 and a[3] != val:
            pr.append("sim_process gets a different real-time factor than world.rt_factor")
        if len(a) < 6 or a[4:6] != (T.var("rt_strict"), T.var("lazy_stepping")):
            pr.append("rt_strict / lazy_stepping are not passed through to sim_process")
    sd = [e for e in s.of_kind("call") if e.term[1][0] == "attr" and e.term[1][2] == "setup_done"]
    if not sd or len(sd[0].iters) != 1 or own(sd[0].guards) != (own(procs[0].guards) if procs else ()):
        pr.append("setup_done is not sent to every simulator")
    elif procs and sd[0].idx > procs[0].idx:
        pr.append("simulator processes are started before setup_done")
    # simulators can talk to mosaik as soon as run() suspends for the first time (setup_done is a request that a
    # simulator may answer with set_event): what MosaikRemote reads from the world must be there by then
    aws = [e.idx for e in s.of_kind("await")]
    if aws:
        for what, sts in (("until", st_u), ("rt_factor", st_r)):
            if sts and sts[0].idx > min(aws):
                pr.append(f"world.{what} is only set after run() has suspended for the first time (setup_done): a set_event request made while the simulators are "
                          f"being set up reads a world without {what}")
    c.add("run", RUN, "until / rt_factor validation and scaling / one process per simulator", VIOLATED if pr else DISCHARGED, "; ".join(pr), fi.loc)


def _rt_check(ctx: Ctx, c: Collector) -> None:
    fi = ctx.func(RTCHECK)
    s = ctx.summ(RTCHECK)
    rtf, start, strict = T.var("rt_factor"), T.var("rt_start"), T.var("rt_strict")
    sim = T.var(param_by_annotation(fi, "SimRunner", 3))
    raises = s.of_kind("raise")
    warns = [e for e in s.of_kind("call") if e.term[1][0] in ("glob", "attr") and T.show(e.term[1]).endswith("warning")]
    delta = ("op", "-", ("op", "-", call(T.glob("time.perf_counter")), start), ("op", "*", rtf, ("attr", ("attr", sim, "last_step"), "time")))
    LATE = ("cmp", "<", T.const(0), delta)
    items = [(f"raise{e.idx}", e.guards) for e in raises] + [(f"warn{e.idx}", e.guards) for e in warns]
    pr = []
    try:
        for a, fired in tables.rows(items, [rtf, LATE, strict]):
            r = [x for x in fired if x.startswith("raise")]
            w = [x for x in fired if x.startswith("warn")]
            late = a[rtf] and a[LATE]
            if late and a[strict] and not r:
                pr.append("rt_strict does not turn a too-slow report into an error")
            if r and not (late and a[strict]):
                pr.append("an error is raised although %s" % ("the run is not in real-time mode / not late" if not late else "rt_strict is off"))
            if late and not a[strict] and not w:
                pr.append("a too-slow step is not reported")
            if w and not late:
                pr.append("a step that is on time is reported as too slow")
    except boolfn.NotBoolean as ex:
        # most likely the lateness expression changed
        pr.append(f"lateness test not recognised ({ex}): expected perf_counter() - rt_start - rt_factor * sim.last_step.time > 0")
    for e in raises:
        if not (e.term[0] == "call" and e.term[1] == T.glob("RuntimeError")):
            pr.append("the strict-mode error is not a RuntimeError")
    c.add("rt_check", RTCHECK, "late iff elapsed > rt_factor * step time; RuntimeError iff rt_strict else warning", VIOLATED if pr else DISCHARGED, "; ".join(sorted(set(pr))), fi.loc)
    # call site: after the step, with the process's own start time and factor
    pfi = ctx.func(SIMPROC)
    ps = ctx.summ(SIMPROC)
    psim = T.var(param_by_annotation(pfi, "SimRunner", 1))
    calls = [e for e in ps.of_kind("call") if e.term[1] == T.glob(RTCHECK)]
    steps = [e for e in ps.of_kind("await") if is_call_to(e.term, "step") and e.term[1] == T.glob("mosaik.scheduler.step")]
    pr = []
    if not calls:
        pr.append("rt_check is never called")
    else:
        a = calls[0].term[2]
        if len(a) != 4 or a[0] != T.var("rt_factor") or a[2] != T.var("rt_strict") or a[3] != psim:
            pr.append(f"rt_check is called with {T.show(a)[:100]}")
        starts = [e for e in ps.of_kind("store") if e.term[1] == ("attr", psim, "rt_start")]
        if not starts or not T.contains(a[1], starts[0].term[2]) and a[1] != ("attr", psim, "rt_start"):
            pr.append("rt_check does not measure from the process's real-time start")
        if steps and calls[0].idx < steps[0].idx:
            pr.append("rt_check runs before the step")
    c.add("rt_check", SIMPROC, "rt_check(rt_factor, rt_start, rt_strict, sim) after the step", VIOLATED if pr else DISCHARGED, "; ".join(pr), pfi.loc)


def _flags(ctx: Ctx, c: Collector) -> None:
    """R18: rt_strict only selects between error and warning in rt_check; lazy_stepping only
    guards the successor waits.  Every other occurrence must be a pass-through argument."""
    allowed = {
        "rt_strict": {RUN: [SIMPROC], SIMPROC: [RTCHECK], RTCHECK: None, "mosaik.scenario.World.run": ["mosaik.scheduler.run"]},
        "lazy_stepping": {RUN: [SIMPROC], SIMPROC: [WAIT], WAIT: None, "mosaik.scenario.World.run": ["mosaik.scheduler.run"]},
    }
    for flag, table in allowed.items():
        pr = []
        for fi in analysis_units(ctx.prog):
            if flag not in fi.params:
                continue
            s = summarise(ctx.prog, fi)
            v = T.var(flag)
            passthrough = table.get(fi.qualname, "x")
            if passthrough is None:
                continue          # the flag's home: decided by R1/O3 resp. rt_check above
            for e in s.events:
                in_term = T.contains(e.term, v)
                in_guard = T.contains(e.guards, v)
                if in_guard:
                    pr.append(f"{fi.qualname}: `{T.show(e.term)[:50]}` is control-dependent on {flag}")
                    break
                if in_term:
                    ok = e.kind == "call" and passthrough != "x" and e.term[1][0] == "glob" and e.term[1][1] in passthrough and (v in e.term[2] or v in [x for _, x in e.term[3]])
                    # nested: the call is an argument of create_task(...) / run_until_complete(...)
                    if not ok and e.kind in ("call", "bind", "store", "await"):
                        inner = [x for x in T.subterms(e.term) if x[0] == "call" and x[1][0] == "glob" and passthrough != "x" and x[1][1] in passthrough and v in x[2]]
                        stripped = T.replace(e.term, {x: ("hole",) for x in inner})
                        ok = bool(inner) and not T.contains(stripped, v)
                    if not ok:
                        pr.append(f"{fi.qualname}: {flag} flows into `{T.show(e.term)[:60]}`")
                        break
        c.add("R18", "mosaik.*", f"{flag} is confined (pass-through only outside its home)", VIOLATED if pr else DISCHARGED, "; ".join(pr[:4]), "")


from ..report import VIOLATED, DISCHARGED  # noqa: E402
from ..terms import call  # noqa: E402
