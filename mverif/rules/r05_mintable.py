"""R5 MINTABLE — tables whose readers assume "minimum over all connections / paths" are only
written through a min-combining idiom, a fresh-key seeding, or with the bottom element.
Also the contract of update_min()."""
from __future__ import annotations

from typing import Dict, List, Optional, Tuple

from .base import *  # noqa: F401,F403
from . import tables
from .. import boolfn

UPDATE_MIN = "mosaik.scenario.update_min"
MIN_FIELDS = ("input_delays", "triggering_ancestors")
LOCAL_TABLES = {"mosaik.scenario.World.ensure_no_dataflow_cycles": "sim_descs"}
MIN_INSTANCES = 6


def run(ctx: Ctx) -> Collector:
    c = Collector("R5")
    _update_min(ctx, c)
    n = 0
    from ..flow import final as spliced, spliceable
    for fi in analysis_units(ctx.prog):
        if fi.parent is not None and not fi.is_async and fi.cls is None and spliceable(ctx.prog, fi.parent, fi):
            continue        # analysed spliced into its parent
        fi._prog = ctx.prog  # type: ignore[attr-defined]
        s = spliced(ctx.prog, fi)
        for e in s.events:
            if e.kind == "store":
                tgt = unalias(e.term[1], s, fi)
                hit = _min_table_store(fi, tgt)
                if hit is not None:
                    n += 1
                    _judge_store(ctx, c, fi, s, e, *hit)
            elif e.kind == "call":
                f = e.term[1]
                if f[0] == "attr" and f[2] in ("setdefault", "update", "pop", "clear") and _table_of(fi, f[1]) is not None:
                    n += 1
                    tname = _table_of(fi, f[1])
                    if f[2] == "setdefault":
                        c.bad("store", fi.qualname, f"{tname}.setdefault", "the first registered connection wins instead of the minimum delay (registration-order dependent)", ctx.loc(fi, e))
                    else:
                        c.bad("store", fi.qualname, f"{tname}.{f[2]}", f"min-table is modified through .{f[2]}()", ctx.loc(fi, e))
            elif e.kind == "store" or e.kind == "del":
                pass
        # whole-table rebinds (x.input_delays = {...}) outside the constructor
        for e in s.of_kind("store"):
            tgt = e.term[1]
            if tgt[0] == "attr" and tgt[2] in MIN_FIELDS and not fi.qualname.endswith(".__init__"):
                n += 1
                c.bad("store", fi.qualname, f"{tgt[2]} := ...", "a min-table is replaced as a whole outside the constructor", ctx.loc(fi, e))
    c.info["min_table_stores"] = n
    return c


_LOCAL_CACHE: dict = {}


def _local_table_name(fi: FuncInfo) -> Optional[str]:
    """The local table of tables (`X[a][b] = ...`) of a function that builds one (discovered from its
    stores, whatever the local is called)."""
    if fi.qualname not in LOCAL_TABLES:
        return None
    key = (id(fi), fi.qualname)
    if key not in _LOCAL_CACHE:
        name = None
        for e in summarise(fi._prog, fi).of_kind("store") if hasattr(fi, "_prog") else ():
            t = e.term[1]
            if t[0] == "idx" and t[1][0] == "idx" and t[1][1][0] == "var":
                name = t[1][1][1]
                break
        _LOCAL_CACHE[key] = name
    return _LOCAL_CACHE[key]


def _table_of(fi: FuncInfo, t: Term) -> Optional[str]:
    if t[0] == "attr" and t[2] in MIN_FIELDS:
        return t[2]
    loc = _local_table_name(fi)
    if loc and t[0] == "idx" and t[1][0] == "var" and t[1][1] == loc:
        return LOCAL_TABLES[fi.qualname]
    return None


def _min_table_store(fi: FuncInfo, tgt: Term) -> Optional[Tuple[str, Term, Term]]:
    """store target -> (table name, table term, key term)"""
    if tgt[0] != "idx":
        return None
    name = _table_of(fi, tgt[1])
    if name is None:
        return None
    return name, tgt[1], tgt[2]


def _first(v: Term) -> Term:
    """Tables of (delay, path) tuples: the delay component."""
    return v[1][0] if v[0] == "tuple" and v[1] else v


def _judge_store(ctx: Ctx, c: Collector, fi: FuncInfo, s: Summary, e: Event, tname: str, table: Term, key: Term) -> None:
    val = _first(e.term[2])
    loc = ctx.loc(fi, e)
    construct = f"{tname}[{T.show(key)}] := {T.show(val)[:70]}"
    get_forms = [call(("attr", table, "get"), key), call(("attr", table, "get"), key, T.NONE)]
    gts = guard_terms(e.guards)

    # (a1) min(t.get(k, v), v)
    if val[0] == "agg" and val[1] == "min":
        els = [x[1] for x in val[2][1] if not x[2] and not x[3]]
        if len(els) == 2:
            for new, old in ((els[0], els[1]), (els[1], els[0])):
                if old == call(("attr", table, "get"), key, new):
                    c.ok("store", fi.qualname, construct, "min(existing-or-new, new)", loc)
                    return
        gets = [x for x in T.subterms(val) if x[0] == "call" and x[1][0] == "attr" and x[1][2] == "get" and x[1][1][0] == "attr" and x[1][1][2] in MIN_FIELDS]
        if gets and all(g[1][1] != table or g[2][:1] != (key,) for g in gets):
            c.bad("store", fi.qualname, construct, f"the minimum is taken with {T.show(gets[0])[:80]}, which is not the existing entry of the table and key that is written", loc)
            return
        c.unk("store", fi.qualname, construct, "min(...) form not recognised", loc)
        return
    if val[0] == "agg" and val[1] == "max":
        c.bad("store", fi.qualname, construct, "the table keeps the maximum delay instead of the minimum", loc)
        return
    # (a2) update_min(existing, new) guarded by `is not None`
    if val[0] == "call" and val[1] == T.glob(UPDATE_MIN) and len(val[2]) == 2:
        old, new = val[2]
        old = unalias(old, s, fi)
        old_ok = old in get_forms or any((x[0] == "call" and x[1] == ("attr", table, "get") and x[2][:1] == (key,)) or x == ("idx", table, key) for x in T.subterms(old))
        if not old_ok:
            c.bad("store", fi.qualname, construct, f"update_min compares with {T.show(old)[:80]}, not with the existing entry for the same key", loc)
            return
        if ("cmp", "isnot", val, T.NONE) not in gts:
            c.bad("store", fi.qualname, construct, "the result of update_min is stored even when it is None (no improvement)", loc)
            return
        c.ok("store", fi.qualname, construct, "update_min(existing, new) stored iff not None", loc)
        return
    # (a3) explicit comparison with the existing entry
    existing = [("idx", table, key)] + get_forms
    if e.term[2][0] == "tuple":
        # a table of (delay, path) entries: the delay component of the existing entry is what is compared
        existing = existing + [("idx", x, T.const(0)) for x in existing]
    cmp_guards = [g for g in gts if any(T.contains(g, x) for x in existing) or T.contains(g, ("cmp", "notin", key, table)) or T.contains(g, ("cmp", "in", key, table))]
    if cmp_guards:
        # decision table: store iff (absent or new < existing)
        ABSENT_forms = [("cmp", "in", key, table)] + [("cmp", "is", x, T.NONE) for x in get_forms]
        try:
            bad: List[str] = []
            lts = []
            for ex in existing:
                lts += [("cmp", "<", val, ex), ("cmp", "<", ex, val)]
            present_lts = [l for l in lts if any(T.contains(boolfn.leaves(g), l) or l in boolfn.leaves(g) for g in cmp_guards)]
            own_guards = [g for g in e.guards if any(T.contains(g, x) for x in existing)
                          or T.contains(g, ("cmp", "notin", key, table)) or T.contains(g, ("cmp", "in", key, table))]
            for a, fired in tables.rows([("store", own_guards)], []):
                absent = any((not a[l]) if l[1] == "in" else a[l] for l in a if l in ABSENT_forms)
                new_lt = any(a.get(("cmp", "<", val, ex), False) for ex in existing)
                old_lt = any(a.get(("cmp", "<", ex, val), False) for ex in existing)
                st = "store" in fired
                if absent:
                    continue
                if new_lt and not st:
                    bad.append("a smaller delay does not replace the existing entry")
                if old_lt and st:
                    bad.append("a larger delay replaces the existing smaller one (the comparison points the wrong way)")
            if not present_lts and not bad:
                # only presence is tested, the values are never compared: whoever comes first stays
                bad.append("an entry is only made when there is none yet: the first registered connection / path wins instead of the minimum (registration-order dependent)")
            if bad:
                c.bad("store", fi.qualname, construct, "; ".join(sorted(set(bad))), loc)
            else:
                c.ok("store", fi.qualname, construct, "guarded by absent-or-smaller", loc)
        except boolfn.NotBoolean as ex2:
            c.unk("store", fi.qualname, construct, f"guard not understood: {ex2}", loc)
        return
    # (b) fresh key seeding of a table created in this call
    local = _local_table_name(fi)
    if local and table[0] == "idx" and table[1][0] == "var" and table[1][1] == local:
        # key tuple (table[1..], key) must be enumerated from dict keys, each visited once
        outer_key = table[2]
        its = [items_iter(i) for i in e.iters]
        if len(its) == 2 and all(x is not None for x in its) and its[1][3] == "items" and not e.guards:
            simvar = e.iters[0][1]
            tab2, kvar, vvar, _ = its[1]
            if tab2 == ("attr", simvar, "input_delays") and {outer_key, key} == {kvar, simvar} and val == vvar:
                c.ok("store", fi.qualname, construct, "fresh key: one store per (predecessor, simulator) of every input_delays table", loc)
                return
        c.bad("store", fi.qualname, construct, "plain store into the descendant table outside the seeding enumeration (not min-combined)", loc)
        return
    # (c) bottom element: connect_interval(g1, g2) without shift / weak
    if val[0] == "call" and val[1] == T.glob("mosaik.scenario.connect_interval") and len(val[2]) == 2 and not val[3]:
        c.ok("store", fi.qualname, construct, "bottom element: the zero interval of the pair is <= every delay of the same shape", loc)
        return
    c.bad("store", fi.qualname, construct, "plain store: the last registered connection / path wins instead of the minimum (registration-order dependent)", loc)


def _update_min(ctx: Ctx, c: Collector) -> None:
    fi = ctx.func(UPDATE_MIN)
    s = ctx.summ(UPDATE_MIN)
    a, b = T.var(fi.params[0]), T.var(fi.params[1])
    NONE_A = ("cmp", "is", a, T.NONE)
    LT = ("cmp", "<", b, a)
    rv = folded_return(s)
    items = [(str(r.idx), r.guards) for r in s.returns]
    pr: List[str] = []
    try:
        # the value returned in every row of (a is None, b < a): guarded returns, a conditional
        # expression and a named condition are the same function
        for row, fired in tables.rows(items + [("value", (("g", rv if rv is not None else T.NONE, True),))], [NONE_A, LT]):
            val = T.strip(boolfn.resolve_phi(unalias(rv, s, fi), row)) if rv is not None else T.NONE
            out = "b" if val == b else "None" if val == T.NONE else "other"
            if out == "other":
                pr.append("returns something other than b / None")
                continue
            if row[NONE_A]:
                if out != "b":
                    pr.append("with no existing value the new value is not returned")
            elif row[LT]:
                if out != "b":
                    pr.append("a strictly smaller new value is not returned")
            else:
                if out != "None":
                    pr.append("a new value that is not smaller is returned (the closure never terminates / larger delays overwrite smaller ones)")
    except boolfn.NotBoolean as ex:
        c.unk("update_min", UPDATE_MIN, "contract", f"condition not understood: {ex}", fi.loc)
        return
    c.add("update_min", UPDATE_MIN, "contract", VIOLATED if pr else DISCHARGED, "; ".join(sorted(set(pr))), fi.loc)


from ..report import VIOLATED, DISCHARGED  # noqa: E402
from ..terms import call  # noqa: E402
