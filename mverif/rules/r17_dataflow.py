"""Data-path rules on get_input_data / get_outputs / the cache / the timed input buffer:

R13 ESCAPE        mosaik-owned containers do not leak into the step inputs (freshness depth)
R16 FLOOR         the cache pruner keeps every entry the floor lookup can still return
R17 CONSUME-ONCE  take-and-clear of set_data inputs, pop-on-delivery of buffered inputs,
                  write-back only into existing keys, push/pull with the connection's shift
"""
from __future__ import annotations

from typing import List, Optional, Tuple

from .base import *  # noqa: F401,F403
from .. import flow as _flow  # noqa: E402

GID = "mosaik.scheduler.get_input_data"
GETOUT = "mosaik.scheduler.get_outputs"
PRUNE = "mosaik.scheduler.prune_dataflow_cache"
BUF_GET = "mosaik.simmanager.TimedInputBuffer.get_input"
BUF_ADD = "mosaik.simmanager.TimedInputBuffer.add"
GOF = "mosaik.simmanager.SimRunner.get_output_for"
MERGE_ALL = "mosaik.internal_util.merge_all"
MERGE_EX = "mosaik.internal_util.merge_existing"
MIN_INSTANCES = 14


def run(ctx: Ctx) -> Collector:
    c = Collector("R17")
    _helpers(ctx, c)
    _get_input_data(ctx, c)
    _buffer(ctx, c)
    _get_outputs(ctx, c)
    _floor(ctx, c)
    return c


# --------------------------------------------------------------------------- merge helpers
def _dict_loop(it: Term):
    """(table, key, substitution value-var -> table[key]) of an iteration over a dict."""
    d = items_iter(it)
    if d is None or d[1] is None:
        return None
    table, k, v, form = d
    sub = {v: ("idx", table, k)} if v is not None and v != ("idx", table, k) else {}
    return table, k, sub


def _present(t: Term, table: Term, k: Term) -> Term:
    """Under the assumption `k in table`: table.get(k, *) is table[k]."""
    m = {}
    for x in T.subterms((t,)):
        if x[0] == "call" and x[1] == ("attr", table, "get") and x[2] and x[2][0] == k:
            m[x] = ("idx", table, k)
    return T.replace(t, m) if m else t


def _helpers(ctx: Ctx, c: Collector) -> None:
    """merge_all / merge_existing by cases on key membership.  Every store into `target` is judged in the loop
    it stands in (over `other` or over `target`, by items, keys or the dict itself; `in` tests and the
    get-with-sentinel idiom are the same); which of several alternative loops runs (walk the smaller dict) and
    an up-front `update` into an empty target do not matter as long as each of them is right."""
    from .. import boolfn

    def judge_store(s, fi, e, merger, target, other, adds_missing: bool) -> List[str]:
        pr: List[str] = []
        loop = _dict_loop(e.iters[-1]) if e.iters else None
        if loop is None or loop[0] not in (target, other) or e.term[1][0] != "idx" or e.term[1][1] != target:
            return ["a store into `target` that is not inside a loop over the keys of one of the two dicts"]
        table, k, sub = loop
        if e.term[1] != ("idx", target, k):
            return ["a value is stored under another key than the one it was found under"]
        IN_T, IN_O = ("cmp", "in", k, target), ("cmp", "in", k, other)
        rows = [(True, True), (True, False)] if table == target else [(True, True), (False, True)]
        # conditions that choose between alternative loops (sizes of the dicts, emptiness) are free
        def free(t):
            t = T.strip(t)
            if any(x[0] == "call" and x[1] == T.glob("len") for x in T.subterms((t,))) or t in (target, other, ("not", target), ("not", other)):
                return True
            return None
        import itertools as _it
        free_leaves = []
        for g in e.guards:
            for l in boolfn.leaves(g[1]):
                if free(l) and l not in free_leaves and l not in (IN_T, IN_O):
                    free_leaves.append(l)
        for in_t, in_o in rows:
            try:
                fires = any(boolfn.guards_hold_leaves(e.guards, dict({IN_T: in_t, IN_O: in_o}, **{}) | dict(zip(free_leaves, vals)))
                            for vals in _it.product([False, True], repeat=len(free_leaves)))
            except boolfn.NotBoolean as ex:
                return [f"condition not understood: {ex}"]
            val = T.replace(unalias(boolfn.resolve_phi(e.term[2], {IN_T: in_t, IN_O: in_o}, free), s, fi), sub)
            if in_t:
                val = _present(val, target, k)
            if in_o:
                val = _present(val, other, k)
            if in_t and in_o:
                if not fires and not any(x is not e and x.iters == e.iters for x in s.of_kind("store")):
                    pr.append("a key present on both sides is not merged")
                elif fires and val != call(merger, ("idx", target, k), ("idx", other, k)):
                    pr.append("a key present on both sides is not combined as merger(target[k], other[k])")
            elif in_t and not in_o:
                if fires:
                    pr.append("an existing key is overwritten although `other` has no value for it")
            else:
                if adds_missing and fires and val != ("idx", other, k):
                    pr.append("a key only present in `other` is not added to `target` with other's value")
                if not adds_missing and fires:
                    pr.append("a key that only `other` has is added to `target`")
        return pr

    for qn, adds_missing, label in ((MERGE_ALL, True, "adds missing keys, merges common ones (existing first)"), (MERGE_EX, False, "never adds a key, merges common ones (existing first)")):
        fi = ctx.func(qn)
        s = ctx.summ(qn)
        merger, target, other = (T.var(p) for p in fi.params[:3])
        st = [e for e in s.of_kind("store") if T.contains((e.term[1],), target)]
        pr: List[str] = []
        if not st:
            pr.append("nothing is ever stored into `target`")
        for e in st:
            pr += judge_store(s, fi, e, merger, target, other, adds_missing)
        if adds_missing:
            # every key of `other` is visited by some loop over `other` that covers both cases
            over_other = [e for e in st if e.iters and _dict_loop(e.iters[-1]) is not None and _dict_loop(e.iters[-1])[0] == other]
            if st and not over_other:
                pr.append("does not visit every entry of `other` storing into `target`")
            else:
                try:
                    for loopkey in {e.iters for e in over_other}:
                        grp = [e for e in over_other if e.iters == loopkey]
                        k = _dict_loop(grp[0].iters[-1])[1]
                        for present in (True, False):
                            def fires_some(e):
                                fl = []
                                for g in e.guards:
                                    for l in boolfn.leaves(g[1]):
                                        if (any(x[0] == "call" and x[1] == T.glob("len") for x in T.subterms((l,))) or T.strip(l) in (target, other)) and l not in fl:
                                            fl.append(l)
                                import itertools as _it
                                return any(boolfn.guards_hold_leaves(e.guards, {("cmp", "in", k, target): present, ("cmp", "in", k, other): True} | dict(zip(fl, vals))) for vals in _it.product([False, True], repeat=len(fl)))
                            n = sum(1 for e in grp if fires_some(e))
                            if n != 1:
                                pr.append(f"a key {'present on both sides' if present else 'only present in `other`'} is stored {n} times")
                except boolfn.NotBoolean as ex:
                    pr.append(f"condition not understood: {ex}")
            # `target.update(other)` is only the same thing when target is empty
            for e in s.of_kind("call"):
                if e.term[1] == ("attr", target, "update"):
                    if e.term[2] != (other,) or ("not", target) not in guard_terms(e.guards):
                        pr.append("target.update(...) overwrites existing values without calling the merger (only harmless when target is empty)")
        else:
            for e in s.of_kind("call"):
                if e.term[1][0] == "attr" and e.term[1][1] == target and e.term[1][2] in ("update", "setdefault"):
                    pr.append(f"target.{e.term[1][2]}() can add keys that only `other` has")
        if not s.returns or any(r.term != target for r in s.returns):
            pr.append("does not return `target`")
        c.add("helper", qn, label, VIOLATED if pr else DISCHARGED, "; ".join(sorted(set(pr))), fi.loc)


def _merge_levels(t: Term) -> Optional[Tuple[List[str], Term, Term, Optional[Term]]]:
    """Decode merge_x(lambda a, b: merge_y(lambda ..., a, b), target, other) ->
    ([helper per level, outermost first], target, other, innermost lambda)."""
    levels: List[str] = []
    target = other = None
    cur = t
    first = True
    leaf = None
    while cur[0] == "call" and cur[1][0] == "glob" and cur[1][1] in (MERGE_ALL, MERGE_EX) and len(cur[2]) == 3:
        levels.append(cur[1][1].rsplit(".", 1)[-1])
        fn, a, b = cur[2]
        if first:
            target, other = a, b
            first = False
        if fn[0] != "lambda" or len(fn[1]) != 2:
            return None
        # inner call must pass the lambda's parameters through in order
        body = fn[2]
        if body[0] == "call" and body[1][0] == "glob" and body[1][1] in (MERGE_ALL, MERGE_EX):
            if body[2][1:] != (T.var(fn[1][0]), T.var(fn[1][1])):
                return None
            cur = body
        else:
            leaf = fn
            break
    if target is None:
        return None
    return levels, target, other, leaf


def _fresh_depth(t: Term) -> int:
    """How many container levels of the value are freshly created (not shared with its source)."""
    t = T.strip(t)
    if t[0] == "call" and t[1][0] == "glob" and t[1][1] in ("copy.deepcopy", "deepcopy"):
        return 99
    if t[0] == "bag" and len(t) > 2 and t[2] == "dict" and len(t[1]) == 1 and t[1][0][1][0] == "pair":
        return 1 + _fresh_depth(t[1][0][1][2])
    if t[0] == "call" and t[1] == T.glob("dict") and len(t[2]) == 1:
        return 1
    if t[0] == "call" and t[1][0] == "attr" and t[1][2] == "copy" and not t[2]:
        return 1
    if t[0] == "call" and t[1][0] == "glob" and t[1][1] in ("copy.copy", "copy"):
        return 1
    if t[0] == "dict":
        if not t[1]:
            return 99
        if all(k == ("star2",) for k, _ in t[1]):
            return 1
    return 0


class _NestNotUnderstood(Exception):
    pass


def _explicit_merge_nest(fi, inp: Term, pers: Term, fnode=None, mem_name: Optional[str] = None, loops=None):
    """Level summary (the form of mergeabs) of a memory -> inputs merge that is spelled out as a loop nest:

        for k1, v1 in <sim>.persistent_inputs.items():
            t1 = <inputs>.setdefault(k1, {})
            for k2, v2 in v1.items():
                t2 = t1.setdefault(k2, {})
                for k3, v3 in v2.items():
                    t2.setdefault(k3, v3)          # or: if k3 not in t2: t2[k3] = v3   /   t2[k3] = v3 (the memory wins)

    None when the function has no loop over the memory's items at statement level; _NestNotUnderstood when it has one in another shape."""
    import ast as _ast
    if inp[0] != "var" or (pers[0] != "attr" and mem_name is None):
        return None

    def is_items_of(node, pred) -> bool:
        return isinstance(node, _ast.Call) and not node.args and isinstance(node.func, _ast.Attribute) and node.func.attr == "items" and pred(node.func.value)

    def is_pers(n) -> bool:
        if mem_name is not None:
            return isinstance(n, _ast.Name) and n.id == mem_name
        return isinstance(n, _ast.Attribute) and n.attr == pers[2] and isinstance(n.value, _ast.Name) and pers[1] == ("var", n.value.id)

    tops = loops if loops is not None else [st for st in (fnode or fi.node).body if isinstance(st, _ast.For) and is_items_of(st.iter, is_pers)]
    if not tops:
        return None
    if len(tops) > 1:
        raise _NestNotUnderstood("several loops over the memory")

    def empty_dict(n) -> bool:
        return (isinstance(n, _ast.Dict) and not n.keys) or (isinstance(n, _ast.Call) and isinstance(n.func, _ast.Name) and n.func.id == "dict" and not n.args and not n.keywords)

    def setdefault_call(n, tgt: str, key: str):
        if isinstance(n, _ast.Call) and isinstance(n.func, _ast.Attribute) and n.func.attr == "setdefault" and isinstance(n.func.value, _ast.Name) and n.func.value.id == tgt \
                and len(n.args) == 2 and isinstance(n.args[0], _ast.Name) and n.args[0].id == key and not n.keywords:
            return n.args[1]
        return None

    levels = []

    def level(loop: _ast.For, tgt: str) -> None:
        if not (isinstance(loop.target, _ast.Tuple) and len(loop.target.elts) == 2 and all(isinstance(x, _ast.Name) for x in loop.target.elts)) or loop.orelse:
            raise _NestNotUnderstood(f"loop target at line {loop.lineno}")
        k, v = (x.id for x in loop.target.elts)
        body = [st for st in loop.body if not (isinstance(st, _ast.Expr) and isinstance(st.value, _ast.Constant))]
        # descend: t = tgt.setdefault(k, {}) ; for k2, v2 in v.items(): ...
        if len(body) == 2 and isinstance(body[0], (_ast.Assign, _ast.AnnAssign)) and isinstance(body[1], _ast.For):
            a = body[0]
            tname = a.targets[0] if isinstance(a, _ast.Assign) and len(a.targets) == 1 else getattr(a, "target", None)
            dflt = setdefault_call(a.value, tgt, k)
            by_ref = isinstance(dflt, _ast.Name) and dflt.id == v           # the memory's own sub-dict becomes part of the inputs
            if isinstance(tname, _ast.Name) and dflt is not None and (empty_dict(dflt) or by_ref) and is_items_of(body[1].iter, lambda n: isinstance(n, _ast.Name) and n.id == v):
                levels.append({"both": "recurse", "only_other": ("add", 0 if by_ref else None)})
                level(body[1], tname.id)
                return
            raise _NestNotUnderstood(f"level at line {loop.lineno}")
        # leaf
        if len(body) == 1:
            st = body[0]
            # `tgt.setdefault(k, {}).update(<something built from v>)`: the next level is overwritten wholesale
            if isinstance(st, _ast.Expr) and isinstance(st.value, _ast.Call) and isinstance(st.value.func, _ast.Attribute) and st.value.func.attr == "update" \
                    and setdefault_call(st.value.func.value, tgt, k) is not None and any(isinstance(n, _ast.Name) and n.id == v for a in st.value.args for n in _ast.walk(a)):
                levels.append({"both": "recurse", "only_other": ("add", 1)})
                levels.append({"both": "new", "only_other": ("add", 0)})
                return
            if isinstance(st, _ast.Expr):
                dflt = setdefault_call(st.value, tgt, k)
                if isinstance(dflt, _ast.Name) and dflt.id == v:
                    levels.append({"both": "old", "only_other": ("add", 0)})
                    return
            if isinstance(st, _ast.Assign) and len(st.targets) == 1 and _ast.unparse(st.targets[0]) == f"{tgt}[{k}]" and isinstance(st.value, _ast.Name) and st.value.id == v:
                levels.append({"both": "new", "only_other": ("add", 0)})
                return
            if isinstance(st, _ast.If) and not st.orelse and _ast.unparse(st.test) == f"{k} not in {tgt}" and len(st.body) == 1 and isinstance(st.body[0], _ast.Assign) \
                    and _ast.unparse(st.body[0].targets[0]) == f"{tgt}[{k}]" and isinstance(st.body[0].value, _ast.Name) and st.body[0].value.id == v:
                levels.append({"both": "old", "only_other": ("add", 0)})
                return
        raise _NestNotUnderstood(f"loop body at line {loop.lineno}")

    level(tops[0], inp[1])
    # fresh levels below an added entry: every descending level creates its dict anew, the leaf stores the memory's value itself
    n = len(levels)
    for i, l in enumerate(levels):
        if l["only_other"] == ("add", None):
            l["only_other"] = ("add", n - 1 - i)
    return levels


def _explicit_writeback_nest(loop, inp_name: str):
    """Level summary of a write-back that is spelled out as a loop nest over the memory:

        for k1, v1 in memory.items():
            s1 = inputs.get(k1, {})                  # or: if k1 in inputs: s1 = inputs[k1] ...
            for k2, v2 in v1.items():
                s2 = s1.get(k2, {})
                for k3 in v2:                        # the memory's own keys
                    if k3 in s2:
                        v2[k3] = s2[k3]

    Only keys that the memory has are written (the loops run over the memory), with the new value."""
    import ast as _ast
    levels = []

    def keys_of(node, name: str) -> bool:
        if isinstance(node, _ast.Name) and node.id == name:
            return True
        if isinstance(node, _ast.Call) and len(node.args) == 1 and isinstance(node.func, _ast.Name) and node.func.id in ("list", "tuple", "sorted") and not node.keywords:
            return keys_of(node.args[0], name)
        return isinstance(node, _ast.Call) and not node.args and isinstance(node.func, _ast.Attribute) and node.func.attr == "keys" and isinstance(node.func.value, _ast.Name) and node.func.value.id == name

    def sub_lookup(st, src: str, key: str) -> Optional[str]:
        """`s = src.get(key, {})` -> s"""
        if isinstance(st, (_ast.Assign, _ast.AnnAssign)):
            tgt = st.targets[0] if isinstance(st, _ast.Assign) and len(st.targets) == 1 else getattr(st, "target", None)
            v = st.value
            if isinstance(tgt, _ast.Name) and isinstance(v, _ast.Call) and isinstance(v.func, _ast.Attribute) and v.func.attr == "get" and isinstance(v.func.value, _ast.Name) \
                    and v.func.value.id == src and len(v.args) == 2 and isinstance(v.args[0], _ast.Name) and v.args[0].id == key \
                    and ((isinstance(v.args[1], _ast.Dict) and not v.args[1].keys) or (isinstance(v.args[1], _ast.Call) and _ast.unparse(v.args[1]) == "dict()")):
                return tgt.id
        return None

    def level(lp: _ast.For, src: str, depth: int) -> None:
        body = [st for st in lp.body if not (isinstance(st, _ast.Expr) and isinstance(st.value, _ast.Constant))]
        if lp.orelse:
            raise _NestNotUnderstood(f"loop at line {lp.lineno}")
        if isinstance(lp.target, _ast.Tuple) and len(lp.target.elts) == 2 and all(isinstance(x, _ast.Name) for x in lp.target.elts):
            k, v = (x.id for x in lp.target.elts)
            # descend
            if len(body) == 2 and isinstance(body[1], _ast.For):
                sub = sub_lookup(body[0], src, k)
                inner = body[1]
                it = inner.iter
                over_items = isinstance(it, _ast.Call) and not it.args and isinstance(it.func, _ast.Attribute) and it.func.attr == "items" and isinstance(it.func.value, _ast.Name) and it.func.value.id == v
                over_src = sub is not None and (keys_of(it, sub) or (isinstance(it, _ast.Call) and not it.args and isinstance(it.func, _ast.Attribute) and it.func.attr == "items"
                                                                     and isinstance(it.func.value, _ast.Name) and it.func.value.id == sub))
                if over_src and any(isinstance(a, _ast.Assign) and len(a.targets) == 1 and isinstance(a.targets[0], _ast.Subscript) and isinstance(a.targets[0].value, _ast.Name)
                                    and a.targets[0].value.id == v for a in _ast.walk(inner)):
                    # the loop runs over the *inputs'* keys and stores into the memory: keys that the memory does not have are added
                    levels.append({"both": "recurse", "only_other": "none"})
                    levels.append({"both": "new", "only_other": ("add", 0)})
                    if depth == 1:
                        levels.append({"both": "new", "only_other": ("add", 0)})
                    return
                if sub is not None and (over_items or keys_of(it, v)):
                    levels.append({"both": "recurse", "only_other": "none"})
                    if over_items:
                        level(inner, sub, depth + 1)
                    else:
                        leaf(inner, v, sub)
                    return
            if len(body) == 1 and isinstance(body[0], _ast.If) and not body[0].orelse and _ast.unparse(body[0].test) == f"{k} in {src}":
                ib = body[0].body
                if len(ib) == 2 and isinstance(ib[0], _ast.Assign) and len(ib[0].targets) == 1 and isinstance(ib[0].targets[0], _ast.Name) and _ast.unparse(ib[0].value) == f"{src}[{k}]" and isinstance(ib[1], _ast.For):
                    sub = ib[0].targets[0].id
                    inner = ib[1]
                    it = inner.iter
                    over_items = isinstance(it, _ast.Call) and not it.args and isinstance(it.func, _ast.Attribute) and it.func.attr == "items" and isinstance(it.func.value, _ast.Name) and it.func.value.id == v
                    if over_items or keys_of(it, v):
                        levels.append({"both": "recurse", "only_other": "none"})
                        if over_items:
                            level(inner, sub, depth + 1)
                        else:
                            leaf(inner, v, sub)
                        return
            # `for k, _old in vals.items(): if k in sub: vals[k] = sub[k]` cannot be told from a descent by its header: try it as a leaf
            raise _NestNotUnderstood(f"level at line {lp.lineno}")
        raise _NestNotUnderstood(f"loop target at line {lp.lineno}")

    def leaf(lp: _ast.For, mem: str, src: str) -> None:
        if not isinstance(lp.target, _ast.Name) or lp.orelse:
            raise _NestNotUnderstood(f"leaf loop at line {lp.lineno}")
        k = lp.target.id
        body = [st for st in lp.body if not (isinstance(st, _ast.Expr) and isinstance(st.value, _ast.Constant))]
        if len(body) == 1 and isinstance(body[0], _ast.If) and not body[0].orelse and _ast.unparse(body[0].test) == f"{k} in {src}" and len(body[0].body) == 1:
            a = body[0].body[0]
            if isinstance(a, _ast.Assign) and len(a.targets) == 1 and _ast.unparse(a.targets[0]) == f"{mem}[{k}]" and _ast.unparse(a.value) == f"{src}[{k}]":
                levels.append({"both": "new", "only_other": "none"})
                return
        raise _NestNotUnderstood(f"leaf at line {lp.lineno}")

    level(loop, inp_name, 1)
    return levels


def _explicit_nests(ctx: Ctx, fi, raw_s, inp: Term, pers: Term):
    """(into level summary | None, write-back level summary | None, note | None): the loop nests over the memory that get_input_data
    itself contains at statement level, or that a helper function introduced by a later change contains, when it is handed the inputs
    and the memory (in either order)."""
    import ast as _ast
    from ..flow import is_new_helper
    ctxs = []      # (function node, name of the memory or None for the attribute form, name of the inputs)
    if inp[0] == "var":
        ctxs.append((fi.node, None, inp[1]))
    for e in raw_s.of_kind("call"):
        if e.term[1][0] != "glob" or len(e.term[2]) < 2:
            continue
        hfi = ctx.prog.functions.get(e.term[1][1])
        if hfi is None or isinstance(hfi.node, _ast.Lambda) or not is_new_helper(hfi):
            continue
        params = [a.arg for a in hfi.node.args.args]
        names = {}
        for pn, a in zip(params, e.term[2]):
            a = T.strip(a)
            if a == pers:
                names["mem"] = pn
            elif a == inp or (inp[0] == "var" and a == inp):
                names["inp"] = pn
        if "mem" in names and "inp" in names:
            ctxs.append((hfi.node, names["mem"], names["inp"]))
    into = back = note = None
    for fnode, mem_name, inp_name in ctxs:
        def is_mem(n, mem_name=mem_name):
            if mem_name is not None:
                return isinstance(n, _ast.Name) and n.id == mem_name
            return isinstance(n, _ast.Attribute) and pers[0] == "attr" and n.attr == pers[2] and isinstance(n.value, _ast.Name) and pers[1] == ("var", n.value.id)
        for st in fnode.body:
            if not (isinstance(st, _ast.For) and isinstance(st.iter, _ast.Call) and not st.iter.args and isinstance(st.iter.func, _ast.Attribute) and st.iter.func.attr == "items" and is_mem(st.iter.func.value)):
                continue
            try:
                lv = _explicit_merge_nest(fi, T.var(inp_name), pers, fnode=fnode, mem_name=mem_name, loops=[st])
                if lv is not None and into is None:
                    into = lv
                    continue
            except _NestNotUnderstood as ex1:
                try:
                    lvb = _explicit_writeback_nest(st, inp_name)
                    if back is None:
                        back = lvb
                    continue
                except _NestNotUnderstood as ex2:
                    note = f"{ex1} / {ex2}"
    return into, back, note


def _get_input_data(ctx: Ctx, c: Collector) -> None:
    fi = ctx.func(GID)
    s = ctx.summ(GID)
    sim = T.var(param_by_annotation(fi, "SimRunner", 1))
    loc = fi.loc
    fld = ("attr", sim, "inputs_from_set_data")
    pers = ("attr", sim, "persistent_inputs")
    # (a) take-and-clear: the step inputs are derived from the buffer (the buffer itself, a copy, one
    # side of a tuple swap) and the buffer is then replaced by a fresh empty dict, with no call in between
    EMPTY = (("dict", ()), call(T.glob("dict")))
    takes = [e for e in s.events if e.kind in ("bind", "call") and T.contains((e.term[2],), fld)
             and not (e.kind == "call" and e.term[1] == ("attr", fld, "clear"))]
    clears = [e for e in s.of_kind("store") if e.term[1] == fld]
    pr = []
    if not takes:
        pr.append("inputs from set_data are not taken into the step inputs")
    if any(e.kind == "call" and e.term[1] == ("attr", fld, "clear") for e in s.events):
        pr.append("inputs_from_set_data.clear() empties the dict object that was just handed to the simulator (or to the merge): set_data values are lost")
    if not clears or clears[0].term[2] not in EMPTY:
        pr.append("inputs_from_set_data is not reset to a fresh dict: the same set_data values are delivered again at the next step")
    if takes and clears:
        first = takes[0]
        between = [e for e in s.events if first.idx < e.idx < clears[0].idx and e.kind in ("call", "await") and not T.contains((e.term,), fld) and e.stmt is not first.stmt]
        if clears[0].idx < first.idx and clears[0].stmt is not first.stmt:
            pr.append("inputs_from_set_data is cleared before it is read: set_data values are lost")
        elif any(e.kind == "await" for e in between):
            pr.append("an await between reading and resetting inputs_from_set_data: a set_data call arriving in between is dropped by the reset")
        if [g for g in clears[0].guards if g not in first.guards]:
            pr.append("the reset is conditional")
    c.add("take", GID, "set_data inputs: take and clear", VIOLATED if pr else DISCHARGED, "; ".join(pr), loc)
    inp = takes[0].term[1] if takes and takes[0].kind == "bind" else T.var("input_data")
    # a single-definition local is substituted by its value downstream: both spellings denote the step inputs
    aliases = {T.strip(takes[0].term[2]): inp} if takes and takes[0].kind == "bind" and T.strip(takes[0].term[2])[0] not in ("var", "attr") else {}
    # re-bindings of the same name (`input_data = buffer.get_input(input_data, t)` returns its argument)
    for b in s.of_kind("bind"):
        if b.term[1] == inp and T.strip(b.term[2])[0] == "call" and T.contains((b.term[2],), inp):
            aliases[T.replace(T.strip(b.term[2]), aliases)] = inp
            aliases[T.strip(b.term[2])] = inp

    def canon(t):
        return T.replace(T.strip(t), aliases) if aliases else t
    # who else touches the field
    for f2 in analysis_units(ctx.prog):
        if f2.qualname in (GID, "mosaik.simmanager.SimRunner.__init__", "mosaik.simmanager.MosaikRemote.set_data"):
            continue
        for e in summarise(ctx.prog, f2).events:
            if T.contains(e.term, "inputs_from_set_data") or any(x[0] == "attr" and x[2] == "inputs_from_set_data" for x in T.subterms(e.term)):
                c.bad("take", f2.qualname, "inputs_from_set_data accessed elsewhere", "the set_data buffer is read or written outside get_input_data / set_data", ctx.loc(f2, e))
                break

    merges = [e for e in s.of_kind("call") if e.term[1][0] == "glob" and e.term[1][1] in (MERGE_ALL, MERGE_EX) and not T.contains([x.term for x in s.of_kind("call") if x.idx > e.idx and x.term[1][0] == "glob" and x.term[1][1] in (MERGE_ALL, MERGE_EX)], e.term)]
    decoded = [(e, _merge_levels(canon(e.term))) for e in merges]
    into = [(e, d) for e, d in decoded if d is not None and d[1] == inp]
    back = [(e, d) for e, d in decoded if d is not None and d[1] == pers]
    # (b) memory -> inputs
    pr = []
    pr13 = []
    if not into:
        pr.append("the persistent input memory is not merged into the step inputs")
    else:
        e, (levels, target, other, leaf) = into[0]
        if levels != ["merge_all"] * 3:
            pr.append(f"the memory is merged with {levels} instead of merge_all on the three levels mosaik controls (entity, attribute, source)")
        if leaf is None or leaf[2] != T.var(leaf[1][0]):
            pr.append("a value already in the step inputs (from set_data) does not win over the remembered value")
        src_ok = any(x == pers for x in T.subterms(other))
        if not src_ok:
            pr.append(f"merges {T.show(other)[:80]} instead of the persistent inputs")
        d = _fresh_depth(other)
        if d < 3:
            pr13.append(f"the persistent memory is merged in with {d} fresh level(s) out of the 3 that mosaik controls: merge_all stores missing sub-dicts by reference, so later "
                        "writes into the step inputs (buffered events, pulled values, an in-process simulator) modify the memory itself")
    # a merge helper of another shape (a recursive helper with a depth argument, mergers built elsewhere) that is handed the
    # inputs and the memory: what it does is not decided here -- no verdict instead of "not merged"
    raw_s = ctx.raw(GID)        # before helper splicing: the calls as written
    other_merge = [e for e in raw_s.of_kind("call") if e.term[1][0] == "glob" and e.term[1][1] not in (MERGE_ALL, MERGE_EX)
                   and any(T.contains((a,), pers) for a in e.term[2]) and len(e.term[2]) >= 2 and not any(x.term[1][0] == "glob" and x.term[1][1] in (MERGE_ALL, MERGE_EX) and T.contains((x.term,), pers) for x in raw_s.of_kind("call"))]
    abs_into = abs_back = None
    abs_err = None
    if other_merge:
        from .. import mergeabs
        import ast as _ast

        def _summ(e):
            q = e.term[1][1]
            hfi = ctx.prog.functions.get(q)
            if hfi is None or isinstance(hfi.node, _ast.Lambda):
                raise mergeabs.NotUnderstood(f"{q} is not a package function")
            funcs = {n.name: n for n in hfi.module.tree.body if isinstance(n, _ast.FunctionDef)}
            params = [a.arg for a in hfi.node.args.args] + [a.arg for a in hfi.node.args.kwonlyargs]
            consts = {}
            for pn, a in list(zip(params[2:], e.term[2][2:])) + [(k, v) for k, v in e.term[3]]:
                a = T.strip(a)
                if a[0] != "const":
                    raise mergeabs.NotUnderstood(f"argument {pn} is not a constant")
                consts[pn] = a[1]
            return mergeabs.summarise(funcs, hfi.name, consts)
        try:
            for e in other_merge:
                a0 = T.strip(e.term[2][0])
                if a0 == inp and T.contains((e.term[2][1],), pers) and abs_into is None:
                    abs_into = (e, _summ(e), T.strip(e.term[2][1]))
                elif a0 == pers and abs_back is None:
                    abs_back = (e, _summ(e), T.strip(e.term[2][1]))
        except mergeabs.NotUnderstood as ex:
            abs_err = str(ex)
        # a helper that was read as a whole supersedes what its (partly) spliced body looks like
        if abs_into is not None:
            into = []
        if abs_back is not None:
            back = []
    explicit_note = None
    if (not into and abs_into is None) or (not back and abs_back is None):
        # the merges spelled out as loop nests over the memory (`for eid, attrs in memory.items(): t = inputs.setdefault(eid, {}); ...`),
        # in get_input_data itself or in a helper that a later change split off
        lv_x, lv_b, explicit_note = _explicit_nests(ctx, fi, raw_s, inp, pers)
        if lv_x is not None and not into and abs_into is None:
            abs_into = (None, lv_x, None)
            other_merge = [e for e in other_merge if not (T.strip(e.term[2][0]) == inp or T.contains((e.term[2][:1],), inp))] if lv_b is None else []
        if lv_b is not None and not back and abs_back is None:
            abs_back = (None, lv_b, inp)
            other_merge = [e for e in other_merge if T.strip(e.term[2][0]) != pers]
        if explicit_note is not None and ((lv_x is None and not into and abs_into is None) or (lv_b is None and not back and abs_back is None)) and not other_merge:
            pass
        else:
            explicit_note = explicit_note if ((lv_x is None and not into and abs_into is None and not other_merge)) else None
    if not into and abs_into is not None:
        e, lv, other = abs_into
        pr, pr13 = [], []
        if len(lv) != 3:
            pr.append(f"the merge helper descends {len(lv)} level(s) instead of the 3 that mosaik controls")
        else:
            fresh0 = _fresh_depth(other) if other is not None else 0
            for L, l in enumerate(lv, 1):
                if l["only_other"] == "none":
                    pr.append(f"entries of the memory that the step inputs lack are not added on level {L}")
                elif L < 3 and l["only_other"][1] < 3 - L and fresh0 < 3:
                    pr13.append(f"on level {L} the merge helper puts the memory's own sub-dicts into the step inputs ({l['only_other'][1]} fresh level(s) below, {3 - L} needed): later "
                                "writes into the step inputs (buffered events, pulled values, an in-process simulator) modify the memory itself")
                if L < 3 and l["both"] != "recurse":
                    pr.append(f"on level {L} an entry that both have is {'replaced by the memory' if l['both'] == 'new' else 'not merged any further'}")
                if L == 3 and l["both"] != "old":
                    pr.append("a remembered value replaces the value that is already in the step inputs (a set_data value loses against the memory)")
        c.add("memory", GID, "persistent memory merged into the inputs (3 x merge_all, existing value wins)", VIOLATED if pr else DISCHARGED, "; ".join(pr) or f"level summary {lv}", loc)
        c.add("R13", GID, "no alias of persistent_inputs reachable from the step inputs", VIOLATED if pr13 else DISCHARGED, "; ".join(pr13), loc)
    elif not into and explicit_note is not None:
        c.unk("memory", GID, "persistent memory merged into the inputs (3 x merge_all, existing value wins)",
              f"the memory is walked by an explicit loop nest that is not understood: {explicit_note}", loc)
    elif not into and other_merge:
        c.unk("memory", GID, "persistent memory merged into the inputs (3 x merge_all, existing value wins)",
              f"the memory is handed to {T.show(other_merge[0].term[1])}, a merge helper whose effect is not understood", loc)
    else:
        c.add("memory", GID, "persistent memory merged into the inputs (3 x merge_all, existing value wins)", VIOLATED if pr else DISCHARGED, "; ".join(pr), loc)
    if into or abs_into is None:
        c.add("R13", GID, "no alias of persistent_inputs reachable from the step inputs", VIOLATED if pr13 else DISCHARGED, "; ".join(pr13), loc)
    # (c) write-back
    pr = []
    if not back:
        pr.append("new values are not written back to the persistent memory")
    else:
        e, (levels, target, other, leaf) = back[0]
        if levels != ["merge_existing"] * 3:
            pr.append(f"the write-back uses {levels} instead of merge_existing on all three levels: keys that are not persistent connections "
                      "(events, set_data sources) are added to the memory and delivered again at every later step")
        if other != inp:
            pr.append(f"writes back {T.show(other)[:60]} instead of the step inputs")
        if leaf is None or leaf[2] != T.var(leaf[1][1]):
            pr.append("the write-back keeps the old value instead of taking the new one")
        if into and e.idx < into[0][0].idx:
            pr.append("the write-back precedes reading the memory")
    if not back and abs_back is not None:
        e, lv, other = abs_back
        pr = []
        if other != inp and not (other[0] == "var"):
            pr.append(f"writes back {T.show(other)[:60]} instead of the step inputs")
        if len(lv) != 3:
            pr.append(f"the write-back descends {len(lv)} level(s) instead of 3")
        else:
            for L, l in enumerate(lv, 1):
                if l["only_other"] != "none":
                    pr.append(f"on level {L} keys that the memory does not have are added to it: sources that are not persistent connections (events, set_data) "
                              "are remembered and delivered again at every later step")
                if L < 3 and l["both"] != "recurse":
                    pr.append(f"on level {L} the write-back {'replaces whole sub-dicts' if l['both'] == 'new' else 'stops'} instead of descending")
                if L == 3 and l["both"] != "new":
                    pr.append("the write-back keeps the old value instead of taking the new one")
        if abs_into is not None and e is not None and abs_into[0] is not None and e.idx < abs_into[0].idx:
            pr.append("the write-back precedes reading the memory")
        c.add("writeback", GID, "write-back only into existing keys (3 x merge_existing, new value wins)", VIOLATED if pr else DISCHARGED, "; ".join(pr) or f"level summary {lv}", loc)
    elif not back and other_merge and any(T.strip(e.term[2][0]) == pers for e in other_merge if e.term[2]):
        c.unk("writeback", GID, "write-back only into existing keys (3 x merge_existing, new value wins)",
              "the memory is updated by a merge helper whose effect is not understood", loc)
    else:
        c.add("writeback", GID, "write-back only into existing keys (3 x merge_existing, new value wins)", VIOLATED if pr else DISCHARGED, "; ".join(pr), loc)
    # (d) buffer and cache are merged after the memory and before the write-back
    gi = [e for e in s.of_kind("call") if e.term[1] == ("attr", ("attr", sim, "timed_input_buffer"), "get_input")]
    pulls = [e for e in s.of_kind("call") if e.term[1][0] == "attr" and e.term[1][2] == "get_output_for"]
    cur_t = ("attr", ("attr", sim, "current_step"), "time")
    pr = []
    if not gi:
        pr.append("buffered (pushed) inputs are never delivered")
    else:
        g0 = gi[0]
        if canon(g0.term[2]) != (inp, cur_t):
            pr.append(f"the buffer is queried with {T.show(g0.term[2])[:80]} instead of (inputs, current step time)")
        if into and g0.idx < into[0][0].idx:
            pr.append("buffered inputs are merged before the memory is read")
        if back and g0.idx > back[0][0].idx:
            pr.append("buffered inputs are merged after the write-back")
    c.add("order", GID, "memory < buffer < cache < write-back", VIOLATED if pr else DISCHARGED, "; ".join(pr), loc)
    pr = []
    if not pulls:
        pr.append("pulled (cached) inputs are never read")
    else:
        p0 = pulls[0]
        ok = len(p0.iters) >= 1 and items_iter(p0.iters[0]) is not None and items_iter(p0.iters[0])[0] == ("attr", sim, "pulled_inputs")
        if not ok:
            pr.append("the cache is not queried once per pulled connection (source simulator, delay)")
        else:
            key = items_iter(p0.iters[0])[1]
            if key is None or key[0] != "tuple" or len(key[1]) != 2:
                pr.append("pulled_inputs keys are not unpacked as (source simulator, delay)")
            else:
                srcv, dl = key[1]
                want = ("op", "-", cur_t, ("idx", ("attr", dl, "tiers"), T.const(0)))
                if p0.term[1][1] != srcv:
                    pr.append("the cache of another simulator than the connection's source is queried")
                if p0.term[2] != (want,):
                    pr.append(f"the cache is queried for {T.show(p0.term[2])[:80]} instead of step time - the connection's time shift")
                st = [e for e in s.of_kind("store") if e.iters[:1] == p0.iters[:1] and e.term[1][0] == "idx"]
                if st:
                    e = st[-1]
                    flows = items_iter(p0.iters[0])[2]
                    ok2 = len(e.iters) == 2 and T.strip(e.iters[1][2]) == flows and e.iters[1][1][0] == "tuple"
                    if ok2:
                        (se, sa), (de, da) = e.iters[1][1][1][0][1], e.iters[1][1][1][1][1]
                        fullid = ("op", "%", T.glob("mosaik.simmanager.FULL_ID"), ("tuple", (("attr", srcv, "sid"), se)))
                        if e.term[1][2] != fullid:
                            pr.append(f"pulled value is filed under {T.show(e.term[1][2])[:60]} instead of the source's full id")
                        if not T.contains(e.term[2], ("idx", ("idx", p0.term, se), sa)):
                            pr.append("the pulled value is not cache[src_eid][src_attr]")
                        elif e.term[2][0] == "phi" and e.term[2][3] != T.NONE and e.term[2][2] != T.NONE:
                            pr.append("when the source did not produce the attribute, the value is not None: the value of the previous data-flow (another source) is delivered")
                        tgt_full = canon(unalias(e.term[1][1], s, fi, at=e))
                        if not (T.contains(tgt_full, de) and T.contains(tgt_full, da) and T.contains(tgt_full, inp)):
                            pr.append("the pulled value is not stored under inputs[dest_eid][dest_attr]")
                    else:
                        pr.append("pulled dataflows are not iterated per (source port, destination port)")
                else:
                    pr.append("pulled values are never stored in the inputs")
    c.add("pull", GID, "pulled inputs: floor lookup at step time - shift, filed under the source's full id", VIOLATED if pr else DISCHARGED, "; ".join(pr), loc)
    rets = s.returns
    c.check(bool(rets) and canon(rets[-1].term) == inp and len(rets) == 1, "take", GID, "returns the assembled inputs", "does not return the assembled step inputs", loc)


# --------------------------------------------------------------------------- timed input buffer
def _buffer(ctx: Ctx, c: Collector) -> None:
    afi = ctx.func(BUF_ADD)
    asum = ctx.summ(BUF_ADD)
    me = T.var(afi.params[0])
    q = ("attr", me, "input_queue")
    pushes = [e for e in asum.of_kind("call") if e.term[1] == T.glob("heapq.heappush") and e.term[2][:1] == (q,)]
    pr = []
    order = None
    if not pushes or pushes[0].term[2][1][0] != "tuple" or len(pushes[0].term[2][1][1]) != 6:
        pr.append("add() does not heappush a 6-tuple")
    else:
        tup = pushes[0].term[2][1][1]
        ps = afi.params
        order = tup
        if tup[0] != T.var(ps[1]):
            pr.append("the due time is not the first (ordering) component")
        if tup[1] != call(T.glob("next"), ("attr", me, "counter")):
            pr.append("no insertion counter as second component: equal due times are not delivered in production order (the newest value must win)")
        if tup[3:] != (T.var("dest_eid"), T.var("dest_attr"), T.var("value")):
            pr.append("tuple is not (time, counter, src_full_id, dest_eid, dest_attr, value)")
    c.add("buffer", BUF_ADD, "heappush (time, counter, src_full_id, dest_eid, dest_attr, value)", VIOLATED if pr else DISCHARGED, "; ".join(pr), afi.loc)
    fi = ctx.func(BUF_GET)
    s = ctx.summ(BUF_GET)
    me, inp, step = (T.var(p) for p in fi.params[:3])
    q = ("attr", me, "input_queue")
    pr = []
    pops = [e for e in s.of_kind("call") if e.term[1] == T.glob("heapq.heappop") and e.term[2] == (q,)]
    if not pops:
        pr.append("delivered entries are not popped from the queue (they would be delivered again)")
    else:
        p = pops[0]
        loop = [i for i in p.iters if i[1] == ("while",)]
        if not loop:
            pr.append("entries are not popped in a loop")
        else:
            cond = T.strip(loop[0][2])
            conj = list(cond[1]) if cond[0] == "and" else [cond]
            # `while q: if not due: break; pop` -- the pop's own guards inside the loop belong to the condition
            for gt in guard_terms(p.guards):
                for x in (list(gt[1]) if gt[0] == "and" else [gt]):
                    if T.contains((x,), q) and x not in conj:
                        conj.append(x)
            brk_ok = True
            due = ("cmp", "<=", ("idx", ("idx", q, T.const(0)), T.const(0)), step)
            nonempty = [x for x in conj if boolfn_leaf(x) == (q, True)]
            if due not in conj:
                lt = ("cmp", "<", ("idx", ("idx", q, T.const(0)), T.const(0)), step)
                if lt in conj:
                    pr.append("entries due exactly at the step time are not delivered (< instead of <=)")
                else:
                    pr.append(f"loop condition {T.show(cond)[:100]} is not `queue and queue[0].time <= step`")
            if not nonempty:
                pr.append("the loop does not stop on an empty queue")
        # the popped tuple is stored under [eid][attr][src_full_id] = value with add()'s field order
        st = [e for e in s.of_kind("store") if e.iters == p.iters]
        if not st:
            pr.append("the popped entry is not stored in the inputs")
        else:
            e = st[-1]
            f = lambda i: ("idx", p.term, T.const(i))  # noqa: E731
            want_t = ("idx", call(("attr", call(("attr", inp, "setdefault"), f(3), ("dict", ())), "setdefault"), f(4), ("dict", ())), f(2))
            popped = {b.term[1]: p.term for b in s.of_kind("bind") if b.term[2] == p.term}
            got_t, got_v = T.replace(unalias(e.term[1], s, fi), popped), T.replace(unalias(e.term[2], s, fi), popped)
            if got_t != want_t or got_v != f(5):
                pr.append("reader and writer disagree on the tuple layout: the popped entry is not stored as inputs[entry[3]][entry[4]][entry[2]] = entry[5]")
            if _flow._tidy_guards(e.guards, e.iters) != _flow._tidy_guards(p.guards, p.iters):
                pr.append("a popped entry is only conditionally delivered (popped but lost)")
    if not s.returns or s.returns[-1].term != inp:
        pr.append("does not return the input dict")
    c.add("buffer", BUF_GET, "deliver iff popped, while queue[0].time <= step", VIOLATED if pr else DISCHARGED, "; ".join(pr), fi.loc)


def boolfn_leaf(t: Term):
    from .. import boolfn
    return boolfn.canon_leaf(t)


# --------------------------------------------------------------------------- get_outputs
def _copy_depth_of(v: Term, src: Term) -> Optional[int]:
    """n if `v` is a copy of `src` with n fresh dict levels (`{k: dict(x) for k, x in src.items()}` -> 2, `dict(src)` -> 1,
    deepcopy -> 99; a level copied only `if isinstance(x, dict)` counts, other values are left as they are), None if v is not a copy of src."""
    v = T.strip(v)
    if v == src:
        return 0
    if v[0] == "call" and v[1][0] == "glob" and v[1][1] in ("copy.deepcopy", "deepcopy") and len(v[2]) == 1 and T.strip(v[2][0]) == src:
        return 99
    if v[0] == "call" and ((v[1] == T.glob("dict") and len(v[2]) == 1 and T.strip(v[2][0]) == src) or (v[1][0] == "attr" and v[1][2] == "copy" and not v[2] and T.strip(v[1][1]) == src)
                           or (v[1][0] == "glob" and v[1][1] in ("copy.copy", "copy") and len(v[2]) == 1 and T.strip(v[2][0]) == src)):
        return 1
    if v[0] == "bag" and len(v) > 2 and v[2] == "dict" and len(v[1]) == 1 and v[1][0][1][0] == "pair" and len(v[1][0][3]) == 1:
        el = v[1][0]
        it = el[3][0]
        dec = items_iter(it)
        if dec is None or T.strip(dec[0]) != src or dec[3] != "items" or el[1][1] != dec[1]:
            return None
        if el[2] and not all(T.guard_term(g)[0] == "cmp" and T.guard_term(g)[1] in ("!=", "==") for g in el[2]):
            return None
        val = T.strip(el[1][2])
        if val[0] in ("ifexp", "phi") and len(val) == 4:
            # `dict(x) if isinstance(x, dict) else x`
            a, b = T.strip(val[2]), T.strip(val[3])
            other = b if a == dec[2] else a
            same = a if a == dec[2] else b
            if same != dec[2] or not (T.strip(val[1])[0] == "call" and T.strip(val[1])[1] == T.glob("isinstance")):
                return None
            # the copy is the branch taken for dicts; with the branches the other way round a dict is stored as it is
            val = other if a != dec[2] else dec[2]
        inner = _copy_depth_of(val, dec[2])
        return None if inner is None else 1 + inner
    return None


def _get_outputs(ctx: Ctx, c: Collector) -> None:
    fi = ctx.func(GETOUT)
    s = ctx.summ(GETOUT)
    sim = T.var(param_by_annotation(fi, "SimRunner", 1))
    data = None
    for e in s.of_kind("await"):
        if e.term[0] == "call" and e.term[1] == ("attr", sim, "get_data"):
            data = ("await", e.term)
    if data is None:
        return
    lastt = ("attr", ("attr", sim, "last_step"), "time")
    OT = call(("attr", data, "get"), T.const("time"), lastt)
    pr = []
    st = [e for e in s.of_kind("store") if e.term[1][0] == "idx" and e.term[1][1] == ("attr", sim, "outputs")]
    if not st:
        pr.append("the output cache is never filled")
    else:
        e = st[0]
        if e.term[1][2] != OT:
            pr.append(f"the cache entry is stored under {T.show(e.term[1][2])[:60]} instead of the reported output time data.get('time', last_step.time)")
        # the entry holds the retrieved data: the reply itself or a copy of it (entity level / attribute level)
        cv = T.strip(e.term[2])
        cached_depth = 0 if cv == data else None
        if cached_depth is None:
            d_ = _copy_depth_of(cv, data)
            if d_ is not None:
                cached_depth = d_
        if cached_depth is None:
            pr.append("the cache entry is not the retrieved data")
        # ownership: the reply of an in-process simulator is the simulator's own object. A simulator that keeps one dict for its outputs
        # and updates it in place changes its *old* cache entries unless the two levels that mosaik reads ([eid][attr]) are copied
        # (a remote reply is a fresh copy anyway): a slower consumer then sees data from the future when the producer runs ahead
        pr_alias = []
        if cached_depth is not None and cached_depth < 2:
            pr_alias.append(f"the cache entry shares {'the reply itself' if cached_depth == 0 else 'the per-entity dicts of the reply'} with the simulator that returned it "
                            "(LocalProxy hands over the simulator's own object): a simulator that reuses its output dict rewrites its cached history, "
                            "and what a slower consumer reads depends on cache on/off, lazy stepping and local/remote")
        c.add("R13", GETOUT, "the output cache does not alias the simulator's reply", VIOLATED if pr_alias else DISCHARGED, "; ".join(pr_alias), ctx.loc(fi, e))
        own = [x for x in guard_terms(e.guards) if T.contains(x, ("attr", sim, "outputs"))]
        if own != [("cmp", "isnot", ("attr", sim, "outputs"), T.NONE)]:
            pr.append("the cache is not filled exactly when caching is on (outputs is not None)")
    aw = [e for e in s.of_kind("await") if e.term[0] == "call" and e.term[1] == ("attr", sim, "get_data")]
    if aw:
        own = [x for x in guard_terms(aw[0].guards) if x != ("cmp", "isnot", ("attr", sim, "current_step"), T.NONE)]
        if own != [("attr", sim, "output_request")]:
            pr.append(f"get_data is requested under {[T.show(x)[:40] for x in own]} instead of exactly when some output is connected (sim.output_request)")
        if aw[0].term[2] != (("attr", sim, "output_request"),):
            pr.append("get_data does not request sim.output_request")
    dd = [e for e in s.of_kind("store") if e.term[1] == ("attr", sim, "data")]
    if not dd or dd[0].term[2] != data:
        pr.append("sim.data is not updated with the retrieved data (triggers would use stale data)")
    c.add("cache", GETOUT, "cache[output_time] = data, sim.data = data", VIOLATED if pr else DISCHARGED, "; ".join(pr), fi.loc)
    pr = []
    adds = [e for e in s.of_kind("call") if e.term[1][0] == "attr" and e.term[1][2] == "add" and e.term[1][1][0] == "attr" and e.term[1][1][2] == "timed_input_buffer"]
    if not adds:
        pr.append("pushed outputs are never put into the destination's timed input buffer")
    else:
        e = adds[0]
        ok = len(e.iters) == 2 and items_iter(e.iters[0]) is not None and items_iter(e.iters[0])[0] == ("attr", sim, "output_to_push") and items_iter(e.iters[0])[3] == "items"
        if not ok:
            pr.append("pushes are not iterated as `for port, destinations in sim.output_to_push.items(): for dest in destinations`")
        else:
            port, dests = items_iter(e.iters[0])[1], items_iter(e.iters[0])[2]
            i1 = e.iters[1]
            if T.strip(i1[2]) != dests or i1[1][0] != "tuple" or len(i1[1][1]) != 3:
                pr.append("destinations are not unpacked as (simulator, time shift, destination port)")
            else:
                dsim, shift, dport = i1[1][1]
                se, sa = (port[1] if port[0] == "tuple" else (("idx", port, T.const(0)), ("idx", port, T.const(1))))
                de, da = (dport[1] if dport[0] == "tuple" else (("idx", dport, T.const(0)), ("idx", dport, T.const(1))))
                if e.term[1][1][1] != dsim:
                    pr.append("the value is pushed into another simulator's buffer")
                args = e.term[2]
                due = ("op", "+", OT, ("idx", ("attr", shift, "tiers"), T.const(0)))
                if len(args) != 6:
                    pr.append("buffer.add is not called with 6 arguments")
                else:
                    if args[0] != due:
                        pr.append(f"due time is {T.show(args[0])[:80]} instead of output time + the connection's time shift")
                    if args[1] != ("attr", sim, "sid") or args[2] != se:
                        pr.append("the value is not attributed to the producing simulator / entity")
                    if args[3:5] != (de, da):
                        pr.append("the value is pushed to the wrong destination port")
                    if args[5] != ("idx", ("idx", data, se), sa):
                        pr.append("the pushed value is not data[src_eid][src_attr]")
                # pushed iff present: KeyError from the lookup skips the push
                def lookup_guarded() -> bool:
                    # `try: val = data[eid][attr]  except KeyError: continue` before the pushes of the same port
                    import ast as _ast
                    for b in s.of_kind("bind"):
                        if len(args) == 6 and T.strip(b.term[2]) == args[5] and b.iters == e.iters[:1] and b.idx < e.idx:
                            for tid, role in b.tries:
                                if role != "body":
                                    continue
                                for h in s.of_kind("test"):
                                    if h.term[0] == "except" and (tid, "handler") in h.tries and T.show(h.term[1]).endswith("KeyError") \
                                            and isinstance(h.node, _ast.ExceptHandler) and h.node.body and isinstance(h.node.body[-1], _ast.Continue) \
                                            and not any(x.kind in ("call", "store", "raise") and (tid, "handler") in x.tries for x in s.events):
                                        return True
                    return False
                if not any(r == "body" for _, r in e.tries) and not lookup_guarded():
                    pr.append("a missing attribute in the reply is not tolerated (no try/except KeyError around the push)")
    if adds:
        # pushed iff present: nothing but "some output is connected" (the guard of get_data itself) may stand
        # between a produced value and the destination's buffer
        req = [T.guard_term(g) for g in aw[0].guards] if aw else []
        # conditions of the whole normal path (the reply was accepted) are shared with the final `sim.data = data`
        fin = [x for x in s.of_kind("store") if x.term[1] == ("attr", sim, "data")]
        req += guard_terms(fin[-1].guards) if fin else []
        extra = [x for x in guard_terms(adds[0].guards) if x not in req]
        if extra:
            pr.append("a produced value is only pushed when " + " and ".join(T.show(x)[:70] for x in extra) + ": every value that a connected attribute produces is due at its destination "
                      "(a comparison with what the destination remembers is a comparison with a state that lags behind the values still in its buffer)")
    c.add("push", GETOUT, "push data[src] to (dest buffer, output_time + shift) iff present", VIOLATED if pr else DISCHARGED, "; ".join(pr), fi.loc)


# --------------------------------------------------------------------------- R16 floor
def _floor_reader(ctx: Ctx, fi: FuncInfo, s: Summary) -> Tuple[List[str], Optional[str]]:
    """(problems, unknown-reason) for get_output_for: it returns the data of the *greatest* key <= time
    (whatever the insertion order of the cache), and {} if there is none."""
    from .. import boolfn, constfold
    me, t = T.var(fi.params[0]), T.var(fi.params[1])
    outs = ("attr", me, "outputs")
    key_sources = (outs, call(("attr", outs, "keys")))
    pr: List[str] = []
    rv = folded_return(s)
    if rv is None:
        return ["nothing is returned"], None
    rv = unalias(T.strip(rv), s, fi)
    # an exact hit answered first (`if time in outputs: return outputs[time]`) is the floor entry, too
    no_hit = None
    while rv[0] in ("phi", "ifexp") and T.strip(rv[1]) == ("cmp", "in", t, outs) and T.strip(rv[2]) == ("idx", outs, t):
        rv = T.strip(rv[3])
        no_hit = ("cmp", "in", t, outs)          # ... and is known not to be there in what follows
    # form 1: a first-match scan
    hit = [r for r in s.returns if r.iters]
    nxt = [x for x in T.subterms((rv,)) if x[0] == "call" and x[1] == T.glob("next") and x[2] and T.strip(x[2][0])[0] == "bag"]
    scan = None          # (iteration source, key var, value term, guards, default)
    if hit:
        r = hit[0]
        pat = r.iters[0][1]
        tail = [x for x in s.returns if not x.iters]
        if pat[0] == "tuple" and len(pat[1]) == 2:
            scan = (T.strip(r.iters[0][2]), pat[1][0], r.term, guard_terms(r.guards[-1:]), pat[1][1], tail[-1].term if tail else None)
    elif nxt:
        b = T.strip(nxt[0][2][0])
        if len(b[1]) == 1 and len(b[1][0][3]) == 1 and b[1][0][3][0][1][0] == "tuple" and len(b[1][0][3][0][1][1]) == 2:
            el = b[1][0]
            scan = (T.strip(el[3][0][2]), el[3][0][1][1][0], el[1], guard_terms(el[2]), el[3][0][1][1][1], nxt[0][2][1] if len(nxt[0][2]) > 1 else None)
    if scan is not None:
        src, kv, val, guards, vv, default = scan
        items = call(("attr", outs, "items"))
        by_time = [call(T.glob("sorted"), items, reverse=T.const(True))]
        if src == call(T.glob("reversed"), items):
            pr.append("the newest entry is taken to be the one inserted last (reversed(outputs.items())), but the cache is not filled in time order "
                      "(initial data of several time-shifted connections is filed under -shift in connection order, a simulator may set output times that are not monotone): "
                      "an older or a newer entry than the floor is returned")
        elif src == items:
            pr.append("iterates oldest first: returns the oldest entry <= time instead of the newest")
        elif src not in by_time:
            return pr, f"iteration {T.show(src)[:60]} not recognised"
        if guards != [("cmp", "<=", kv, t)]:
            if guards == [("cmp", "<", kv, t)]:
                pr.append("an entry produced exactly at the queried time is skipped (< instead of <=)")
            else:
                pr.append(f"entry test is {[T.show(x) for x in guards]} instead of key <= time")
        if val != vv:
            pr.append("does not return the entry's data")
        if default != ("dict", ()):
            pr.append("does not return {} when nothing is old enough")
        return pr, None
    # form 2: floor key by max() over the keys that are old enough
    aggs = [x for x in T.subterms((rv,)) if x[0] == "agg" and x[1] in ("max", "min")]
    if not aggs:
        return ["no entry is ever returned"], None
    M = aggs[0]
    els = M[2][1]
    if len(els) != 1 or len(els[0][3]) != 1:
        return pr, f"key search {T.show(M)[:60]} not recognised"
    el = els[0]
    it = el[3][0]
    src = T.strip(it[2])
    kv = it[1]
    if src == call(("attr", outs, "items")) and kv[0] == "tuple":
        kv = kv[1][0]
    elif src not in key_sources:
        return pr, f"key search iterates {T.show(src)[:60]}, not the cache keys"
    if el[1] != kv:
        pr.append(f"the search ranges over {T.show(el[1])[:40]}, not over the cache times")
    if M[1] == "min":
        pr.append("takes the oldest entry <= time (min) instead of the newest")
    g = guard_terms(el[2])
    if g != [("cmp", "<=", kv, t)]:
        if g == [("cmp", "<", kv, t)]:
            pr.append("an entry produced exactly at the queried time is skipped (< instead of <=)")
        elif not g:
            pr.append("entries newer than the queried time are not excluded: output that is not yet due is delivered")
        else:
            pr.append(f"entry test is {[T.show(x) for x in g]} instead of key <= time")
    default = dict(M[3]).get("default")
    if default is None:
        # max() without default is fine when the candidates are tested for emptiness first: `if not candidates: return {}`
        bagM = T.strip(M[2])
        with_m = [r for r in s.returns if T.contains((r.term,), M)]
        def same_bag(x):
            x = T.strip(x)
            return x[0] == "bag" and bagM[0] == "bag" and x[1] == bagM[1]
        empties = [r for r in s.returns if not T.contains((r.term,), M) and any(T.guard_term(g)[0] == "not" and same_bag(T.guard_term(g)[1]) for g in r.guards)]
        guarded = with_m and all(any(same_bag(T.guard_term(g)) for g in r.guards) for r in with_m)
        if guarded and empties:
            for r in empties:
                v0 = T.strip(r.term)
                if v0 != ("dict", ()) and not (v0[0] == "call" and v0[1] == T.glob("dict") and not v0[2]):
                    pr.append(f"returns {T.show(v0)[:50]} instead of {{}} when nothing is old enough")
            for r in with_m:
                v1 = T.strip(r.term)
                if v1 not in (("idx", outs, M), call(("attr", outs, "get"), M), call(("attr", outs, "get"), M, ("dict", ()))):
                    pr.append(f"returns {T.show(v1)[:60]} instead of the data stored under the floor key")
            return pr, None
        pr.append("max() without default: ValueError when no entry is old enough instead of {}")
        return pr, None
    FK = T.var("§floor-key")
    try:
        # no entry old enough: the search yields its default
        none_case = T.strip(boolfn.resolve_phi(T.replace(rv, {M: default}), {}, lambda x: (not boolfn.canon_leaf(x)[1]) if (no_hit is not None and boolfn.canon_leaf(x)[0] == no_hit) else constfold.decide(x, {})))
        if none_case != ("dict", ()) and not (none_case[0] == "call" and none_case[1] == T.glob("dict") and not none_case[2]):
            pr.append(f"returns {T.show(none_case)[:50]} instead of {{}} when nothing is old enough")
        # some entry: the search yields the floor key (not None)
        def truthy(x):
            x = T.strip(x)
            if no_hit is not None and boolfn.canon_leaf(x)[0] == no_hit:
                return not boolfn.canon_leaf(x)[1]
            if x[0] == "cmp" and x[1] in ("is", "isnot") and FK in (x[2], x[3]) and T.NONE in (x[2], x[3]):
                return x[1] == "isnot"
            if x[0] == "cmp" and x[1] in ("==", "!=") and FK in (x[2], x[3]) and T.NONE in (x[2], x[3]):
                return x[1] == "!="
            return None
        some_case = T.strip(boolfn.resolve_phi(T.replace(rv, {M: FK}), {}, truthy))
        if some_case not in (("idx", outs, FK), call(("attr", outs, "get"), FK), call(("attr", outs, "get"), FK, ("dict", ()))):
            pr.append(f"returns {T.show(some_case).replace('§floor-key', '<floor key>')[:60]} instead of the data stored under the floor key")
    except boolfn.NotBoolean as ex:
        return pr, f"condition not understood: {ex}"
    return pr, None


def _floor(ctx: Ctx, c: Collector) -> None:
    # reader semantics
    fi = ctx.func(GOF)
    s = ctx.summ(GOF)
    pr, unk = _floor_reader(ctx, fi, s)
    if pr:
        c.bad("R16", GOF, "floor lookup: newest entry with key <= time", "; ".join(pr), fi.loc)
    elif unk:
        c.unk("R16", GOF, "floor lookup: newest entry with key <= time", unk, fi.loc)
    else:
        c.ok("R16", GOF, "floor lookup: newest entry with key <= time", "greatest key <= time, independent of the insertion order; {} if none", fi.loc)
    # pruner
    fi = ctx.func(PRUNE)
    s = ctx.summ(PRUNE)
    world = T.var(fi.params[0])
    allsims = call(("attr", ("attr", world, "sims"), "values"))
    st = [e for e in s.of_kind("store") if e.term[1][0] == "attr" and e.term[1][2] == "outputs"]
    dels = [e for e in s.events if (e.kind == "del" and T.contains(e.term, "outputs")) or (e.kind == "call" and e.term[1][0] == "attr" and e.term[1][2] in ("pop", "clear", "popitem") and e.term[1][1][0] == "attr" and e.term[1][1][2] == "outputs")]
    pr = []
    unk = None
    if dels:
        unk = "entries are removed with del/pop: form not analysed"
    if not st and not dels:
        c.ok("R16", PRUNE, "pruner keeps the floor entry", "the cache is never pruned", fi.loc)
        return
    if st:
        e = st[0]
        v = e.term[2]
        simv = e.term[1][1]
        souts = ("attr", simv, "outputs")
        ok = v[0] == "bag" and len(v[1]) == 1 and len(v[1][0][3]) == 1 and T.strip(v[1][0][3][0][2]) == call(("attr", souts, "items")) and len(v[1][0][2]) == 1
        if not ok:
            unk = f"pruned cache {T.show(v)[:80]} not in a recognised form"
        else:
            el = v[1][0]
            kv = el[3][0][1][1][0]
            keep = T.guard_term(el[2][0])
            if keep[0] == "or":
                # several reasons to keep an entry: one of them must be the floor bound (keeping more is harmless)
                floorish = [d for d in keep[1] if d[0] == "cmp" and d[1] == "<=" and d[3] == kv and d[2][0] == "agg" and d[2][1] == "max"
                            and len(d[2][2][1]) == 1 and d[2][2][1][0][2]]
                if floorish:
                    keep = floorish[0]
                else:
                    pr.append("entries are kept when " + " or ".join(T.show(d)[:50] for d in keep[1]) + ": none of these is the floor entry of the threshold (the newest entry at or "
                              "before it) -- once a newer entry exists, the entry that get_output_for() still returns for a consumer inside the gap is pruned and replaced by None")
                    keep = None
            if keep is None:
                pass
            elif keep[0] == "cmp" and keep[1] == "<" and keep[3] == kv and keep[2][0] == "agg":
                pr.append("entries with key == floor bound are dropped (> instead of >=): the floor entry itself is pruned")
            elif not (keep[0] == "cmp" and keep[1] == "<=" and keep[3] == kv):
                unk = f"keep-predicate {T.show(keep)[:80]} not recognised"
            else:
                bound = keep[2]
                # F1: bound is the floor entry of the threshold: max(k for k in outputs if k <= Q, default=Q)
                if not (bound[0] == "agg" and bound[1] == "max" and len(bound[2][1]) == 1):
                    pr.append("entries older than the threshold are all dropped: the newest of them is still what get_output_for() returns for a consumer at the threshold "
                              "(a slower producer's last output) and is replaced by None")
                else:
                    be = bound[2][1][0]
                    okb = len(be[3]) == 1 and T.strip(be[3][0][2]) in (souts, call(("attr", souts, "keys"))) and be[1] == be[3][0][1] and len(be[2]) == 1
                    Q = None
                    if okb:
                        gq = T.guard_term(be[2][0])
                        if gq[0] == "cmp" and gq[1] == "<=" and gq[2] == be[1]:
                            Q = gq[3]
                        elif gq[0] == "cmp" and gq[1] == "<" and gq[2] == be[1]:
                            Q = gq[3]      # keeps a superset: fine
                    if Q is None:
                        unk = "floor bound not recognised"
                    else:
                        dflt = dict(bound[3]).get("default")
                        if dflt != Q:
                            pr.append("the floor bound's default is not the threshold itself")
                        # F2: threshold = min last_step.time over all sims - max pulled shift
                        q, off = Q, None
                        if Q[0] == "op" and Q[1] == "-":
                            q, off = Q[2], Q[3]
                        okq = q[0] == "agg" and q[1] == "min" and len(q[2][1]) == 1 and len(q[2][1][0][3]) == 1 and T.strip(q[2][1][0][3][0][2]) == allsims \
                            and q[2][1][0][1] == ("attr", ("attr", q[2][1][0][3][0][1], "last_step"), "time") and not q[2][1][0][2]
                        if not okq:
                            pr.append("the threshold is not the minimum last step time over all simulators")
                        if off is None:
                            pr.append("the threshold ignores the time shifts of pulled connections: a time-shifted consumer reads output from before its own step, which is pruned too early")
                        else:
                            oko = off[0] == "agg" and off[1] == "max" and len(off[2][1]) == 1 and any(T.contains(it[2], "pulled_inputs") or any(x[0] == "attr" and x[2] == "pulled_inputs" for x in T.subterms(it[2])) for it in off[2][1][0][3]) \
                                and off[2][1][0][1][0] == "idx" and off[2][1][0][1][2] == T.const(0) and any(T.strip(it[2]) == allsims for it in off[2][1][0][3])
                            if not oko:
                                pr.append("the shift subtracted from the threshold is not the maximum time shift over all pulled connections of all simulators")
    if pr:
        c.bad("R16", PRUNE, "pruner keeps the floor entry", "; ".join(pr), fi.loc)
    elif unk:
        c.unk("R16", PRUNE, "pruner keeps the floor entry", unk, fi.loc)
    else:
        c.ok("R16", PRUNE, "pruner keeps the floor entry", "keeps keys >= max(k <= min(last steps) - max(pulled shifts))", fi.loc)


from ..report import VIOLATED, DISCHARGED  # noqa: E402
from ..terms import call  # noqa: E402
