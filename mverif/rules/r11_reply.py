"""R11 REPLY-CHECKS (+ the reply-related rows of R10 VALIDATE-FIRST and R4 SCHEDULE):
decision tables of scheduler.step and scheduler.get_outputs over the reply value."""
from __future__ import annotations

from typing import Dict, List, Optional

import ast

import networkx as nx

from .base import *  # noqa: F401,F403
from . import tables
from .. import boolfn
from ..report import VIOLATED, DISCHARGED

STEP = "mosaik.scheduler.step"
GETOUT = "mosaik.scheduler.get_outputs"
SIMPROC = "mosaik.scheduler.sim_process"
SIMERR = "mosaik.exceptions.SimulationError"

MIN_INSTANCES = 16


def is_simulation_error(ctx: Ctx, t: Term) -> bool:
    if t[0] != "call" or t[1][0] != "glob":
        return False
    name = t[1][1]
    if name == SIMERR:
        return True
    ci = ctx.prog.classes.get(name)
    return ci is not None and any(c.qualname == SIMERR for c in ctx.prog.mro(ci))


def names_sim(t: Term, sim: Term) -> bool:
    return T.contains(t, ("attr", sim, "sid"))


def run(ctx: Ctx) -> Collector:
    c = Collector("R11")
    _step(ctx, c)
    _outputs(ctx, c)
    _conn_error(ctx, c)
    _raw(ctx, c)
    _local_call(ctx, c)
    return c


LOCAL_SEND = "mosaik.proxies.LocalProxy.send"


def _local_call(ctx: Ctx, c: Collector) -> None:
    """In-process simulators: an exception that escapes from the simulator's method reaches the scheduler.  The handler
    of the generator protocol (`except StopIteration: return stop.value`) ends in a normal return, so it may only
    guard the driving of a generator (next / send) -- and the call that merely creates one -- never the call of a
    plain method: a StopIteration escaping from that one would become the reply `None` ("no next step")."""
    fi = ctx.prog.functions.get(LOCAL_SEND)
    if fi is None:
        raise AnalysisError(f"R11/local: {LOCAL_SEND} not found")
    s = ctx.summ(LOCAL_SEND)
    me = T.var(fi.params[0])
    look = [e.term for e in s.of_kind("call") if e.term[1] == T.glob("getattr") and e.term[2][:1] == (("attr", me, "sim"),)]
    calls = [e for e in s.of_kind("call") if e.term[1] in look]
    if not look or not calls:
        c.unk("local", LOCAL_SEND, "simulator method call", "the call of the simulator's method was not found", fi.loc)
        return
    pr = []
    for e in calls:
        isgen = call(T.glob("inspect.isgeneratorfunction"), e.term[1])
        only_creates = any(T.guard_term(g) == isgen for g in e.guards)
        for tid, role in e.tries:
            if role != "body":
                continue
            for h in s.of_kind("test"):
                if h.term[0] != "except" or (tid, "handler") not in h.tries:
                    continue
                inside = [x for x in s.events if (tid, "handler") in x.tries and x.idx > h.idx]
                if any(x.kind == "return" for x in inside) and not any(x.kind == "raise" for x in inside) and not only_creates:
                    pr.append(f"the simulator's method is called (line {e.lineno}) inside the try whose `except {T.show(h.term[1])}` ends in a normal return: an exception of that kind "
                              "escaping from a plain method becomes a reply instead of aborting the run")
    c.add("local", LOCAL_SEND, "exceptions of a plain simulator method are not caught by the generator-protocol handler", VIOLATED if pr else DISCHARGED, "; ".join(sorted(set(pr))), fi.loc)
    # the other half: every call that *drives* the generator (next(gen), gen.send(...)) is guarded by the handler of the
    # generator protocol -- a generator-style method that finishes without yielding (nothing to ask mosaik this time) raises
    # StopIteration at the very first next(); outside the try it escapes from the coroutine as a RuntimeError and the run dies
    gens = {b.term[1] for b in s.of_kind("bind") if T.strip(b.term[2])[0] == "call" and T.strip(b.term[2])[1] in look}
    gens |= {T.strip(b.term[2]) for b in s.of_kind("bind") if T.strip(b.term[2])[0] == "call" and T.strip(b.term[2])[1] in look}
    drives = [e for e in s.of_kind("call") if (e.term[1] == T.glob("next") and e.term[2] and T.strip(e.term[2][0]) in gens)
              or (e.term[1][0] == "attr" and e.term[1][2] in ("send", "__next__") and T.strip(e.term[1][1]) in gens)]
    pr2 = []
    stop_tries = {tid for h in s.of_kind("test") if h.term[0] == "except" and "StopIteration" in T.show(h.term[1]) for tid, role in h.tries if role == "handler"}
    for e in drives:
        if not any(role == "body" and tid in stop_tries for tid, role in e.tries):
            pr2.append(f"{T.show(e.term)[:40]} (line {e.lineno}) drives the simulator's generator outside the try that handles StopIteration: a generator-style method that "
                       "returns without yielding ends the run with a RuntimeError instead of delivering its return value")
    if drives:
        c.add("local", LOCAL_SEND, "every next()/send() on the simulator's generator is guarded by the StopIteration handler", VIOLATED if pr2 else DISCHARGED, "; ".join(sorted(set(pr2))), fi.loc)


def _step(ctx: Ctx, c: Collector) -> None:
    fi = ctx.func(STEP)
    s = ctx.summ(STEP)
    sim = T.var(param_by_annotation(fi, "SimRunner", 1))
    world = T.var(param_by_annotation(fi, "World", 0))
    cur = ("attr", sim, "current_step")
    curt = ("attr", cur, "time")
    # the reply value: the awaited result of sim.step(...)
    X = None
    for e in s.of_kind("await"):
        if e.term[0] == "call" and e.term[1] == ("attr", sim, "step"):
            X = ("await", e.term)
            step_ev = e
    if X is None:
        c.bad("reply", STEP, "reply-value", "sim.step(...) is never awaited", fi.loc)
        return
    until = ("attr", world, "until")
    A_none = ("cmp", "is", X, T.NONE)
    A_int = call(T.glob("isinstance"), X, T.glob("int"))
    A_le_cur = ("cmp", "<", curt, X)          # leaf: cur < X   (X <= cur is its negation)
    A_lt_until = ("cmp", "<", X, until)
    A_tb = T.canon_cmp("==", ("attr", sim, "type"), T.const("time-based"))
    A_zero = ("falsy-int", X)

    def truthy(t: Term) -> Optional[bool]:
        if t == ("cmp", "isnot", cur, T.NONE) or t == cur:
            return True
        if t == ("cmp", "is", cur, T.NONE):
            return False          # the function is only called while a step is being performed (and says so first)
        return None

    raises = [e for e in s.of_kind("raise") if e.idx > step_ev.idx]
    scheds = [e for e in s.of_kind("call") if e.term[1] == ("attr", sim, "schedule_step")]
    items = [(f"raise{e.idx}", _expand_truthy(e.guards, X, A_none, A_zero)) for e in raises] + \
            [(f"sched{e.idx}", _expand_truthy(e.guards, X, A_none, A_zero)) for e in scheds]
    loc = ctx.loc(fi, step_ev)

    def constraint(a: Dict[Term, bool]) -> bool:
        g = lambda t: a.get(boolfn.canon_leaf(t)[0])  # noqa: E731
        if a[A_none] and (a[A_int] or a.get(A_zero, False)):
            return False
        if a.get(A_zero, False) and (not a[A_int] or a[A_le_cur]):
            return False       # 0 is an int and 0 <= current time
        if not a[A_le_cur] and not a[A_lt_until] and not a[A_none] and a[A_int]:
            return False       # X <= cur < until
        return True

    must = [A_none, A_int, A_le_cur, A_lt_until, A_tb, A_zero]
    problems: Dict[str, List[str]] = {"not-int": [], "not-later": [], "tb-none": [], "schedule": [], "spurious": []}
    nrows = 0
    try:
        for a, fired in tables.rows(items, must, truthy, constraint):
            nrows += 1
            r = [x for x in fired if x.startswith("raise")]
            sc = [x for x in fired if x.startswith("sched")]
            none, isint, later, lt_until, tb = a[A_none], a[A_int], a[A_le_cur], a[A_lt_until], a[A_tb]
            if none:
                if tb and not r:
                    problems["tb-none"].append("a time-based simulator returning None is accepted")
                if not tb and r:
                    problems["spurious"].append("None from a non-time-based simulator is rejected")
                if sc:
                    problems["schedule"].append("a step is scheduled although the reply is None")
            elif not isint:
                if not r:
                    problems["not-int"].append("a non-integer next-step time is accepted")
                if sc:
                    problems["not-int"].append("a non-integer next-step time is turned into a step")
            elif not later:
                zero = " (0 / a falsy integer)" if a.get(A_zero) else ""
                if not r:
                    problems["not-later"].append(f"a next-step time{zero} that is not later than the current step is accepted")
                if sc:
                    problems["not-later"].append(f"a next-step time{zero} that is not later than the current step is scheduled")
            else:
                if r:
                    problems["spurious"].append("a valid next-step time is rejected")
                if lt_until and not sc:
                    problems["schedule"].append("a valid next-step time before `until` is not scheduled")
                if not lt_until and sc:
                    problems["schedule"].append("a next-step time at or after `until` is scheduled")
    except boolfn.NotBoolean as e:
        c.unk("reply", STEP, "reply-table", f"condition not understood: {e}", loc)
        return
    labels = {"not-int": "not-an-int", "not-later": "not-later", "tb-none": "time-based-without-next", "schedule": "self-step iff < until", "spurious": "no spurious rejection"}
    for k, pr in problems.items():
        if pr:
            c.bad(k, STEP, labels[k], "; ".join(sorted(set(pr))), loc)
        else:
            c.ok(k, STEP, labels[k], f"decision table over {nrows} rows", loc)
    # rejections are SimulationErrors naming the simulator
    for e in raises:
        what = T.show(T.guard_term(e.guards[-1])).replace(T.show(X), "<reply>")[:80] if e.guards else "unconditional"
        if not is_simulation_error(ctx, e.term):
            c.bad("exc", STEP, f"rejection[{what}]", f"raises {T.show(e.term)[:80]} instead of a SimulationError", ctx.loc(fi, e))
        elif not names_sim(e.term, sim):
            c.bad("exc", STEP, f"rejection[{what}]", "the error does not name the simulator (sim.sid)", ctx.loc(fi, e))
        else:
            c.ok("exc", STEP, f"rejection[{what}]", "SimulationError naming sim.sid", ctx.loc(fi, e))
    # asserts on the reply do not count as rejections, and must not be the only check
    for e in s.of_kind("assert"):
        if T.contains(e.term, X):
            c.bad("exc", STEP, "assert-on-reply", "a reply is validated by a bare assert (vanishes under -O, does not name the simulator)", ctx.loc(fi, e))
    # scheduled value
    want = ("op", "+", call(T.glob("mosaik.tiered_time.TieredTime"), X), ("attr", sim, "from_world_time"))
    for e in scheds:
        got = e.term[2][0] if e.term[2] else T.NONE
        c.check(got == want, "sched-value", STEP, "scheduled-self-step", f"schedules {T.show(got).replace(T.show(X), '<reply>')} instead of TieredTime(<reply>) + sim.from_world_time", ctx.loc(fi, e))
    # the time sent to the simulator is the main time of the popped step; last_step is updated
    t0 = step_ev.term[2][0] if step_ev.term[2] else T.NONE
    c.check(t0 == curt, "time-arg", STEP, "step-time", f"the simulator is stepped with {T.show(t0)} instead of sim.current_step.time", loc)
    ls = [e for e in s.of_kind("store") if e.term[1] == ("attr", sim, "last_step")]
    c.check(bool(ls) and ls[0].term[2] == cur and ls[0].idx > step_ev.idx and ls[0].guards == step_ev.guards, "last-step", STEP, "last_step := current_step after the step",
            "sim.last_step is not set to the performed step right after the step", loc)


def _expand_truthy(guards, X: Term, A_none: Term, A_zero: Term):
    """Rewrite a bare truthiness test of the reply (`if next_step_time:`) into
    `not (X is None) and not falsy-int(X)`."""
    def rw(t):
        if not isinstance(t, tuple):
            return t
        if t == X:
            return ("and", (("not", A_none), ("not", A_zero)))
        if t and t[0] in ("cmp", "call", "attr", "idx", "op"):
            return t
        return tuple(rw(x) for x in t)
    return tuple(("g", rw(g[1]), g[2]) for g in guards)


def _outputs(ctx: Ctx, c: Collector) -> None:
    fi = ctx.func(GETOUT)
    s = ctx.summ(GETOUT)
    sim = T.var(param_by_annotation(fi, "SimRunner", 1))
    lastt = ("attr", ("attr", sim, "last_step"), "time")
    data = None
    for e in s.of_kind("await"):
        if e.term[0] == "call" and e.term[1] == ("attr", sim, "get_data"):
            data = ("await", e.term)
            dev = e
    if data is None:
        c.bad("out", GETOUT, "output-time", "sim.get_data(...) is never awaited", fi.loc)
        return
    OT = call(("attr", data, "get"), T.const("time"), lastt)
    raises = [e for e in s.of_kind("raise") if e.idx > dev.idx]
    effects = []
    for e in s.events:
        if e.idx <= dev.idx:
            continue
        if e.kind == "store" and e.term[1][0] in ("idx", "attr") and (T.contains(e.term[1], ("attr", sim, "outputs")) or e.term[1] == ("attr", sim, "data")):
            effects.append(e)
        if e.kind == "call" and e.term[1][0] == "attr" and e.term[1][2] == "add" and e.term[1][1][0] == "attr" and e.term[1][1][2] == "timed_input_buffer":
            effects.append(e)
    A_early = ("cmp", "<", OT, lastt)
    # rejections of replies that are malformed in another way (not a mapping, a time that cannot be compared:
    # a negative isinstance test or an exception handler) do not reject a *valid* output time
    def other_class(e: Event) -> bool:
        if any(r == "handler" for _, r in e.tries):
            return True
        for g in e.guards:
            gt = T.guard_term(g)
            if gt[0] == "not" and gt[1][0] == "call" and gt[1][1] == T.glob("isinstance"):
                return True
        return False
    raises = [e for e in raises if not other_class(e)]
    items = [(f"raise{e.idx}", e.guards) for e in raises] + [(f"eff{e.idx}", e.guards) for e in effects]
    loc = ctx.loc(fi, dev)
    pr: List[str] = []
    try:
        def truthy(t):
            if t in (("cmp", "isnot", ("attr", sim, "current_step"), T.NONE),):
                return True
            if t[0] == "call" and t[1] == T.glob("isinstance") and t[2] and (t[2][0] == data or T.strip(t[2][0]) == OT):
                return True           # a well-formed reply
            return None
        for a, fired in tables.rows(items, [A_early], truthy):
            r = [x for x in fired if x.startswith("raise")]
            ef = [x for x in fired if x.startswith("eff")]
            if a[A_early]:
                # only rows in which the output is actually retrieved matter
                if not r and ef:
                    pr.append("an output time earlier than the step time is accepted")
                if r and ef:
                    pr.append("output with an output time earlier than the step is stored/pushed before it is rejected")
            else:
                if r:
                    pr.append("a valid output time is rejected")
    except boolfn.NotBoolean as e:
        c.unk("out", GETOUT, "output-before-step", f"condition not understood: {e}", loc)
        return
    if not raises:
        pr.append("an output time earlier than the step time is never rejected")
    if pr:
        c.bad("out", GETOUT, "output-before-step", "; ".join(sorted(set(pr))), loc)
    else:
        c.ok("out", GETOUT, "output-before-step", f"rejection dominates {len(effects)} effect(s) (cache store, buffer push, data)", loc)
    for e in raises:
        if not is_simulation_error(ctx, e.term):
            c.bad("exc", GETOUT, "rejection[output-time]", f"raises {T.show(e.term)[:80]} instead of a SimulationError", ctx.loc(fi, e))
        elif not names_sim(e.term, sim):
            c.bad("exc", GETOUT, "rejection[output-time]", "the error does not name the simulator", ctx.loc(fi, e))
        else:
            c.ok("exc", GETOUT, "rejection[output-time]", "SimulationError naming sim.sid", ctx.loc(fi, e))


def _conn_error(ctx: Ctx, c: Collector) -> None:
    fi = ctx.func(SIMPROC)
    s = ctx.summ(SIMPROC)
    sim = T.var(param_by_annotation(fi, "SimRunner", 1))
    ok = False
    for e in s.of_kind("raise"):
        if any(r == "handler" for _, r in e.tries) and is_simulation_error(ctx, e.term) and names_sim(e.term, sim):
            # handler catches ConnectionError
            hs = [h for h in s.of_kind("test") if h.term[0] == "except" and h.tries == e.tries and h.idx < e.idx]
            if hs and T.contains(hs[-1].term, T.glob("ConnectionError")):
                ok = True
    # the whole loop must be inside that try
    steps = [e for e in s.of_kind("await") if is_call_to(e.term, "step", "get_outputs")]
    inside = all(any(r == "body" for _, r in e.tries) for e in steps) and bool(steps)
    c.check(ok and inside, "conn", SIMPROC, "ConnectionError->SimulationError", "a lost connection during step/get_data is not converted into a SimulationError naming the simulator", fi.loc)


from ..terms import call  # noqa: E402


# --------------------------------------------------------------------------- reply integrity
WRAPPERS = (
    # (function, attribute of self that is forwarded to, method, what)
    ("mosaik.simmanager.SimRunner.step", "_proxy", "send", "the step reply"),
    ("mosaik.simmanager.SimRunner.get_data", "_proxy", "send", "the get_data reply"),
    ("mosaik.proxies.RemoteProxy.send", "_channel", "send", "the remote reply"),
    ("mosaik.adapters.Adapter.send", "_out", "send", "the reply"),
    ("mosaik.adapters.V3ToV2Adapter.send", "_out", "send", "the reply"),
    ("mosaik.adapters.V2ToV1Adapter.send", "_out", "send", "the reply"),
)


def _raw(ctx: Ctx, c: Collector) -> None:
    """What scheduler.step / get_outputs validate is the simulator's reply itself: every wrapper on
    the way (SimRunner, adapters, remote proxy) returns exactly the awaited forward -- not a
    converted, defaulted or edited value -- and no exception handler of a wrapper ends in a normal
    return (which would hand `None`, "no next step", to the scheduler in place of the error)."""
    from ..cfg import RETURN
    from ..flow import _MUTATORS
    for qn, fld, meth, what in WRAPPERS:
        fi = ctx.prog.functions.get(qn)
        if fi is None:
            raise AnalysisError(f"R11/raw: wrapper {qn} not found")
        s = ctx.summ(qn)
        me = T.var(fi.params[0])
        fwd = [e for e in s.of_kind("await") if e.term[0] == "call" and e.term[1] == ("attr", ("attr", me, fld), meth)]
        pr: List[str] = []
        if not fwd:
            pr.append(f"nothing is forwarded to self.{fld}.{meth}")
        replies = {("await", e.term) for e in fwd}
        aliases = {b.term[1] for b in s.of_kind("bind") if T.strip(b.term[2]) in replies}
        if fwd and not s.returns:
            pr.append(f"{what} is received but not returned: the caller gets None")
        def settle(t, guards):
            """the value on the path of its own guards: the no-exception side of a try-merge, and the side of a conditional whose
            condition is one of the guards"""
            def notry(x):
                if isinstance(x, tuple):
                    if len(x) == 4 and x[0] == "phi" and x[1] == ("unknown", "try-merge"):
                        return notry(x[2])
                    return tuple(notry(y) for y in x)
                return x
            t = notry(t)
            pos = {T.guard_term(notry(g)) for g in guards}
            for _ in range(4):
                if isinstance(t, tuple) and len(t) == 4 and t[0] == "phi":
                    if t[1] in pos:
                        t = t[2]
                        continue
                    if T.negate(t[1]) in pos:
                        t = t[3]
                        continue
                break
            return t
        for r in s.returns:
            v = unalias(T.strip(r.term), s, fi)
            if v in replies or v in aliases or (v == T.NONE and r.term == T.NONE and qn.endswith("V2ToV1Adapter.send")):
                continue
            if qn.endswith("V2ToV1Adapter.send") and settle(T.strip(r.term), r.guards) == T.NONE and r.guards:
                continue        # the local answer to setup_done, reached through an answer object
            pr.append(f"returns {T.show(r.term)[:70]} (line {r.lineno}) instead of {what} as received: the scheduler validates a value the simulator did not send")
        # the reply object is not edited on the way
        for e in s.events:
            if e.kind == "call" and e.term[1][0] == "attr" and e.term[1][2] in _MUTATORS and (T.strip(e.term[1][1]) in replies or e.term[1][1] in aliases):
                pr.append(f"{what} is modified ({T.show(e.term)[:60]}, line {e.lineno}) before the scheduler validates it")
            if e.kind in ("store", "del") and e.term[1][0] == "idx" and (T.strip(e.term[1][1]) in replies or e.term[1][1] in aliases):
                pr.append(f"{what} is modified ({T.show(e.term)[:60]}, line {e.lineno}) before the scheduler validates it")
        # handlers: no normal way out other than an explicit return of the forward
        g = ctx.cfg(qn)
        normal = g.view(kinds=g.NORMAL)
        # (only a handler whose try block contains an await can receive the failure of the forward: a handler around the
        #  synchronous unpacking / rewriting of the request falls through to the forward or to the request's own answer)
        guarded_awaits = {id(h) for t in ast.walk(fi.node) if isinstance(t, ast.Try) and any(isinstance(x, ast.Await) for b in t.body for x in ast.walk(b))
                          for h in t.handlers}
        for n in ast.walk(fi.node):
            if not isinstance(n, ast.ExceptHandler) or id(n) not in guarded_awaits:
                continue
            try:
                hk = g.key(n)
            except KeyError:
                continue
            reach = set(nx.descendants(normal, hk)) | {hk}
            for k in reach:
                if k in (RETURN,) or not normal.has_edge(k, RETURN):
                    continue
                st = g.ast_of.get(k)
                if isinstance(st, ast.Return) and st.value is not None and not (isinstance(st.value, ast.Constant) and st.value.value is None):
                    continue            # an explicit return: checked above as a return value
                if isinstance(st, ast.Return) and qn.endswith("V2ToV1Adapter.send"):
                    continue
                pr.append(f"the handler `except {ast.unparse(n.type) if n.type is not None else ''}` (line {n.lineno}) can end without re-raising: "
                          f"the wrapper then returns None in place of {what}, and the error of the simulator is lost")
        c.add("raw", qn, f"{what} reaches the scheduler unchanged; handlers re-raise", VIOLATED if pr else DISCHARGED, "; ".join(sorted(set(pr))), fi.loc)

    # the scheduler itself only reads the reply: for an in-process simulator it is the simulator's own object
    for qn, meth, what in ((GETOUT, "get_data", "the get_data reply"), (STEP, "step", "the step reply")):
        fi = ctx.func(qn)
        s = ctx.summ(qn)
        sim = T.var(param_by_annotation(fi, "SimRunner", 1))
        fwd = [e for e in s.of_kind("await") if e.term[0] == "call" and e.term[1] == ("attr", sim, meth)]
        replies = {("await", e.term) for e in fwd}
        aliases = {b.term[1] for b in s.of_kind("bind") if T.strip(b.term[2]) in replies}
        pr = []
        if not fwd:
            pr.append(f"sim.{meth}() is never awaited")
        for e in s.events:
            if e.kind == "call" and e.term[1][0] == "attr" and e.term[1][2] in (_MUTATORS - {"set", "cancel"}) and (T.strip(e.term[1][1]) in replies or e.term[1][1] in aliases):
                pr.append(f"{what} is modified ({T.show(e.term)[:60]}, line {e.lineno}): with an in-process simulator this changes the simulator's own object "
                          "(a remote simulator's reply is a copy), so the same simulator behaves differently in-process and remote")
            if e.kind in ("store", "del") and e.term[1][0] == "idx" and (T.strip(e.term[1][1]) in replies or e.term[1][1] in aliases):
                pr.append(f"{what} is modified ({T.show(e.term)[:60]}, line {e.lineno}): with an in-process simulator this changes the simulator's own object")
        c.add("raw", qn, f"{what} is only read", VIOLATED if pr else DISCHARGED, "; ".join(sorted(set(pr))), fi.loc)
