"""R6 ORDER — the comparison methods of tiered times / intervals are lexicographic orders; plus
the generic contradiction rule (a test that repeats an earlier test whose branch always leaves
the block is dead code)."""
from __future__ import annotations

import ast
from typing import Any, Dict, List, Optional

from .base import *  # noqa: F401,F403
from . import tables
from .. import boolfn

TT = "mosaik.tiered_time.TieredTime"
TI = "mosaik.tiered_time.TieredInterval"
MIN_INSTANCES = 8


def run(ctx: Ctx) -> Collector:
    c = Collector("R6")
    _class_shape(ctx, c, TT)
    _class_shape(ctx, c, TI)
    _tt_lt(ctx, c)
    _ti_lt(ctx, c)
    _ti_init(ctx, c)
    _additions(ctx, c)
    _contradictions(ctx, c)
    return c


def _class_shape(ctx: Ctx, c: Collector, qn: str) -> None:
    ci = ctx.prog.cls(qn)
    decs = [ast.unparse(d) for d in ci.decorators]
    tot = any(d.endswith("total_ordering") for d in decs)
    frozen = any(d.startswith("dataclass") and "frozen=True" in d.replace(" ", "") and "eq=False" not in d.replace(" ", "") for d in decs)
    own = set(ci.methods)
    pr = []
    if not tot:
        # without total_ordering every rich comparison must be defined explicitly
        if not {"__lt__", "__le__", "__gt__", "__ge__"} <= own:
            pr.append("no functools.total_ordering and not all of __lt__/__le__/__gt__/__ge__ are defined")
    if not frozen and "__eq__" not in own:
        pr.append("not a frozen dataclass with field equality: == is not tier equality, so the derived <=, >= are inconsistent")
    for m in ("__le__", "__gt__", "__ge__"):
        if m in own:
            mfi = ci.methods[m]
            ms = summarise(ctx.prog, mfi)
            a, b = T.var(mfi.params[0]), T.var(mfi.params[1])
            lt_ab, lt_ba, eq = ("cmp", "<", a, b), ("cmp", "<", b, a), T.canon_cmp("==", a, b)
            # required value under the trichotomy rows (lt, gt, eq)
            need = {"__le__": (True, False, True), "__gt__": (False, True, False), "__ge__": (False, True, True)}[m]
            okm = len(ms.returns) == 1
            if okm:
                try:
                    for i, row in enumerate(({lt_ab: True, lt_ba: False, eq: False}, {lt_ab: False, lt_ba: True, eq: False}, {lt_ab: False, lt_ba: False, eq: True})):
                        if boolfn.eval_leaves(ms.returns[0].term, row) != need[i]:
                            okm = False
                except boolfn.NotBoolean:
                    okm = False
            if not okm:
                pr.append(f"hand-written {m} does not agree with __lt__ and == (for equal / ordered operands it gives the wrong answer or is not understood)")
    # a hand-written == / hash must identify exactly what the generated one identifies: every field
    # (two delays with equal tiers but different cutoffs are different delays)
    fields = set(ci.fields)
    for m in ("__eq__", "__hash__"):
        if m in own and fields:
            mfi = ci.methods[m]
            ms = summarise(ctx.prog, mfi)
            me = T.var(mfi.params[0])
            rv = folded_return(ms)
            read = T.fields_of((rv,), me) if rv is not None else set()
            whole = rv is not None and any(x[0] == "call" and x[1][0] == "glob" and x[1][1].endswith(("astuple", "asdict")) for x in T.subterms((rv,)))
            missing = sorted(fields - read)
            if m == "__eq__" and missing and not whole:
                pr.append(f"hand-written __eq__ ignores {', '.join(missing)}: values that differ only there compare equal (for delays: equal tiers, different cutoff -- one of them is strictly smaller), "
                          "so ==, <=, >= and update_min treat different delays as the same")
            if m == "__hash__" and "__eq__" not in own and missing and not whole:
                pr.append(f"hand-written __hash__ ignores {', '.join(missing)} (only a performance matter while == is field equality)")
                pr.pop()
    # ... and the generated == must see every field as well: `field(compare=False)` takes a field out of == and hash
    if "__eq__" not in own:
        for st in ci.node.body:
            if isinstance(st, ast.AnnAssign) and isinstance(st.target, ast.Name) and isinstance(st.value, ast.Call) \
                    and ast.unparse(st.value.func).rsplit(".", 1)[-1] == "field":
                for kwd in st.value.keywords:
                    if kwd.arg == "compare" and isinstance(kwd.value, ast.Constant) and kwd.value.value is False:
                        pr.append(f"the field {st.target.id} is declared with field(compare=False): the generated == and hash ignore it, so values that differ only there compare equal "
                                  "(for delays: equal tiers, different cutoff -- one of them is strictly smaller), and ==, <=, >= and update_min treat different delays as the same")
        for d in ci.decorators:
            if isinstance(d, ast.Call) and ast.unparse(d.func).rsplit(".", 1)[-1] == "dataclass":
                for kwd in d.keywords:
                    if kwd.arg == "eq" and isinstance(kwd.value, ast.Constant) and kwd.value.value is False:
                        pr.append("@dataclass(eq=False): == is identity, so two equal times / delays are neither ==, nor <= , nor >=")
    c.add("class", qn, "total_ordering+frozen dataclass", VIOLATED if pr else DISCHARGED, "; ".join(pr), f"{ci.module.relpath}:{ci.node.lineno}")


def _tt_lt(ctx: Ctx, c: Collector) -> None:
    qn = TT + ".__lt__"
    fi = ctx.func(qn)
    s = ctx.summ(qn)
    me, other = T.var(fi.params[0]), T.var(fi.params[1])
    want = ("cmp", "<", ("attr", me, "tiers"), ("attr", other, "tiers"))
    rets = s.returns

    def unw(t):
        while t[0] == "call" and t[1] in (T.glob("tuple"), T.glob("list")) and len(t[2]) == 1:
            t = t[2][0]
        return t
    ok = len(rets) == 1 and rets[0].term[0] == "cmp" and rets[0].term[1] == "<" and (unw(rets[0].term[2]), unw(rets[0].term[3])) == (want[2], want[3])
    lens = T.canon_cmp("==", call(T.glob("len"), me), call(T.glob("len"), other))
    lens2 = T.canon_cmp("==", call(T.glob("len"), ("attr", me, "tiers")), call(T.glob("len"), ("attr", other, "tiers")))
    asserted = any(e.term[1] in (lens, lens2) for e in s.of_kind("assert"))
    pr = []
    if not ok:
        pr.append(f"returns {T.show(rets[0].term) if rets else 'nothing'} instead of the tuple comparison self.tiers < other.tiers")
    if not asserted:
        pr.append("no assertion that both times have the same number of tiers (tuple comparison of different lengths silently orders by prefix)")
    c.add("tt-lt", qn, "tuple comparison under a length assertion", VIOLATED if pr else DISCHARGED, "; ".join(pr), fi.loc)


def _ti_lt(ctx: Ctx, c: Collector) -> None:
    """The scan loop of TieredInterval.__lt__ is read as a finite transducer: its input letters are
    (relation of the two tiers, kind of the tier for each operand), its state the Boolean locals
    carried from one iteration to the next.  The product with the specification automaton is
    explored exhaustively; every reachable (state, letter) must give the specified outcome."""
    qn = TI + ".__lt__"
    fi = ctx.func(qn)
    s = ctx.summ(qn)
    me, other = T.var(fi.params[0]), T.var(fi.params[1])
    loc = fi.loc
    # the scan loop: iteration over zip(self.tiers, other.tiers), possibly enumerate()d
    zp = call(T.glob("zip"), ("attr", me, "tiers"), ("attr", other, "tiers"))
    sv = ov = iv = None
    in_loop = [e for e in s.events if e.iters]
    for e in in_loop:
        it = e.iters[0]
        src = T.strip(it[2])
        if src == zp and it[1][0] == "tuple" and len(it[1][1]) == 2:
            sv, ov = it[1][1]
        elif src == call(T.glob("enumerate"), zp) and it[1][0] == "tuple" and len(it[1][1]) == 2 and it[1][1][1][0] == "tuple":
            sv, ov = it[1][1][1][1]
            iv = it[1][1][0]
        break
    if sv is None:
        c.unk("ti-lt", qn, "lexicographic scan", "no loop over zip(self.tiers, other.tiers) found", loc)
        return
    LT = ("cmp", "<", sv, ov)
    GT = ("cmp", "<", ov, sv)
    EQ = T.canon_cmp("==", sv, ov)
    sc, oc = ("attr", me, "cutoff"), ("attr", other, "cutoff")
    C_LT, C_GT, C_EQ = ("cmp", "<", sc, oc), ("cmp", "<", oc, sc), T.canon_cmp("==", sc, oc)
    L1 = ("cmp", "<", iv, sc) if iv is not None else None      # tier i is an "add" tier of self
    L2 = ("cmp", "<", iv, oc) if iv is not None else None      # tier i is an "add" tier of other
    # a shortcut in front of the scan for delays with identical tiers: two such delays are ordered by their cutoffs (the one that
    # stops adding first arrives earlier or at the same time), so the answer is `self.cutoff < other.cutoff`
    TEQ = T.canon_cmp("==", ("attr", me, "tiers"), ("attr", other, "tiers"))
    first_loop_idx = in_loop[0].idx
    shortcuts = []
    for r in [r for r in s.returns if not r.iters and r.idx < first_loop_idx]:
        own_g = [T.guard_term(g) for g in r.guards if T.contains((g,), ("attr", me, "tiers")) or T.contains((g,), ("attr", other, "tiers"))]
        if own_g and all(T.canon_cmp(*x[1:]) == TEQ if (x[0] == "cmp" and x[1] in ("==", "!=")) else False for x in own_g) and all(x[1] == "==" for x in own_g):
            bad_sc = []
            for label, asg in (("self.cutoff < other.cutoff", {C_LT: True, C_GT: False, C_EQ: False}), ("other.cutoff < self.cutoff", {C_LT: False, C_GT: True, C_EQ: False}),
                               ("equal cutoffs", {C_LT: False, C_GT: False, C_EQ: True})):
                try:
                    got = boolfn.eval_leaves(r.term, asg)
                except boolfn.NotBoolean:
                    got = None
                want = asg[C_LT]
                if got is None or got != want:
                    bad_sc.append(f"{label}: answers {got if got is not None else T.show(r.term)[:30]} instead of {want}")
            if not bad_sc:
                shortcuts.append(r)         # a correct shortcut: the scan below is judged for the other inputs
            if bad_sc:
                c.bad("ti-lt", qn, "lexicographic scan", "a shortcut for identical tiers bypasses the tie-break by the cutoffs (" + "; ".join(bad_sc) + "): two delays with equal tiers and "
                      "different cutoffs are then neither <, nor ==, so min / update_min depend on the order of their arguments", ctx.loc(fi, r))
                return
    # guards outside the loop (length assertions) are not part of the per-tier decision
    tail = [r for r in s.returns if not r.iters and r not in shortcuts]
    pre = list(in_loop[0].guards)
    for r in list(tail) + in_loop:
        pre = [g for g in pre if g in r.guards]

    def own(gs):
        return [g for g in gs if g not in pre]
    outcomes = []           # (label, guards) in program order
    for e in in_loop:
        if e.kind == "return":
            outcomes.append((e.term, own(e.guards)))
        elif e.kind == "assert" and e.term[1] == T.const(False):
            outcomes.append(("abort", own(e.guards)))
        elif e.kind == "assert":
            outcomes.append(("abort", own(e.guards) + [("g", e.term[1], False)]))
        elif e.kind == "raise":
            outcomes.append(("abort", own(e.guards)))
    # loop-carried state: locals bound inside the loop that are still read as variables
    # (single-definition locals have been substituted by their value)
    reads = set()
    for e in s.events:
        for part in [e.term] + [g[1] for g in e.guards]:
            if e.kind == "bind":
                part = part[2] if part is e.term else part
            reads |= {x[1] for x in T.subterms((T.strip(part),)) if x[0] == "var"}
    state_vars = []
    updates = []            # (var, value term, guards, event)
    for e in in_loop:
        if e.kind == "bind" and e.term[1][0] == "var" and e.term[1][1] in reads and e.term[1] not in (sv, ov, iv):
            if e.term[1][1] not in state_vars:
                state_vars.append(e.term[1][1])
            updates.append((e.term[1][1], e.term[2], own(e.guards), e))
    init = {}
    for v in state_vars:
        b = [e for e in s.of_kind("bind") if not e.iters and e.term[1] == T.var(v)]
        if len(b) != 1 or b[0].term[2][0] != "const" or not isinstance(b[0].term[2][1], bool):
            c.unk("ti-lt", qn, "lexicographic scan", f"loop-carried local `{v}` is not a Boolean flag initialised before the loop", loc)
            return
        init[v] = b[0].term[2][1]
    # a flag that is updated before it is tested in the same iteration is not modelled
    for v, _, _, ev in updates:
        pos = s.events.index(ev)
        for e in s.events[pos + 1:]:
            if e.iters and e.kind == "test" and T.contains((e.term,), T.var(v)):
                c.unk("ti-lt", qn, "lexicographic scan", f"flag `{v}` is updated before it is tested within one iteration", loc)
                return

    REL = {"lt": "self < other", "eq": "equal tiers", "gt": "other < self"}
    KIND = {"AA": "added by both", "SA": "added by self, replaced by other", "OA": "added by other, replaced by self", "EE": "replaced by both"}

    E1 = T.canon_cmp("==", iv, sc) if iv is not None else None
    E2 = T.canon_cmp("==", iv, oc) if iv is not None else None
    G1 = ("cmp", "<", sc, iv) if iv is not None else None
    G2 = ("cmp", "<", oc, iv) if iv is not None else None

    def assignment(rel, kind, direction, sigma):
        # kind = (position of the index relative to self.cutoff, ... to other.cutoff), each "b"elow / "a"t / a"B"ove
        a = {LT: rel == "lt", GT: rel == "gt", EQ: rel == "eq",
             C_LT: direction == "OA", C_GT: direction == "SA", C_EQ: direction is None}
        if iv is not None:
            ps, po = kind
            a[L1], a[E1], a[G1] = ps == "b", ps == "a", ps == "B"
            a[L2], a[E2], a[G2] = po == "b", po == "a", po == "B"
            # the index relative to the smaller / larger of the two cutoffs
            lo_pos = ps if direction in (None, "OA") else po
            hi_pos = po if direction in (None, "OA") else ps
            for name, pos in (("min", lo_pos), ("max", hi_pos)):
                for x, y in ((sc, oc), (oc, sc)):
                    agg = ("agg", name, ("bag", (("elem", x, (), ()), ("elem", y, (), ())), "args"), ())
                    a[("cmp", "<", iv, agg)], a[T.canon_cmp("==", iv, agg)], a[("cmp", "<", agg, iv)] = pos == "b", pos == "a", pos == "B"
        for v, val in sigma.items():
            a[T.var(v)] = val
        return a

    def cls_of(kind):
        ps, po = kind
        return {(True, True): "AA", (True, False): "SA", (False, True): "OA", (False, False): "EE"}[(ps == "b", po == "b")]

    def valid(kind, direction):
        if direction is None:
            return kind[0] == kind[1]
        ahead, behind = (kind[0], kind[1]) if direction == "OA" else (kind[1], kind[0])      # OA: self.cutoff < other.cutoff, self is ahead
        return (ahead, behind) in (("b", "b"), ("a", "b"), ("B", "b"), ("B", "a"), ("B", "B"))

    # index 0 lies below both cutoffs when the constructor asserts cutoff >= 1; otherwise a scan may start anywhere
    init_fi = ctx.prog.functions.get(TI + ".__init__")
    positive_cutoff = False
    if init_fi is not None:
        for e in summarise(ctx.prog, init_fi).of_kind("assert"):
            t = T.strip(e.term[1])
            if t[0] == "cmp" and T.contains((t,), T.var("cutoff")) and ((t[1] == "<=" and t[2] == T.const(1)) or (t[1] == "<" and t[2] == T.const(0))):
                positive_cutoff = True
    c.info["cutoff_at_least_one_asserted"] = positive_cutoff

    def successors(kind, direction):
        nxt = {"b": ("b", "a"), "a": ("B",), "B": ("B",)}
        if kind is None and positive_cutoff:
            cands = [("b", "b")]
        elif kind is None:
            cands = [(x, y) for x in "baB" for y in "baB"]
        else:
            cands = [(x, y) for x in nxt[kind[0]] for y in nxt[kind[1]]]
        return [k for k in cands if valid(k, direction)]

    def code_step(rel, kind, direction, sigma):
        a = assignment(rel, kind, direction, sigma)
        fired = []
        for lab, gs in outcomes:
            if boolfn.guards_hold_leaves(gs, a):
                if lab == "abort":
                    fired.append("abort")
                else:
                    try:
                        fired.append(bool(boolfn.eval_leaves(lab, a)))
                    except boolfn.NotBoolean:
                        fired.append("ret:" + T.show(lab))
        if fired:
            return fired[0], None
        nxt = dict(sigma)
        for v, val, gs, _ in updates:
            if boolfn.guards_hold_leaves(gs, a):
                a2 = dict(a)
                a2.update({T.var(k): x for k, x in nxt.items()})
                nxt[v] = bool(boolfn.eval_leaves(val, a2))
        return None, nxt

    def spec_step(rel, kind, q):
        if kind == "SA":
            return {"lt": ("abort", None), "gt": (False, None), "eq": (None, "SG")}[rel]
        if kind == "OA":
            return {"gt": ("abort", None), "lt": (True, None), "eq": (None, "OG")}[rel]
        if rel == "lt":
            return ("abort" if q == "SG" else True), None
        if rel == "gt":
            return ("abort" if q == "OG" else False), None
        return None, q

    def code_end(direction, sigma):
        a = assignment("eq", ("B", "B"), direction, sigma)
        for r in tail:
            if boolfn.guards_hold_leaves(own(r.guards), a):
                return bool(boolfn.eval_leaves(r.term, a))
        return None

    pr: List[str] = []
    explored = 0
    try:
        if iv is None and (updates or any(T.contains((g[1],), sc) or T.contains((g[1],), oc) for _, gs in outcomes for g in gs)):
            raise boolfn.NotBoolean("the tier index is not available (no enumerate) but cutoffs are tested")
        for direction in (None, "SA", "OA"):
            start = (None, tuple(sorted(init.items())), "N")
            seen = {start}
            todo = [start]
            while todo:
                pos, sig, q = todo.pop()
                sigma = dict(sig)
                hist = {"N": "", "SG": " after tiers that were equal where self adds and other replaces", "OG": " after tiers that were equal where other adds and self replaces"}[q]
                # end of the scan (all tiers equal).  Cutoffs do not exceed the number of tiers, so the last
                # index is at least cutoff - 1 for both operands: with different cutoffs the scan has seen
                # a tier between them
                ahead = None if pos is None or direction is None else (pos[0] if direction == "OA" else pos[1])
                if pos is not None and (direction is None or ahead in ("a", "B")):
                    got = code_end(direction, sigma)
                    want = q == "OG"
                    explored += 1
                    if got is None:
                        pr.append("nothing is returned after the scan")
                    elif got != want and want:
                        pr.append("delays with equal tiers whose cutoffs differ are neither <, == nor >: the one that replaces the tiers between the cutoffs is the smaller one (it never arrives later), so the fall-through must return True for it")
                    elif got != want:
                        pr.append("equal intervals do not compare as 'not less' (fall-through must return False)" if q == "N" else
                                  "the fall-through orders delays with equal tiers the wrong way round: the delay that adds between the cutoffs never arrives earlier")
                kinds = successors(pos, direction) if iv is not None else [("b", "b")]
                for kind in kinds:
                    kc = cls_of(kind)
                    for rel in ("lt", "eq", "gt"):
                        explored += 1
                        got, nsig = code_step(rel, kind, direction, sigma)
                        want, nq = spec_step(rel, kc, q)
                        if got != want:
                            at = "" if "a" not in kind else " (the tier right at " + ("both cutoffs" if kind == ("a", "a") else "self.cutoff" if kind[0] == "a" else "other.cutoff") + ": it is already replaced, not added)"
                            where = f"at a tier with {REL[rel]} ({KIND[kc]}){at}{hist}"
                            if want == "abort" and kc in ("SA", "OA"):
                                pr.append("a pair that differs first in a tier that is an add-tier of one and an ext-tier of the other is ordered instead of being reported incomparable" + at)
                            elif want == "abort":
                                pr.append(f"{where} the scan {'continues' if got is None else 'returns ' + str(got)} instead of reporting the pair incomparable: "
                                          "the adding delay arrives later whenever the departure time's tier is > 0, so a later tier must not make it the smaller one")
                            elif got == "abort":
                                pr.append(f"comparable delays are reported as incomparable ({where}; the add/ext flags of the two operands are mixed up)")
                            elif want is None:
                                pr.append("at a tier with equal values the scan does not continue")
                            elif rel == "lt":
                                pr.append(f"at a tier with self < other the scan {'continues' if got is None else 'gives ' + str(got)} instead of returning True")
                            else:
                                pr.append(f"at a tier with other < self the scan {'continues to the next tier' if got is None else 'gives ' + str(got)} instead of returning False: "
                                          "a later tier decides, so a < b and b < a can both hold")
                            continue
                        if got is None:
                            nxt = (kind, tuple(sorted(nsig.items())), nq)
                            if nxt not in seen:
                                seen.add(nxt)
                                todo.append(nxt)
    except boolfn.NotBoolean as ex:
        c.unk("ti-lt", qn, "lexicographic scan", f"condition not understood: {ex}", loc)
        return
    c.info["ti_lt_product_steps"] = explored
    lens = T.canon_cmp("==", call(T.glob("len"), me), call(T.glob("len"), other))
    lens2 = T.canon_cmp("==", call(T.glob("len"), ("attr", me, "tiers")), call(T.glob("len"), ("attr", other, "tiers")))
    if not any(e.term[1] in (lens, lens2) for e in s.of_kind("assert")):
        pr.append("no assertion that both intervals have the same length")
    c.add("ti-lt", qn, "lexicographic scan", VIOLATED if pr else DISCHARGED, "; ".join(sorted(set(pr))) if pr else f"product of the scan loop with the order specification: {explored} (state, letter) pairs agree", loc)


def _ti_init(ctx: Ctx, c: Collector) -> None:
    """The shape a delay denotes when it is written down without all of its parts: the cutoff defaults to
    the number of tiers and the pre_length to the cutoff; the three fields are stored from the (defaulted)
    arguments.  Decided by cases on which arguments are given."""
    qn = TI + ".__init__"
    fi = ctx.func(qn)
    s = ctx.summ(qn)
    me = T.var(fi.params[0])
    tiers, cutoff, pre = T.var("tiers"), T.var("cutoff"), T.var("pre_length")
    stored: Dict[str, Term] = {}
    for e in s.of_kind("call"):
        if e.term[1] == ("attr", T.glob("object"), "__setattr__") and len(e.term[2]) == 3 and e.term[2][0] == me and e.term[2][1][0] == "const":
            stored[e.term[2][1][1]] = e.term[2][2]
    for e in s.of_kind("store"):
        if e.term[1][0] == "attr" and e.term[1][1] == me:
            stored[e.term[1][2]] = e.term[2]
    pr: List[str] = []
    NC, NP = ("cmp", "is", cutoff, T.NONE), ("cmp", "is", pre, T.NONE)
    n_t = call(T.glob("len"), tiers)
    for f in ("pre_length", "cutoff", "tiers"):
        if f not in stored:
            pr.append(f"the field {f} is not stored")
    if not pr:
        try:
            for nc in (False, True):
                for np_ in (False, True):
                    row = {NC: nc, NP: np_}
                    want_c = n_t if nc else cutoff
                    want_p = want_c if np_ else pre
                    got_c = T.strip(boolfn.resolve_phi(unalias(stored["cutoff"], s, fi), row))
                    got_p = T.strip(boolfn.resolve_phi(unalias(stored["pre_length"], s, fi), row))
                    case = f"cutoff {'omitted' if nc else 'given'}, pre_length {'omitted' if np_ else 'given'}"
                    if got_c != want_c:
                        pr.append(f"{case}: the cutoff is {T.show(got_c)} instead of {T.show(want_c)}")
                    if got_p != want_p:
                        pr.append(f"{case}: the pre_length is {T.show(got_p)} instead of {T.show(want_p)} (a delay written as TieredInterval(*tiers, cutoff=c) applies to times with c tiers)")
            if T.strip(unalias(stored["tiers"], s, fi)) != tiers:
                pr.append("the tiers are not stored as given")
        except boolfn.NotBoolean as ex:
            c.unk("ti-init", qn, "defaults: cutoff = len(tiers), pre_length = cutoff", f"condition not understood: {ex}", fi.loc)
            return
    c.add("ti-init", qn, "defaults: cutoff = len(tiers), pre_length = cutoff", VIOLATED if pr else DISCHARGED, "; ".join(pr), fi.loc)


def _expand_props(ctx: Ctx, cls: str, t: Any, depth: int = 3) -> Any:
    """Reads of @property members of `cls` (add, ext) replaced by the property's value, so that a
    dependence on `interval.add` counts as a dependence on tiers and cutoff."""
    if not isinstance(t, tuple) or depth == 0:
        return t
    t = tuple(_expand_props(ctx, cls, x, depth) for x in t)
    if T.is_term(t) and t[0] == "attr":
        fi = ctx.prog.functions.get(f"{cls}.{t[2]}")
        if fi is not None and any(ast.unparse(d) == "property" for d in fi.node.decorator_list):
            rv = folded_return(summarise(ctx.prog, fi))
            if rv is not None:
                return _expand_props(ctx, cls, T.replace(T.strip(rv), {T.var(fi.params[0]): t[1]}), cls and depth - 1)
    return t


def _additions(ctx: Ctx, c: Collector) -> None:
    """Structural clauses of the two additions (the arithmetic itself is not decided):
    every way out of TieredTime.__add__ depends on the departure tiers, the delay's tiers and the
    delay's cutoff (tiers after the cutoff are replaced, so a result that ignores the cutoff keeps
    stale sub-steps); TieredInterval.__add__ builds a delay with the first operand's pre_length,
    the smaller cutoff, and tiers depending on both operands' tiers and cutoffs."""
    from ..flow import inline_calls, uninl
    # --- time + delay
    qn = TT + ".__add__"
    fi = ctx.func(qn)
    s = ctx.summ(qn)
    me, iv = T.var(fi.params[0]), T.var(fi.params[1])
    pr: List[str] = []
    if not s.returns:
        pr.append("nothing is returned")
    asserted = [T.guard_term(g) for g in (s.returns[0].guards if s.returns else ()) if all(g in r.guards for r in s.returns)]
    for r in s.returns:
        own = [g for g in r.guards if T.guard_term(g) not in asserted]
        parts = (_expand_props(ctx, TI, uninl(inline_calls(ctx.prog, fi.module.name, T.strip(r.term)))),) + tuple(_expand_props(ctx, TI, T.strip(g[1])) for g in own)
        need = {"the departure time's tiers": (me, "tiers"), "the delay's tiers": (iv, "tiers"), "the delay's cutoff": (iv, "cutoff")}
        reads = set(T.field_reads(parts))
        if any(x == me for x in T.subterms((T.strip(r.term),))) and not T.contains((r.term,), ("attr", me, "tiers")):
            reads.add((me, "tiers"))          # returning / passing `self` whole carries its tiers
        missing = [k for k, v in need.items() if v not in reads]
        if missing:
            cond = " and ".join(T.show_guard(g) for g in own) or "always"
            pr.append(f"the result {T.show(r.term)[:60]} (returned when {cond[:120]}) does not depend on {', '.join(missing)}"
                      + (": tiers after the cutoff must be replaced by the delay's, so a result that ignores the cutoff keeps stale lower tiers" if "the delay's cutoff" in missing else ""))
    c.add("tt-add", qn, "every result depends on departure tiers, delay tiers and cutoff", VIOLATED if pr else DISCHARGED, "; ".join(pr), fi.loc)
    # --- delay + delay
    qn = TI + ".__add__"
    fi = ctx.func(qn)
    s = ctx.summ(qn)
    me, other = T.var(fi.params[0]), T.var(fi.params[1])
    sc, oc = ("attr", me, "cutoff"), ("attr", other, "cutoff")
    C_LT, C_GT, C_EQ = ("cmp", "<", sc, oc), ("cmp", "<", oc, sc), T.canon_cmp("==", sc, oc)
    pr = []
    if not s.returns:
        pr.append("nothing is returned")
    for r in s.returns:
        v = T.strip(r.term)
        if not (v[0] == "call" and v[1] == T.glob(TI)):
            pr.append(f"returns {T.show(v)[:60]}, not a new TieredInterval")
            continue
        kw = dict(v[3])
        if kw.get("pre_length") != ("attr", me, "pre_length"):
            pr.append(f"the sum's pre_length is {T.show(kw.get('pre_length', T.NONE))} instead of self.pre_length (the sum applies to the times the first delay applies to)")
        cut = kw.get("cutoff")
        if cut is None:
            pr.append("the sum's cutoff is not given (it defaults to the number of tiers)")
        else:
            for row, want in (({C_LT: True, C_GT: False, C_EQ: False}, (sc,)), ({C_LT: False, C_GT: True, C_EQ: False}, (oc,)), ({C_LT: False, C_GT: False, C_EQ: True}, (sc, oc))):
                try:
                    got = boolfn.resolve_phi(cut, row)
                except boolfn.NotBoolean:
                    got = cut
                got = T.strip(got)
                if got[0] == "agg" and got[1] == "min" and {x[1] for x in got[2][1]} == {sc, oc}:
                    continue
                if got[0] == "agg" and got[1] == "max" and {x[1] for x in got[2][1]} == {sc, oc}:
                    pr.append("the sum's cutoff is the larger of the two cutoffs: tiers that one of the delays replaces would be added to")
                    break
                if got not in want:
                    pr.append(f"the sum's cutoff is {T.show(got)[:60]} when {'self.cutoff < other.cutoff' if row[C_LT] else 'other.cutoff < self.cutoff' if row[C_GT] else 'the cutoffs are equal'} (it must be the smaller cutoff)")
                    break
        parts = (_expand_props(ctx, TI, uninl(inline_calls(ctx.prog, fi.module.name, v[2]))),)
        reads = set(T.field_reads(parts))
        # (the sum's tiers are self[i] + other[i] below other.cutoff and other[i] from there on: they need not read self.cutoff,
        #  which only enters the sum's cutoff -- checked above)
        need = {"self.tiers": (me, "tiers"), "other.tiers": (other, "tiers"), "other.cutoff": (other, "cutoff")}
        missing = [k for k, x in need.items() if x not in reads]
        if missing:
            pr.append(f"the sum's tiers do not depend on {', '.join(missing)}")
    c.add("ti-add", qn, "sum has self.pre_length, the smaller cutoff, tiers from both operands", VIOLATED if pr else DISCHARGED, "; ".join(sorted(set(pr))), fi.loc)


def _terminates(body: List[ast.stmt]) -> bool:
    if not body:
        return False
    last = body[-1]
    if isinstance(last, (ast.Return, ast.Raise, ast.Continue, ast.Break)):
        return True
    if isinstance(last, ast.Assert) and isinstance(last.test, ast.Constant) and last.test.value is False:
        return True
    if isinstance(last, ast.If):
        return _terminates(last.body) and _terminates(last.orelse)
    return False


def _canon_test(n: ast.AST):
    if isinstance(n, ast.Compare) and len(n.ops) == 1:
        l, r, op = ast.unparse(n.left), ast.unparse(n.comparators[0]), type(n.ops[0]).__name__
        if op in ("Gt", "GtE"):
            l, r, op = r, l, {"Gt": "Lt", "GtE": "LtE"}[op]
        if op in ("Eq", "NotEq") and r < l:
            l, r = r, l
        return (op, l, r)
    if isinstance(n, ast.UnaryOp) and isinstance(n.op, ast.Not):
        return ("not", _canon_test(n.operand))
    if isinstance(n, ast.BoolOp):
        return (type(n.op).__name__,) + tuple(sorted((_canon_test(v) for v in n.values), key=repr))
    return ast.unparse(n)


def _contradictions(ctx: Ctx, c: Collector) -> None:
    """Whole package: `if A: <leaves block>` immediately followed by `if A':` with A' canonically
    equal to A (e.g. `s < o` then `o > s`): the second branch can never be taken."""
    nfun = 0
    hits = 0
    for fi in analysis_units(ctx.prog):
        if isinstance(fi.node, ast.Lambda):
            continue
        nfun += 1
        s = summarise(ctx.prog, fi)
        tests: Dict[int, Term] = {id(e.node): e.term for e in s.of_kind("test")}
        for node in ast.walk(fi.node):
            for fld in ("body", "orelse", "finalbody"):
                body = getattr(node, fld, None)
                if not isinstance(body, list):
                    continue
                for a, b in zip(body, body[1:]):
                    if isinstance(a, ast.If) and isinstance(b, ast.If) and not a.orelse and _terminates(a.body):
                        ta, tb = tests.get(id(a.test)), tests.get(id(b.test))
                        if ta is None or tb is None:
                            continue
                        # as written: the two tests are the same expression up to the orientation of a comparison (what the values of
                        # the locals fold to is not the question -- two different tests of one local may well coincide after substitution)
                        if boolfn.canon_leaf(ta) == boolfn.canon_leaf(tb) and _canon_test(a.test) == _canon_test(b.test):
                            hits += 1
                            c.bad("dead-test", fi.qualname, f"if {T.show(ta)} ... if {T.show(tb)}",
                                  "the second test repeats the first, whose branch always leaves the block: its branch is dead code "
                                  "(most likely the operands were meant to be swapped)", f"{fi.module.relpath}:{b.lineno}")
    c.ok("dead-test", "mosaik.*", "contradiction sweep", f"{nfun} functions scanned, {hits} repeated early-exit test(s)", "")
    c.info["functions_scanned"] = nfun


from ..report import VIOLATED, DISCHARGED  # noqa: E402
from ..terms import call  # noqa: E402
