"""R6 ORDER — the comparison methods of tiered times / intervals are lexicographic orders; plus
the generic contradiction rule (a test that repeats an earlier test whose branch always leaves
the block is dead code)."""
from __future__ import annotations

import ast
from typing import Dict, List, Optional

from .base import *  # noqa: F401,F403
from . import tables
from .. import boolfn

TT = "mosaik.tiered_time.TieredTime"
TI = "mosaik.tiered_time.TieredInterval"
MIN_INSTANCES = 5


def run(ctx: Ctx) -> Collector:
    c = Collector("R6")
    _class_shape(ctx, c, TT)
    _class_shape(ctx, c, TI)
    _tt_lt(ctx, c)
    _ti_lt(ctx, c)
    _contradictions(ctx, c)
    return c


def _class_shape(ctx: Ctx, c: Collector, qn: str) -> None:
    ci = ctx.prog.cls(qn)
    decs = [ast.unparse(d) for d in ci.decorators]
    tot = any(d.endswith("total_ordering") for d in decs)
    frozen = any(d.startswith("dataclass") and "frozen=True" in d.replace(" ", "") and "eq=False" not in d.replace(" ", "") for d in decs)
    own = set(ci.methods)
    pr = []
    if not tot:
        # without total_ordering every rich comparison must be defined explicitly
        if not {"__lt__", "__le__", "__gt__", "__ge__"} <= own:
            pr.append("no functools.total_ordering and not all of __lt__/__le__/__gt__/__ge__ are defined")
    if not frozen and "__eq__" not in own:
        pr.append("not a frozen dataclass with field equality: == is not tier equality, so the derived <=, >= are inconsistent")
    for m in ("__le__", "__gt__", "__ge__"):
        if m in own:
            mfi = ci.methods[m]
            ms = summarise(ctx.prog, mfi)
            a, b = T.var(mfi.params[0]), T.var(mfi.params[1])
            lt_ab, lt_ba, eq = ("cmp", "<", a, b), ("cmp", "<", b, a), T.canon_cmp("==", a, b)
            # required value under the trichotomy rows (lt, gt, eq)
            need = {"__le__": (True, False, True), "__gt__": (False, True, False), "__ge__": (False, True, True)}[m]
            okm = len(ms.returns) == 1
            if okm:
                try:
                    for i, row in enumerate(({lt_ab: True, lt_ba: False, eq: False}, {lt_ab: False, lt_ba: True, eq: False}, {lt_ab: False, lt_ba: False, eq: True})):
                        if boolfn.eval_leaves(ms.returns[0].term, row) != need[i]:
                            okm = False
                except boolfn.NotBoolean:
                    okm = False
            if not okm:
                pr.append(f"hand-written {m} does not agree with __lt__ and == (for equal / ordered operands it gives the wrong answer or is not understood)")
    c.add("class", qn, "total_ordering+frozen dataclass", VIOLATED if pr else DISCHARGED, "; ".join(pr), f"{ci.module.relpath}:{ci.node.lineno}")


def _tt_lt(ctx: Ctx, c: Collector) -> None:
    qn = TT + ".__lt__"
    fi = ctx.func(qn)
    s = ctx.summ(qn)
    me, other = T.var(fi.params[0]), T.var(fi.params[1])
    want = ("cmp", "<", ("attr", me, "tiers"), ("attr", other, "tiers"))
    rets = s.returns

    def unw(t):
        while t[0] == "call" and t[1] in (T.glob("tuple"), T.glob("list")) and len(t[2]) == 1:
            t = t[2][0]
        return t
    ok = len(rets) == 1 and rets[0].term[0] == "cmp" and rets[0].term[1] == "<" and (unw(rets[0].term[2]), unw(rets[0].term[3])) == (want[2], want[3])
    lens = T.canon_cmp("==", call(T.glob("len"), me), call(T.glob("len"), other))
    lens2 = T.canon_cmp("==", call(T.glob("len"), ("attr", me, "tiers")), call(T.glob("len"), ("attr", other, "tiers")))
    asserted = any(e.term[1] in (lens, lens2) for e in s.of_kind("assert"))
    pr = []
    if not ok:
        pr.append(f"returns {T.show(rets[0].term) if rets else 'nothing'} instead of the tuple comparison self.tiers < other.tiers")
    if not asserted:
        pr.append("no assertion that both times have the same number of tiers (tuple comparison of different lengths silently orders by prefix)")
    c.add("tt-lt", qn, "tuple comparison under a length assertion", VIOLATED if pr else DISCHARGED, "; ".join(pr), fi.loc)


def _ti_lt(ctx: Ctx, c: Collector) -> None:
    qn = TI + ".__lt__"
    fi = ctx.func(qn)
    s = ctx.summ(qn)
    me, other = T.var(fi.params[0]), T.var(fi.params[1])
    loc = fi.loc
    # the scan loop: iteration over zip(self.tiers, other.tiers), possibly enumerate()d
    zp = call(T.glob("zip"), ("attr", me, "tiers"), ("attr", other, "tiers"))
    sv = ov = None
    in_loop = [e for e in s.events if e.iters]
    for e in in_loop:
        it = e.iters[0]
        src = T.strip(it[2])
        if src == zp and it[1][0] == "tuple" and len(it[1][1]) == 2:
            sv, ov = it[1][1]
        elif src == call(T.glob("enumerate"), zp) and it[1][0] == "tuple" and len(it[1][1]) == 2 and it[1][1][1][0] == "tuple":
            sv, ov = it[1][1][1][1]
        break
    if sv is None:
        c.unk("ti-lt", qn, "lexicographic scan", "no loop over zip(self.tiers, other.tiers) found", loc)
        return
    LT = ("cmp", "<", sv, ov)
    GT = ("cmp", "<", ov, sv)
    items = []
    for e in s.events:
        if not e.iters:
            continue
        if e.kind == "return":
            items.append((f"ret:{T.show(e.term)}", e.guards))
        elif e.kind == "assert" and e.term[1] == T.const(False):
            items.append(("abort", e.guards))
        elif e.kind == "assert":
            items.append(("abort", e.guards + (("g", e.term[1], False),)))
        elif e.kind == "raise":
            items.append(("abort", e.guards))
    pr: List[str] = []
    # the loop index (for the incomparability flags)
    iv = None
    for e in in_loop:
        it = e.iters[0]
        if T.strip(it[2]) == call(T.glob("enumerate"), zp) and it[1][0] == "tuple":
            iv = it[1][1][0]
        break
    try:
        # guards outside the loop (length assertions) are not part of the per-tier decision
        pre = [g for g in (s.events[-1].guards if s.events else ())]
        items = [(lab, [g for g in gs if g not in pre]) for lab, gs in items]
        must = [LT, GT]
        if iv is not None:
            L1 = ("cmp", "<", iv, ("attr", me, "cutoff"))       # tier i is an "add" tier of self
            L2 = ("cmp", "<", iv, ("attr", other, "cutoff"))    # tier i is an "add" tier of other
            must += [L1, L2]
        for a, fired in tables.rows(items, must):
            fs = set(fired)
            if iv is not None:
                # incomparable exactly when the deciding tier is an add tier of the smaller side's
                # operand and an ext tier of the other: (s<o, other.cutoff <= i < self.cutoff) or
                # (o<s, self.cutoff <= i < other.cutoff)
                inc = (a[LT] and a[L1] and not a[L2]) or (a[GT] and a[L2] and not a[L1])
                if inc and "abort" not in fs:
                    pr.append("a pair that differs first in a tier that is an add-tier of one and an ext-tier of the other is ordered instead of being reported incomparable")
                if not inc and "abort" in fs:
                    pr.append("comparable delays are reported as incomparable (the add/ext flags of the two operands are mixed up)")
            if a[LT]:
                if not fs or not fs <= {"ret:True", "abort"}:
                    pr.append(f"at a tier with self < other the scan {'continues' if not fs else 'gives ' + ','.join(sorted(fs))} instead of returning True")
            elif a[GT]:
                if not fs or not fs <= {"ret:False", "abort"}:
                    pr.append(f"at a tier with other < self the scan {'continues to the next tier' if not fs else 'gives ' + ','.join(sorted(fs))} instead of returning False: "
                              "a later tier decides, so a < b and b < a can both hold")
            else:
                if fs:
                    pr.append("at a tier with equal values the scan does not continue")
    except boolfn.NotBoolean as ex:
        c.unk("ti-lt", qn, "lexicographic scan", f"condition not understood: {ex}", loc)
        return
    tail = [r for r in s.returns if not r.iters]
    if not tail or tail[-1].term != T.const(False):
        pr.append("equal intervals do not compare as 'not less' (fall-through must return False)")
    lens = T.canon_cmp("==", call(T.glob("len"), me), call(T.glob("len"), other))
    if not any(e.term[1] == lens for e in s.of_kind("assert")):
        pr.append("no assertion that both intervals have the same length")
    c.add("ti-lt", qn, "lexicographic scan", VIOLATED if pr else DISCHARGED, "; ".join(sorted(set(pr))), loc)


def _terminates(body: List[ast.stmt]) -> bool:
    if not body:
        return False
    last = body[-1]
    if isinstance(last, (ast.Return, ast.Raise, ast.Continue, ast.Break)):
        return True
    if isinstance(last, ast.Assert) and isinstance(last.test, ast.Constant) and last.test.value is False:
        return True
    if isinstance(last, ast.If):
        return _terminates(last.body) and _terminates(last.orelse)
    return False


def _contradictions(ctx: Ctx, c: Collector) -> None:
    """Whole package: `if A: <leaves block>` immediately followed by `if A':` with A' canonically
    equal to A (e.g. `s < o` then `o > s`): the second branch can never be taken."""
    nfun = 0
    hits = 0
    for fi in ctx.prog.all_functions():
        if isinstance(fi.node, ast.Lambda):
            continue
        nfun += 1
        s = summarise(ctx.prog, fi)
        tests: Dict[int, Term] = {id(e.node): e.term for e in s.of_kind("test")}
        for node in ast.walk(fi.node):
            for fld in ("body", "orelse", "finalbody"):
                body = getattr(node, fld, None)
                if not isinstance(body, list):
                    continue
                for a, b in zip(body, body[1:]):
                    if isinstance(a, ast.If) and isinstance(b, ast.If) and not a.orelse and _terminates(a.body):
                        ta, tb = tests.get(id(a.test)), tests.get(id(b.test))
                        if ta is None or tb is None:
                            continue
                        if boolfn.canon_leaf(ta) == boolfn.canon_leaf(tb):
                            hits += 1
                            c.bad("dead-test", fi.qualname, f"if {T.show(ta)} ... if {T.show(tb)}",
                                  "the second test repeats the first, whose branch always leaves the block: its branch is dead code "
                                  "(most likely the operands were meant to be swapped)", f"{fi.module.relpath}:{b.lineno}")
    c.ok("dead-test", "mosaik.*", "contradiction sweep", f"{nfun} functions scanned, {hits} repeated early-exit test(s)", "")
    c.info["functions_scanned"] = nfun


from ..report import VIOLATED, DISCHARGED  # noqa: E402
from ..terms import call  # noqa: E402
