"""R3 PROTOCOL — typestate of one scheduler iteration (sim_process), the flow of max_advance to
the simulator, and the heap discipline of next_steps.  R12 LOOPGUARD lives here as well because
it is an obligation on the same region (between the pop and the step)."""
from __future__ import annotations

from typing import List, Optional

from .base import *  # noqa: F401,F403
from .r02_bound import discover_inflight_pair
from .r11_reply import is_simulation_error, names_sim

SIMPROC = "mosaik.scheduler.sim_process"
RUN = "mosaik.scheduler.run"
MIN_INSTANCES = 12


def run(ctx: Ctx) -> Collector:
    c = Collector("R3")
    holder, heap = discover_inflight_pair(ctx)
    _iteration(ctx, c, holder, heap)
    _max_advance_flow(ctx, c)
    _heap_discipline(ctx, c, holder, heap)
    _init_before_foreign_read(ctx, c)
    return c


def _one(evs, what: str):
    return evs[0] if evs else None


def _iteration(ctx: Ctx, c: Collector, holder: str, heap: str) -> None:
    fi = ctx.func(SIMPROC)
    s = ctx.summ(SIMPROC)
    g = ctx.cfg(SIMPROC)
    sim = T.var(param_by_annotation(fi, "SimRunner", 1))
    world = T.var(param_by_annotation(fi, "World", 0))
    cur = ("attr", sim, holder)

    def aw(name):  # awaited call to scheduler.<name>
        return [e for e in s.of_kind("await") if e.term[0] == "call" and e.term[1] == T.glob("mosaik.scheduler." + name)]

    settled = aw("next_step_settled")
    wait = aw("wait_for_dependencies")
    step = aw("step")
    outs = aw("get_outputs")
    pops = [e for e in s.of_kind("store") if e.term[1] == cur and is_call_to(e.term[2], "heappop")]
    clears = [e for e in s.of_kind("store") if e.term[1] == cur and e.term[2] == T.NONE]
    notif = [e for e in s.of_kind("call") if e.term[1] == T.glob("mosaik.scheduler.notify_dependencies")]
    adv = [e for e in s.of_kind("call") if e.term[1] == T.glob("mosaik.scheduler.advance_progress")]
    gin = [e for e in s.of_kind("call") if e.term[1] == T.glob("mosaik.scheduler.get_input_data")]
    gma = [e for e in s.of_kind("call") if e.term[1] == T.glob("mosaik.scheduler.get_max_advance")]
    missing = [n for n, x in (("next_step_settled", settled), ("wait_for_dependencies", wait), ("heappop", pops), ("step", step), ("get_outputs", outs),
                              ("current_step = None", clears), ("notify_dependencies", notif), ("advance_progress", adv),
                              ("get_input_data", gin), ("get_max_advance", gma)) if not x]
    if missing:
        c.bad("P0", SIMPROC, "iteration-skeleton", "missing in sim_process: " + ", ".join(missing), fi.loc)
        return
    S, W, POP, STEP, OUT, CLR, NOT = settled[0], wait[0], pops[0], step[0], outs[0], clears[0], notif[0]
    k = lambda e: g.key(e.stmt)  # noqa: E731
    L = lambda e: ctx.loc(fi, e)  # noqa: E731

    # P1: settled (true) < wait < [no suspension] < pop
    pr: List[str] = []
    settled_true = any(T.guard_term(x) == ("await", S.term) for x in W.guards)
    if not settled_true or not g.dominates(k(S), k(W)):
        pr.append("wait_for_dependencies is not dominated by a true next_step_settled")
    if not g.dominates(k(W), k(POP)):
        pr.append("the pop is not dominated by wait_for_dependencies")
    if W.term[2][:1] != (sim,):
        pr.append("wait_for_dependencies is called for another simulator")
    sus = g.suspension_between(k(W), k(POP))
    if sus:
        pr.append("suspension point(s) between wait_for_dependencies and the pop at line(s) " + ", ".join(str(g.lineno(x)) for x in sus) + ": an earlier step can be inserted while the decision is stale")
    if POP.term[2][2][:1] != (("attr", sim, heap),):
        pr.append("the popped heap is not the simulator's own")
    if not g.dominates(k(POP), k(STEP)):
        pr.append("the step is not dominated by the pop")
    c.add("P1", SIMPROC, "settled<wait<pop<step", VIOLATED if pr else DISCHARGED, "; ".join(pr), L(POP))

    # P2: stale-step guard
    ptime = ("attr", ("attr", sim, "progress"), "time")
    ne = T.canon_cmp("!=", cur, ptime)
    eq = T.canon_cmp("==", cur, ptime)
    helper_events = inlined_events(ctx, s, POP.idx, STEP.idx)
    between = [e for e in s.of_kind("raise") if POP.idx < e.idx < STEP.idx] + [e for e in helper_events if e.kind == "raise"]
    guards = [e for e in between if any(T.guard_term(x) == ne for x in e.guards)]
    pr = []
    if not guards:
        pr.append("no check `current_step != progress.time -> SimulationError` between the pop and the step")
    else:
        r = guards[0]
        if not is_simulation_error(ctx, r.term) or not names_sim(r.term, sim):
            pr.append("the stale-step error is not a SimulationError naming the simulator")
        via = r.extra.get("via")
        if via is None and not any(T.guard_term(x) == eq for x in STEP.guards):
            pr.append("the step is not guarded by current_step == progress.time")
        if via is not None and (r.guards[:len(STEP.guards)] != STEP.guards or [x for x in r.guards[len(STEP.guards):] if T.guard_term(x) != ne]):
            pr.append("the stale-step check (in a helper) is conditional")
    c.add("P2", SIMPROC, "stale-step-guard", VIOLATED if pr else DISCHARGED, "; ".join(pr), L(POP))

    # P3: inputs and max_advance computed after the pop, no suspension before the step call
    pr = []
    args = STEP.term[2]
    if len(args) < 4 or args[0] != world or args[1] != sim:
        pr.append(f"step is called with {T.show(args)[:100]}")
    else:
        if args[2] != gin[0].term:
            pr.append("the inputs passed to step are not the result of get_input_data(world, sim)")
        if args[3] != gma[0].term:
            pr.append("the max_advance passed to step is not the result of get_max_advance(...)")
    for name, e in (("get_input_data", gin[0]), ("get_max_advance", gma[0])):
        if not (POP.idx < e.idx < STEP.idx) or not g.dominates(k(POP), k(e)):
            pr.append(f"{name} is not evaluated between the pop and the step")
        elif k(e) != k(STEP) and g.suspension_between(k(e), k(STEP)):
            pr.append(f"suspension point between {name} and the step call: the value is stale when it is sent")
        if e.term[2][:2] not in ((world, sim),):
            pr.append(f"{name} is called with {T.show(e.term[2])[:80]}")
    c.add("P3", SIMPROC, "inputs+max_advance fresh at step", VIOLATED if pr else DISCHARGED, "; ".join(pr), L(STEP))

    # P4: get_outputs < clear < notify < advance all, no suspension from the clear on
    pr = []
    if not (g.dominates(k(STEP), k(OUT)) and STEP.idx < OUT.idx):
        pr.append("get_outputs is not dominated by the step")
    if not (g.dominates(k(OUT), k(CLR)) and OUT.idx < CLR.idx):
        pr.append("the in-flight marker is cleared before the outputs have been retrieved")
    if not (g.dominates(k(OUT), k(NOT)) and OUT.idx < NOT.idx):
        pr.append("notify_dependencies is not dominated by get_outputs")
    if NOT.term[2][:1] != (sim,):
        pr.append("notify_dependencies is called for another simulator")
    FIRST, SECOND = (CLR, NOT) if CLR.idx < NOT.idx else (NOT, CLR)
    loops = [e for e in adv if e.idx > SECOND.idx and e.iters and len(e.iters) >= 1]
    allsims = call(("attr", ("attr", world, "sims"), "values"))
    good_loop = None
    for e in loops:
        it = e.iters[-1]
        if T.strip(it[2]) == allsims and e.term[2][:2] == (it[1], world) and e.guards == SECOND.guards:
            good_loop = e
    if good_loop is None:
        pr.append("after notify_dependencies, advance_progress is not called unconditionally for every simulator of world.sims")
    else:
        hdr = g.key(good_loop.stmt)
        # the loop header node is the For statement enclosing the call
        fors = [n for n in g.ast_of.values() if n.__class__.__name__ in ("For",) and any(x is good_loop.stmt for x in n.body)]
        if fors:
            hk = g.key(fors[0])
            if not g.dominates(k(NOT), hk) or not g.dominates(k(CLR), hk):
                pr.append("the advance_progress loop is not dominated by notify_dependencies and by clearing the in-flight marker")
            sus = g.suspension_between(k(FIRST), hk) + [x for x in g.loop_body(hk) if x in g.suspends]
            if k(CLR) in g.suspends or k(NOT) in g.suspends:
                sus.append(k(CLR))
            if sus:
                pr.append("suspension point between clearing the in-flight marker and the end of the advance_progress loop (line(s) "
                          + ", ".join(str(g.lineno(x)) for x in sus) + "): observers see a finished step whose triggers are not scheduled yet")
            if not g.postdominates(hk, k(FIRST)):
                pr.append("some path from clearing the marker skips the advance_progress loop")
    c.add("P4", SIMPROC, "outputs<clear<notify<advance-all", VIOLATED if pr else DISCHARGED, "; ".join(pr), L(CLR))

    # P5: own advance_progress before the first next_step_settled
    own = [e for e in adv if e.term[2][:2] == (sim, world) and e.idx < S.idx and not e.iters]
    okp5 = bool(own) and g.dominates(k(own[0]), k(S))
    c.check(okp5, "P5", SIMPROC, "advance-own-before-first-settle", "advance_progress(sim, world) does not dominate the first next_step_settled", L(S))

    # R12: loop guard between pop and step
    _loop_guard(ctx, c, s, fi, sim, world, cur, POP, STEP)


def _is_max_of(x, sub) -> bool:
    """max(sub) / max(sub, default=0) / max(t for t in sub), as a call or as an aggregate"""
    if x[0] == "call" and x[1] == T.glob("max") and len(x[2]) == 1:
        a = T.strip(x[2][0])
        kw = dict(x[3])
        if kw and (set(kw) != {"default"} or kw["default"] != T.const(0)):
            return False
        if a == sub:
            return True
        x = ("agg", "max", a, ())
    if x[0] == "agg" and x[1] == "max":
        a = T.strip(x[2])
        if a == sub:
            return True
        return a[0] == "bag" and len(a[1]) == 1 and len(a[1][0][3]) == 1 and T.strip(a[1][0][3][0][2]) == sub and a[1][0][1] == a[1][0][3][0][1] and not a[1][0][2]
    return False


def _fixed_tiers_only(gt, tiers) -> bool:
    """every reading of `tiers` inside the guard is `tiers[<one position>]` (or `len(tiers)`): no aggregate over the sub-tiers"""
    fixed = 0
    for x in T.subterms(gt):
        if not (isinstance(x, tuple) and tiers in x[1:]):
            continue
        if x[0] == "idx" and x[1] == tiers and x[2][0] != "slice":
            fixed += 1
        elif x[0] == "call" and x[1] == T.glob("len"):
            continue
        else:
            return False
    return fixed > 0


def _loop_guard(ctx, c, s, fi, sim, world, cur, POP, STEP) -> None:
    bound = ("attr", world, "max_loop_iterations")
    cands = [e for e in s.of_kind("raise") if POP.idx < e.idx < STEP.idx and T.contains(e.guards, bound)] + \
            [e for e in inlined_events(ctx, s, POP.idx, STEP.idx) if e.kind == "raise" and T.contains(e.guards, bound)]
    name = "max_loop_iterations-guard"
    if not cands:
        c.bad("R12", SIMPROC, name, "no check of the sub-step counters against world.max_loop_iterations between the pop and the step", ctx.loc(fi, POP))
        return
    r = cands[0]
    gt = T.guard_term(r.guards[-1])
    pr: List[str] = []
    verdict_unknown = False
    tiers = ("attr", cur, "tiers")
    sub = ("idx", tiers, ("slice", T.const(1), T.NONE, T.NONE))
    if gt[0] == "agg" and gt[1] == "any" and len(gt[2][1]) == 1:
        el = gt[2][1][0]
        term, guards, iters = el[1], el[2], el[3]
        if len(iters) != 1 or guards:
            verdict_unknown = True
        else:
            v, src = iters[0][1], T.strip(iters[0][2])
            if src != sub:
                if src[0] == "idx" and src[1] == tiers:
                    pr.append(f"the guard inspects {T.show(src)} instead of all sub-tiers {T.show(sub)}")
                elif src[0] == "idx" and src[1][0] == "attr" and src[1][2] == "tiers":
                    pr.append(f"the guard inspects {T.show(src)}, not the sub-tiers of the step that is about to be performed ({T.show(sub)})")
                elif src == tiers:
                    pr.append("the guard also tests the main time tier against the iteration bound")
                else:
                    verdict_unknown = True
            want = ("cmp", "<=", bound, v)
            if term != want:
                if term == ("cmp", "<", bound, v):
                    pr.append("the guard uses > instead of >=: one more sub-step than max_loop_iterations is performed")
                elif term[0] == "cmp" and {term[2], term[3]} == {bound, v}:
                    pr.append(f"the guard tests {T.show(term)} instead of {T.show(want)}")
                else:
                    pr.append(f"the guard tests {T.show(term)}; expected {T.show(want)}")
    elif gt[0] == "cmp" and gt[1] in ("<", "<=") and any(x[0] == "idx" and x[1] == tiers and x[2][0] == "slice" for x in (gt[2], gt[3])) \
            and any(x[0] == "tuple" and T.contains(x, bound) for x in (gt[2], gt[3])):
        pr.append("the guard compares the tuple of sub-tiers with a tuple: tuple comparison is lexicographic, so only the first sub-tier is ever decisive "
                  "(a loop in a nested group counts in a later tier and is never stopped)")
    elif gt[0] == "cmp" and T.contains(gt, call(T.glob("max"), sub)) is False and gt[0] == "cmp" and any(
            x[0] == "agg" and x[1] == "max" for x in (gt[2], gt[3])) and False:
        pass
    elif any(True for _ in T.find(gt, lambda x: x[0] == "agg" and x[1] == "all" and T.contains(x, bound))):
        pr.append("the guard requires all sub-tiers to exceed the bound (any tier must suffice)")
    elif gt[0] == "not" and gt[1][0] == "agg" and T.contains(gt, bound):
        pr.append("the loop guard is negated: runs abort unless some sub-step counter has reached the bound")
    elif gt[0] == "cmp" and gt[1] in ("<", "<=") and gt[2] == bound and _is_max_of(T.strip(gt[3]), sub):
        # `max(sub-tiers) >= bound` is `any(t >= bound ...)`; with `>` one more sub-step than max_loop_iterations is performed
        if gt[1] == "<":
            pr.append("the guard uses > instead of >=: one more sub-step than max_loop_iterations is performed")
    elif _fixed_tiers_only(gt, tiers):
        # every reading of the step's tiers in the guard is one fixed position (tiers[1], tiers[-1], ...): groups nest to any
        # depth, and the loop counts in the tier of the group that carries the weak connection, which is any of tiers[1:]
        fixed = sorted({T.show(x) for x in T.find(gt, lambda x: x[0] == "idx" and x[1] == tiers)})
        pr.append(f"the guard inspects only {', '.join(fixed)} instead of all sub-tiers {T.show(sub)}: a loop that counts in another tier "
                  "(members nested deeper or shallower than the weak connection's group) is never stopped")
    else:
        verdict_unknown = True
    if not is_simulation_error(ctx, r.term) or not names_sim(r.term, sim):
        pr.append("the loop-guard error is not a SimulationError naming the simulator")
    if r.extra.get("via") is None and not any(T.guard_term(x) == T.negate(gt) for x in STEP.guards):
        pr.append("the step is not guarded by the negated loop test")
    if pr:
        c.bad("R12", SIMPROC, name, "; ".join(pr), ctx.loc(fi, r))
    elif verdict_unknown:
        c.unk("R12", SIMPROC, name, f"loop guard {T.show(gt)[:120]} not in a recognised form", ctx.loc(fi, r))
    else:
        c.ok("R12", SIMPROC, name, T.show(gt), ctx.loc(fi, r))
    # the bound is the constructor argument, unmodified
    wi = ctx.func("mosaik.scenario.World.__init__")
    ws = ctx.summ("mosaik.scenario.World.__init__")
    me = T.var(wi.params[0])
    st = [e for e in ws.of_kind("store") if e.term[1] == ("attr", me, "max_loop_iterations")]
    okb = len(st) == 1 and st[0].term[2] == T.var("max_loop_iterations") and not st[0].guards
    c.check(okb, "R12", "mosaik.scenario.World.__init__", "max_loop_iterations-field", "World.__init__ does not store its max_loop_iterations argument unmodified", wi.loc)
    # nobody else writes it
    for f2 in analysis_units(ctx.prog):
        if f2.qualname == wi.qualname:
            continue
        for e in summarise(ctx.prog, f2).of_kind("store"):
            if e.term[1][0] == "attr" and e.term[1][2] == "max_loop_iterations":
                c.bad("R12", f2.qualname, "max_loop_iterations-write", "the iteration bound is overwritten outside World.__init__", ctx.loc(f2, e))


def _max_advance_flow(ctx: Ctx, c: Collector) -> None:
    # scheduler.step(world, sim, inputs, max_advance) -> sim.step(time, inputs, max_advance)
    qn = "mosaik.scheduler.step"
    fi = ctx.func(qn)
    s = ctx.summ(qn)
    sim = T.var(param_by_annotation(fi, "SimRunner", 1))
    ps = fi.params
    calls = [e for e in s.of_kind("call") if e.term[1] == ("attr", sim, "step")]
    ok = bool(calls) and len(calls[0].term[2]) == 3 and calls[0].term[2][1] == T.var(ps[2]) and calls[0].term[2][2] == T.var(ps[3])
    c.check(ok, "P3b", qn, "max_advance->SimRunner.step", "scheduler.step does not pass its inputs / max_advance parameters unchanged to sim.step", fi.loc)
    qn = "mosaik.simmanager.SimRunner.step"
    fi = ctx.func(qn)
    s = ctx.summ(qn)
    ps = fi.params
    sends = [e for e in s.of_kind("call") if e.term[1][0] == "attr" and e.term[1][2] == "send"]
    ok = False
    for e in sends:
        a = e.term[2][0] if e.term[2] else None
        if a is not None and a[0] == "bag" and len(a[1]) == 3:
            name, args = a[1][0][1], a[1][1][1]
            if name == T.const("step") and args == ("tuple", (T.var(ps[1]), T.var(ps[2]), T.var(ps[3]))):
                ok = True
    c.check(ok, "P3b", qn, "step-request", "the step request is not ['step', (time, inputs, max_advance), {}] built from the method's parameters", fi.loc)


def _heap_discipline(ctx: Ctx, c: Collector, holder: str, heap: str) -> None:
    n = 0
    for f2 in analysis_units(ctx.prog):
        s2 = summarise(ctx.prog, f2)
        for e in s2.events:
            if e.kind == "store":
                tgt, val = e.term[1], e.term[2]
                if tgt[0] == "attr" and tgt[2] == heap:
                    n += 1
                    ok = val[0] == "bag" and len(val[1]) <= 1 and all(not x[3] for x in val[1])
                    c.check(ok, "P6", f2.qualname, f"{heap} := {T.show(val)[:60]}", "the step heap is replaced by something that is not an empty or one-element list", ctx.loc(f2, e))
                elif tgt[0] == "idx" and tgt[1][0] == "attr" and tgt[1][2] == heap:
                    n += 1
                    c.bad("P6", f2.qualname, f"{heap}[...] := ...", "an element of the step heap is overwritten in place", ctx.loc(f2, e))
                if tgt[0] == "attr" and tgt[2] == holder:
                    okw = f2.qualname in (SIMPROC, "mosaik.simmanager.SimRunner.__init__")
                    if not okw:
                        n += 1
                        c.bad("P6", f2.qualname, f"{holder} := ...", "the in-flight marker is written outside sim_process", ctx.loc(f2, e))
            elif e.kind == "call":
                f = e.term[1]
                if f[0] == "attr" and f[1][0] == "attr" and f[1][2] == heap and f[2] in ("append", "insert", "remove", "pop", "sort", "reverse", "extend", "clear"):
                    n += 1
                    c.bad("P6", f2.qualname, f"{heap}.{f[2]}()", "the step heap is mutated without heappush/heappop: next_steps[0] is no longer the minimum", ctx.loc(f2, e))
                elif f[0] == "glob" and f[1] in ("heapq.heappush", "heapq.heappop") and e.term[2] and e.term[2][0][0] == "attr" and e.term[2][0][2] == heap:
                    n += 1
                    c.ok("P6", f2.qualname, f"{f[1].split('.')[-1]}({heap})", "", ctx.loc(f2, e))
            elif e.kind == "del":
                t = e.term[1]
                if t[0] == "idx" and t[1][0] == "attr" and t[1][2] == heap:
                    n += 1
                    c.bad("P6", f2.qualname, f"del {heap}[...]", "an element is deleted from the step heap without heappop", ctx.loc(f2, e))
    c.info["heap_mutation_sites"] = n


from ..report import VIOLATED, DISCHARGED  # noqa: E402
from ..terms import call  # noqa: E402


# --------------------------------------------------------------------------- R3/INIT
def _init_before_foreign_read(ctx: Ctx, c: Collector) -> None:
    """Every SimRunner field that the scheduler reads through a reference that may denote a
    *foreign* simulator (a loop variable over world.sims / a connection table, or the parameter
    of a function that is called with such a variable) is initialised before any simulator
    process runs (constructor, World.start/run, or scheduler.run ahead of the process creation):
    another simulator's process can get there before the owner's process has executed its first
    statement (a process that never really suspends performs a whole step first)."""
    from .sites import typer_of
    from ..types import is_cls
    RUNNER = "mosaik.simmanager.SimRunner"
    typer = typer_of(ctx.prog)
    init: set = set()
    ifi = ctx.func(RUNNER + ".__init__")
    for e in summarise(ctx.prog, ifi).of_kind("store"):
        if e.term[1][0] == "attr" and e.term[1][1] == T.var(ifi.params[0]):
            init.add(e.term[1][2])
    for qn in ("mosaik.scenario.World.start", "mosaik.scenario.World.run", "mosaik.scheduler.run"):
        fi = ctx.func(qn)
        s = summarise(ctx.prog, fi)
        spawn = min((e.idx for e in s.of_kind("call") if T.contains(e.term, T.glob(SIMPROC))), default=10 ** 9)
        for e in s.of_kind("store"):
            if e.idx < spawn and e.term[1][0] == "attr" and is_cls(typer._type_of(e.term[1][1], typer.event_env(fi, e)), RUNNER):
                init.add(e.term[1][2])
    # functions whose SimRunner parameter is passed a loop variable over all simulators somewhere
    foreign_params = set()
    for fi in analysis_units(ctx.prog):
        if fi.module.name != "mosaik.scheduler":
            continue
        s = summarise(ctx.prog, fi)
        for e in s.of_kind("call"):
            f = e.term[1]
            if f[0] == "glob" and f[1] in ctx.prog.functions and e.iters:
                loopvars = set()
                for it in e.iters:
                    loopvars |= T.free_vars(it[1])
                callee = ctx.prog.functions[f[1]]
                for p, a in zip(callee.params, e.term[2]):
                    if a[0] == "var" and a[1] in loopvars:
                        foreign_params.add((callee.qualname, p))
    n = 0
    bad = []
    for fi in analysis_units(ctx.prog):
        if fi.module.name != "mosaik.scheduler":
            continue
        s = summarise(ctx.prog, fi)
        for e in s.events:
            env = typer.event_env(fi, e)
            loopvars = set()
            for it in e.iters:
                loopvars |= T.free_vars(it[1])
            terms = (e.term,) + tuple(g[1] for g in e.guards)
            for b, f in T.field_reads(terms):
                if b[0] != "var" or not is_cls(typer._type_of(b, env), RUNNER):
                    continue
                foreign = b[1] in loopvars or (fi.qualname, b[1]) in foreign_params
                if not foreign:
                    continue
                if e.kind == "store" and e.term[1] == ("attr", b, f) and not T.contains(e.term[2], ("attr", b, f)):
                    continue
                n += 1
                if f not in init and ctx.prog.field_annotation(RUNNER, f) is not None:
                    bad.append((fi, e, b, f))
    seen = set()
    for fi, e, b, f in bad:
        if (fi.qualname, f) in seen:
            continue
        seen.add((fi.qualname, f))
        c.bad("INIT", fi.qualname, f"foreign read of SimRunner.{f}",
              f"{T.show(b)}.{f} is read for a simulator that may not be the running one, but {f} is only assigned once that simulator's own process has started: "
              "if another process gets here first (e.g. an in-process simulator whose step never suspends) the attribute does not exist (AttributeError)", ctx.loc(fi, e))
    c.ok("INIT", "mosaik.scheduler", "fields read through foreign simulator references are initialised before the processes start", f"{n} foreign field reads, {len(init)} fields initialised early", "")
    # a clock reading that stands in for "the process has started" must be taken when the processes start:
    # no suspension between reading the clock and creating the processes (the owner's process takes a fresh
    # reading when it starts, so an older one makes the wall-clock progress seen by other processes jump
    # ahead and then fall back)
    fi = ctx.func("mosaik.scheduler.run")
    s = summarise(ctx.prog, fi)
    g = ctx.cfg("mosaik.scheduler.run")
    spawns = [e for e in s.of_kind("call") if T.contains(e.term, T.glob(SIMPROC))]
    clocks = [e for e in s.of_kind("store") if e.term[1][0] == "attr" and any(x[0] == "call" and x[1][0] == "glob" and x[1][1].rsplit(".", 1)[-1] in ("perf_counter", "monotonic", "time") for x in T.subterms((e.term[2],)))]
    pr = []
    for e in clocks:
        if not spawns:
            continue
        try:
            sus = g.suspension_between(g.key(e.stmt), g.key(spawns[0].stmt))
        except KeyError:
            sus = []
        if e.idx > spawns[0].idx:
            pr.append(f"{T.show(e.term[1])} is read off the clock only after the processes have been created")
        elif sus and not (g.key(e.stmt) in g.loop_body(g.key(e.stmt)) and False):
            pr.append(f"{T.show(e.term[1])} is read off the clock at line {e.lineno}, but the processes are only created after the await at line(s) {', '.join(str(g.lineno(k)) for k in sus)} "
                      "(the set-up phase can take arbitrarily long): other processes compute a wall-clock progress from the stale reading until the owner's process resets it, "
                      "and the progress then falls back (cannot progress backwards)")
    if clocks:
        c.add("INIT", "mosaik.scheduler.run", "clock readings are taken when the processes are created", VIOLATED if pr else DISCHARGED, "; ".join(pr), fi.loc)
    c.info["foreign_field_reads"] = n
