"""R22 CLASSIFY — attribute classification and the co-finite set algebra.

(a) OutSet operators: pointwise truth tables (a set is abstracted by its membership predicate
    for an arbitrary element) for every operator and every branch — exhaustive, not sampled.
(b) parse_set_triple: inference equations and the two rejections, checked with the same
    pointwise evaluator.
(c) parse_attrs: the arguments handed to parse_set_triple for every combination of simulator
    type x any_inputs x presence of the five description keys (abstract evaluation over a finite
    domain), the forbidden-kind guards, and writer/reader agreement of the returned 4-tuple.
"""
from __future__ import annotations

import ast

import itertools
from typing import Any, Dict, List, Optional, Tuple

from .base import *  # noqa: F401,F403
from .. import boolfn

OUTSET = "mosaik.in_or_out_set.OutSet"
TRIPLE = "mosaik.in_or_out_set.parse_set_triple"
WRAP = "mosaik.in_or_out_set.wrap_set"
PARSE = "mosaik.scenario.parse_attrs"
MOCK_INIT = "mosaik.scenario.ModelMock.__init__"
MIN_INSTANCES = 20


class Unknown(Exception):
    pass


class Definite(Exception):
    """The construct is definitely wrong (not merely not understood)."""


def run(ctx: Ctx) -> Collector:
    c = Collector("R22")
    _operators(ctx, c)
    _triple(ctx, c)
    _parse_attrs(ctx, c)
    _readers(ctx, c)
    _entity_model(ctx, c)
    _type_readers(ctx, c)
    _wrap(ctx, c)
    _pure_parse(ctx, c)
    return c


def _pure_parse(ctx: Ctx, c: Collector) -> None:
    """parse_attrs classifies one model description: it only reads what it is handed.  A table of defaults (or the description itself)
    that is filled in place is shared by every model that is parsed with it afterwards -- the explicit lists of one model become the
    defaults of the next."""
    from ..flow import _MUTATORS
    fi = ctx.func(PARSE)
    s = ctx.summ(PARSE)
    params = {T.var(p_) for p_ in fi.params}
    pr = []
    for e in s.events:
        base = None
        if e.kind in ("store", "del") and e.term[1][0] == "idx":
            base = e.term[1][1]
        elif e.kind == "call" and e.term[1][0] == "attr" and e.term[1][2] in (_MUTATORS - {"get"}):
            base = e.term[1][1]
        if base is None:
            continue
        def aliases_param(v, depth=0):
            v = T.strip(v)
            if v in params:
                return v
            if depth > 4 or not isinstance(v, tuple):
                return None
            if v[0] in ("phi", "ifexp") and len(v) == 4:
                return aliases_param(v[2], depth + 1) or aliases_param(v[3], depth + 1)
            if v[0] in ("attr", "idx"):
                return aliases_param(v[1], depth + 1)
            if v[0] == "var":
                for b in s.of_kind("bind"):
                    if b.term[1] == v and b.idx < e.idx:
                        r_ = aliases_param(b.term[2], depth + 1)
                        if r_ is not None:
                            return r_
            return None
        h = aliases_param(base)
        hit = [h] if h is not None else []
        if hit:
            pr.append(f"{T.show(e.term)[:60]} (line {e.lineno}) changes an object that was passed in ({T.show(hit[0])}): what one model lists explicitly is still there when the next model is parsed")
    c.add("args", PARSE, "parse_attrs only reads its arguments", VIOLATED if pr else DISCHARGED, "; ".join(sorted(set(pr))[:3]), fi.loc)


def _wrap(ctx: Ctx, c: Collector) -> None:
    """`wrap_set` turns what a model description lists into a set of the algebra: None (the key is absent) and an OutSet (a default
    that parse_attrs computed itself -- "every attribute except ..." for any_inputs models) pass through unchanged, anything else
    becomes the frozenset of its elements.  parse_attrs feeds its own defaults through it, so a wrap_set that does not know OutSet
    breaks exactly the models whose classification is a co-finite set."""
    qn = "mosaik.in_or_out_set.wrap_set"
    fi = ctx.prog.functions.get(qn)
    if fi is None:
        raise AnalysisError(f"R22: {qn} not found")
    s = ctx.summ(qn)
    x = T.var(fi.params[0])
    ret = folded_return(s)
    OUT = "mosaik.in_or_out_set.OutSet"
    pr: List[str] = []
    unknown = None
    for label, is_none, is_out in (("None", True, False), ("an OutSet", False, True), ("a list of names", False, False)):
        def truthy(t, is_none=is_none, is_out=is_out):
            t = T.strip(t)
            if t == ("cmp", "is", x, T.NONE):
                return is_none
            if t == ("cmp", "isnot", x, T.NONE):
                return not is_none
            if t[0] == "call" and t[1] == T.glob("isinstance") and len(t[2]) == 2 and t[2][0] == x:
                cls = T.strip(t[2][1])
                names = [y[1] for y in T.subterms((cls,)) if isinstance(y, tuple) and y and y[0] == "glob"]
                if any(n == OUT or n.endswith(".OutSet") for n in names):
                    return is_out
                if names and all(n in ("frozenset", "set", "list", "tuple") for n in names):
                    return (not is_none) and (not is_out)
                return None
            if t == x:
                return None if is_out else (not is_none)      # truth of an OutSet is not decided here
            return None
        try:
            v = T.strip(boolfn.resolve_phi(ret, {}, truthy)) if ret is not None else T.NONE
        except boolfn.NotBoolean as ex:
            unknown = f"condition not understood: {ex}"
            break
        if v[0] in ("phi", "ifexp"):
            unknown = f"value for {label} not decided: {T.show(v)[:80]}"
            break
        if is_none and v not in (x, T.NONE):
            pr.append(f"for an absent key (None) the result is {T.show(v)[:50]} instead of None: the defaults of parse_attrs no longer apply")
        if is_out and v != x:
            pr.append(f"an OutSet (a co-finite default that parse_attrs computed itself) is turned into {T.show(v)[:50]} instead of being passed through: "
                      "models with any_inputs and no explicit trigger / non-trigger list cannot be classified")
        if not is_none and not is_out:
            arg = T.strip(v[2][0]) if v[0] == "call" and v[1] == T.glob("frozenset") and len(v[2]) == 1 else None
            same_elems = arg is not None and (arg == x or (arg[0] == "bag" and len(arg[1]) == 1 and len(arg[1][0][3]) == 1 and T.strip(arg[1][0][3][0][2]) == x
                                                          and arg[1][0][1] == arg[1][0][3][0][1] and not arg[1][0][2]))
            if not same_elems:
                pr.append(f"a list of attribute names becomes {T.show(v)[:60]} instead of the frozenset of its elements")
    if pr:
        c.bad("wrap", qn, "None and OutSet pass through, a list becomes its frozenset", "; ".join(pr), fi.loc)
    elif unknown:
        c.unk("wrap", qn, "None and OutSet pass through, a list becomes its frozenset", unknown, fi.loc)
    else:
        c.ok("wrap", qn, "None and OutSet pass through, a list becomes its frozenset", "3 cases decided", fi.loc)


def _type_readers(ctx: Ctx, c: Collector) -> None:
    """The simulator type announced in the meta is read in more than one place (the model factory classifies the
    attributes by it, the runner's copy decides what the scheduler demands of the step reply): all of them take it the
    same way -- a spelling that one of them accepts and normalises while another one keeps the raw string is a type the
    two halves of mosaik disagree on."""
    HOLE = T.var("<proxy>")
    seen = {}
    for fi in analysis_units(ctx.prog):
        for e in summarise(ctx.prog, fi).of_kind("store"):
            if e.term[1][0] == "attr" and e.term[1][2] == "type":
                v = T.strip(e.term[2])
                srcs = [x for x in T.subterms((v,)) if x[0] == "idx" and x[2] == T.const("type") and x[1][0] == "attr" and x[1][2] == "meta"]
                if srcs:
                    seen[(fi.qualname, ctx.loc(fi, e))] = T.replace(v, {srcs[0][1][1]: HOLE})
    if len(seen) < 2:
        raise AnalysisError(f"R22: only {len(seen)} readers of meta['type'] found (ModelFactory and SimRunner confirmed by hand)")
    forms = {}
    for k, v in seen.items():
        forms.setdefault(v, []).append(k)
    if len(forms) > 1:
        desc = "; ".join(f"{', '.join(q.rsplit('.', 2)[-2] for q, _l in ks)} reads {T.show(v)[:70]}" for v, ks in forms.items())
        c.bad("type-readers", "mosaik.*", "every reader of meta['type'] takes it the same way", desc, sorted(seen)[0][1])
    else:
        c.ok("type-readers", "mosaik.*", "every reader of meta['type'] takes it the same way", f"{len(seen)} readers", "")


# --------------------------------------------------------------------------- (a) operators
def _member(t: Term, env: Dict[Term, Tuple[str, bool]]) -> Tuple[str, bool]:
    """Pointwise evaluation: (kind, x-is-member) with kind in {"fin", "cofin"}."""
    t = T.strip(t)
    if t in env:
        return env[t]
    if t[0] == "call" and t[1] == T.glob(OUTSET):
        if not t[2]:
            return ("cofin", True)
        k, m = _member(t[2][0], env)
        if k != "fin":
            raise Definite(f"OutSet(...) is given the co-finite set {T.show(t[2][0])} (it needs the finite set of excluded elements)")
        return ("cofin", not m)
    if t[0] == "call" and t[1] == T.glob("frozenset"):
        if not t[2]:
            return ("fin", False)
        return _member(t[2][0], env)
    if t[0] == "op" and t[1] in ("|", "&", "-"):
        (ka, a), (kb, b) = _member(t[2], env), _member(t[3], env)
        if t[1] == "|":
            return ("cofin" if "cofin" in (ka, kb) else "fin", a or b)
        if t[1] == "&":
            return ("fin" if "fin" in (ka, kb) else "cofin", a and b)
        return ("cofin" if ka == "cofin" and kb == "fin" else "fin", a and not b)
    if t[0] == "unop" and t[1] == "~":
        k, m = _member(t[2], env)
        if k == "fin":
            raise Definite(f"{T.show(t)} complements a plain frozenset (TypeError)")
        inv = env.get("§invert")
        if inv is None:
            raise Definite(f"{T.show(t)}: OutSet defines no __invert__ (TypeError)")
        # what OutSet.__invert__ returns for this operand
        return _member(T.replace(inv[1], {inv[0]: T.strip(t[2])}), env)
    if t[0] == "op":
        raise Definite(f"operator {t[1]} in {T.show(t)} is not a set operation")
    if t[0] == "attr" and t[2] == "_set" and t[1] in env and env[t[1]][0] == "fin":
        raise Definite(f"{T.show(t)} reads the excluded-elements field of a plain frozenset (AttributeError): the isinstance branches are mixed up")
    raise Unknown(f"set expression {T.show(t)} not understood")


def _inline_methods(ctx: Ctx, t: Any, me: Term, depth: int = 3) -> Any:
    """`self.<method>(args)` -> the method's folded return value with its parameters substituted
    (an operator that delegates to a sibling computes what the sibling computes)."""
    if not isinstance(t, tuple):
        return t
    t = tuple(_inline_methods(ctx, x, me, depth) for x in t)
    if depth > 0 and T.is_term(t) and t[0] == "call" and t[1][0] == "attr" and t[1][1] == me and not t[3]:
        qn = f"{OUTSET}.{t[1][2]}"
        fi = ctx.prog.functions.get(qn)
        if fi is not None and not fi.is_async and len(fi.params) == len(t[2]) + 1:
            rv = folded_return(ctx.summ(qn))
            if rv is not None:
                mapping = {T.var(fi.params[0]): me}
                mapping.update({T.var(p): a for p, a in zip(fi.params[1:], t[2])})
                return _inline_methods(ctx, T.replace(T.strip(rv), mapping), me, depth - 1)
    return t


def _operators(ctx: Ctx, c: Collector) -> None:
    ci = ctx.prog.cls(OUTSET)
    specs = {
        "__sub__": lambda s, o: s and not o, "__rsub__": lambda s, o: o and not s,
        "__and__": lambda s, o: s and o, "__rand__": lambda s, o: s and o,
        "__or__": lambda s, o: s or o, "__ror__": lambda s, o: s or o,
    }
    # a complement operator (added later): `~OutSet(E)` -- its value, as an expression over its own `self`
    invert = None
    ifi = ctx.prog.functions.get(f"{OUTSET}.__invert__")
    if ifi is not None and len(ifi.params) == 1:
        irv = folded_return(ctx.summ(ifi.qualname))
        if irv is not None:
            invert = (T.var(ifi.params[0]), T.strip(irv))
            isv = T.var(ifi.params[0])
            bad_i = []
            try:
                for sm in (False, True):
                    kind, got = _member(invert[1], {("attr", isv, "_set"): ("fin", sm), isv: ("cofin", not sm)})
                    if got != sm or kind != "fin":
                        bad_i.append(f"x {'not in' if sm else 'in'} self: ~self {'contains' if got else 'lacks'} x ({kind}ite)")
                c.add("op", ifi.qualname, "__invert__", VIOLATED if bad_i else DISCHARGED, "; ".join(bad_i), ifi.loc)
            except Definite as ex:
                c.bad("op", ifi.qualname, "__invert__", str(ex), ifi.loc)
            except Unknown as ex:
                c.unk("op", ifi.qualname, "__invert__", str(ex), ifi.loc)
                invert = None
    for name, meaning in specs.items():
        qn = f"{OUTSET}.{name}"
        fi = ctx.func(qn)
        s = ctx.summ(qn)
        me, other = T.var(fi.params[0]), T.var(fi.params[1])
        isinst = call(T.glob("isinstance"), other, T.glob(OUTSET))
        isinst_me = call(T.glob("isinstance"), me, T.glob(OUTSET))        # always true in a method of OutSet (a shared case-table helper tests both operands)
        reflected = name.startswith("__r")
        branches = [False] if reflected else [True, False]
        for other_is_outset in branches:
            label = f"{name}[other is {'OutSet' if other_is_outset else 'frozenset'}]"
            rets = []
            for r in s.returns:
                try:
                    if boolfn.guards_hold_leaves(r.guards, {isinst: other_is_outset, isinst_me: True}):
                        rets.append(r)
                except boolfn.NotBoolean:
                    rets = None
                    break
            if rets is not None and not rets:
                c.bad("op", qn, label, "nothing is returned on this branch (the operator yields None)", fi.loc)
                continue
            if not rets:
                c.unk("op", qn, label, "branch condition not understood", fi.loc)
                continue
            r = rets[0]
            bad: List[str] = []
            try:
                for sm, om in itertools.product([False, True], repeat=2):
                    # sm: x in self._set ; om: x in other._set (OutSet branch) / x in other (frozenset)
                    env = {("attr", me, "_set"): ("fin", sm)}
                    if invert is not None:
                        env["§invert"] = invert
                    self_has = not sm
                    if other_is_outset:
                        env[("attr", other, "_set")] = ("fin", om)
                        env[other] = ("cofin", not om)
                        other_has = not om
                    else:
                        env[other] = ("fin", om)
                        other_has = om
                    env[me] = ("cofin", self_has)
                    kind, got = _member(boolfn.resolve_phi(_inline_methods(ctx, r.term, me), {isinst: other_is_outset, isinst_me: True}), env)
                    want = meaning(self_has, other_has)
                    want_kind = {"__sub__": "cofin" if not other_is_outset else "fin", "__rsub__": "fin", "__and__": "cofin" if other_is_outset else "fin",
                                 "__rand__": "fin", "__or__": "cofin", "__ror__": "cofin"}[name]
                    if got != want:
                        bad.append(f"x {'in' if self_has else 'not in'} self, x {'in' if other_has else 'not in'} other: result {'contains' if got else 'lacks'} x")
                    elif kind != want_kind:
                        bad.append(f"result is a {kind}ite set where a {want_kind}ite one is required")
            except Definite as ex:
                c.bad("op", qn, label, f"returns {T.show(r.term)}: {ex}", ctx.loc(fi, r))
                continue
            except Unknown as ex:
                c.unk("op", qn, label, str(ex), ctx.loc(fi, r))
                continue
            if bad:
                c.bad("op", qn, label, f"returns {T.show(r.term)}: " + "; ".join(sorted(set(bad))), ctx.loc(fi, r))
            else:
                c.ok("op", qn, label, f"{T.show(r.term)}: 4/4 membership rows", ctx.loc(fi, r))
    # __contains__ and __eq__
    qn = f"{OUTSET}.__contains__"
    fi = ctx.func(qn)
    s = ctx.summ(qn)
    me, item = T.var(fi.params[0]), T.var(fi.params[1])
    ok = len(s.returns) == 1 and s.returns[0].term == ("cmp", "notin", item, ("attr", me, "_set"))
    c.check(ok, "op", qn, "__contains__", "membership is not `item not in self._set`", fi.loc)
    qn = f"{OUTSET}.__eq__"
    fi = ctx.func(qn)
    s = ctx.summ(qn)
    me, other = T.var(fi.params[0]), T.var(fi.params[1])
    isinst = call(T.glob("isinstance"), other, T.glob(OUTSET))
    pr = []
    SAME = T.canon_cmp("==", ("attr", me, "_set"), ("attr", other, "_set"))
    for r in s.returns:
        try:
            if boolfn.guards_hold_leaves(r.guards, {isinst: False}):
                # value for a non-OutSet: must be False whatever the sets are
                for same in (False, True):
                    if boolfn.eval_leaves(r.term, {isinst: False, SAME: same}):
                        pr.append("an OutSet can compare equal to something that is not an OutSet")
            if boolfn.guards_hold_leaves(r.guards, {isinst: True}):
                for same in (False, True):
                    if boolfn.eval_leaves(r.term, {isinst: True, SAME: same}) != same:
                        pr.append("two OutSets are not compared by their excluded elements")
        except boolfn.NotBoolean:
            pr.append("comparison not understood")
    c.add("op", qn, "__eq__", VIOLATED if pr else DISCHARGED, "; ".join(pr), fi.loc)


# --------------------------------------------------------------------------- (b) parse_set_triple
def _pointwise(t: Term, env: Dict[Term, bool]) -> bool:
    t = T.strip(t)
    if t in env:
        return env[t]
    if t[0] == "op" and t[1] in ("|", "&", "-"):
        a, b = _pointwise(t[2], env), _pointwise(t[3], env)
        return (a or b) if t[1] == "|" else (a and b) if t[1] == "&" else (a and not b)
    if t[0] == "call" and t[1] == T.glob("frozenset") and not t[2]:
        return False
    if t[0] == "unop" and t[1] == "~":
        k, m = _member(t[2], env)
        if k == "fin":
            raise Definite(f"{T.show(t)} complements a plain frozenset (TypeError)")
        inv = env.get("§invert")
        if inv is None:
            raise Definite(f"{T.show(t)}: OutSet defines no __invert__ (TypeError)")
        # what OutSet.__invert__ returns for this operand
        return _member(T.replace(inv[1], {inv[0]: T.strip(t[2])}), env)
    if t[0] == "op":
        raise Definite(f"operator {t[1]} in {T.show(t)} is not a set operation")
    raise Unknown(f"set expression {T.show(t)} not understood")


def _set_eq_forall(t: Term) -> Optional[Tuple[Term, Term, bool]]:
    """`L == R` / `L != R` between sets -> (L, R, is_equality)."""
    leaf, pol = boolfn.canon_leaf(t)
    if leaf[0] == "cmp" and leaf[1] == "==":
        return leaf[2], leaf[3], pol
    return None


def _triple(ctx: Ctx, c: Collector) -> None:
    fi = ctx.func(TRIPLE)
    s = ctx.summ(TRIPLE)
    u, a, b = (T.var(fi.params[i]) for i in range(3))
    loc = fi.loc
    NU, NA, NB = ("cmp", "is", u, T.NONE), ("cmp", "is", a, T.NONE), ("cmp", "is", b, T.NONE)

    def resolve(t: Term, none: Dict[Term, bool], env: Optional[Dict[Term, bool]] = None) -> Term:
        """Resolve phi / ifexp nodes whose conditions are None-tests of the parameters (and, given the membership of
        the one element of the universe, tests of their truth value: a set is false when it is None or empty)."""
        t = T.strip(t)
        if not t:
            return t
        if t[0] in ("phi", "ifexp"):
            def truthy(x):
                x = T.strip(x)
                if env is not None and x in (u, a, b):
                    return (not none[("cmp", "is", x, T.NONE)]) and env[x]
                return None
            cond = boolfn.eval_leaves(t[1], none, truthy)
            return resolve(t[2] if cond else t[3], none, env)
        if isinstance(t, tuple):
            return tuple(resolve(x, none, env) if isinstance(x, tuple) else x for x in t)
        return t

    raises = s.of_kind("raise")
    ret = s.returns[-1] if s.returns else None
    if ret is None:
        c.bad("triple", TRIPLE, "returns (part_a, part_b)", "nothing is returned", loc)
        return
    if ret.term[0] != "tuple" or len(ret.term[1]) != 2:
        c.unk("triple", TRIPLE, "shape", "does not return a pair", loc)
        return
    problems: Dict[str, List[str]] = {"missing": [], "infer": [], "disjoint": [], "cover": [], "order": []}
    try:
        for nu, na, nb in itertools.product([False, True], repeat=3):
            none = {NU: nu, NA: na, NB: nb}
            given = 3 - (nu + na + nb)
            early = [r for r in raises if _only_none_guards(r.guards, (NU, NA, NB)) and boolfn.guards_hold_leaves(r.guards, none)]
            tag = f"[{'union ' if not nu else ''}{'part_a ' if not na else ''}{'part_b' if not nb else ''}] given".replace(" ]", "]")
            if given < 2:
                if not early:
                    problems["missing"].append(f"{tag}: fewer than two sets given but no error is raised")
                continue
            if early:
                problems["missing"].append(f"{tag}: two sets are given but an error is raised")
                continue
            # final values of the three sets as pointwise functions of the given ones
            try:
                fa, fb = resolve(ret.term[1][0], none), resolve(ret.term[1][1], none)
                per_env = False
            except boolfn.NotBoolean:
                per_env = True          # the inference depends on the truth value of a set: decided per element below
            # the union after inference: find it in the coverage test
            later = [r for r in raises if not _only_none_guards(r.guards, (NU, NA, NB))]
            for uu, aa, bb in itertools.product([False, True], repeat=3):
                env = {u: uu, a: aa, b: bb}
                # expected final values
                if nu:
                    eu, ea, eb = aa or bb, aa, bb
                elif na:
                    eu, ea, eb = uu, uu and not bb, bb
                elif nb:
                    eu, ea, eb = uu, aa, uu and not aa
                else:
                    eu, ea, eb = uu, aa, bb
                if per_env:
                    fa, fb = resolve(ret.term[1][0], none, env), resolve(ret.term[1][1], none, env)
                ga, gb = _pointwise(fa, env), _pointwise(fb, env)
                if (ga, gb) != (ea, eb):
                    if (ga, gb) == (eb, ea):
                        problems["order"].append(f"{tag}: the two parts are returned in the wrong order")
                    else:
                        problems["infer"].append(f"{tag}: inferred parts are wrong for an element with union={uu}, part_a={aa}, part_b={bb}")
            # rejections: pointwise predicates
            tests = []
            for r in later:
                own = [g for g in without_asserts(s, r.guards) if not _only_none_guards([g], (NU, NA, NB))]
                # the decisive test is the last own guard; earlier own guards are negations of earlier rejections
                tests.append((r, own))
            # evaluate, for every single-element universe, whether some rejection fires
            for uu, aa, bb in itertools.product([False, True], repeat=3):
                env = {u: uu, a: aa, b: bb}
                if nu:
                    eu, ea, eb = aa or bb, aa, bb
                elif na:
                    eu, ea, eb = uu, uu and not bb, bb
                elif nb:
                    eu, ea, eb = uu, aa, uu and not aa
                else:
                    eu, ea, eb = uu, aa, bb
                fired = False
                for r, own in tests:
                    holds = True
                    for g in own:
                        dec = _set_eq_forall(resolve(g[1], none, env))
                        if dec is None:
                            raise Unknown(f"rejection test {T.show(g[1])[:80]} is not a set (in)equality")
                        L, R, is_eq = dec
                        same = _pointwise(L, env) == _pointwise(R, env)   # single-element universe: forall == pointwise
                        val = same if is_eq else not same
                        if val != g[2]:
                            holds = False
                            break
                    if holds:
                        fired = True
                overlap = ea and eb
                uncovered = eu != (ea or eb)
                if overlap and not fired:
                    problems["disjoint"].append(f"{tag}: an element in both parts is accepted")
                elif uncovered and not overlap and not fired:
                    problems["cover"].append(f"{tag}: an element with union={eu}, part_a={ea}, part_b={eb} is accepted although union != part_a | part_b")
                elif fired and not overlap and not uncovered:
                    problems["cover"].append(f"{tag}: a consistent description (union={eu}, part_a={ea}, part_b={eb}) is rejected")
    except Definite as ex:
        c.bad("triple", TRIPLE, "inference equations", str(ex), loc)
        return
    except (Unknown, boolfn.NotBoolean) as ex:
        c.unk("triple", TRIPLE, "inference+rejections", str(ex), loc)
        return
    names = {"missing": "at least two of three given", "infer": "inference equations", "disjoint": "parts must be disjoint", "cover": "union == part_a | part_b", "order": "returns (part_a, part_b)"}
    for k, pr in problems.items():
        c.add("triple", TRIPLE, names[k], VIOLATED if pr else DISCHARGED, "; ".join(sorted(set(pr)))[:500], loc)
    # an exception class taken from a parameter whose default is ValueError (and that no call site of the package
    # overrides) is ValueError
    dflt = {}
    a_ = fi.node.args
    pos = a_.posonlyargs + a_.args
    for prm, d in list(zip(pos[len(pos) - len(a_.defaults):], a_.defaults)) + [(x, d) for x, d in zip(a_.kwonlyargs, a_.kw_defaults) if d is not None]:
        if isinstance(d, ast.Name):
            dflt[prm.arg] = d.id
    overridden = set()
    for f2 in analysis_units(ctx.prog):
        for e in summarise(ctx.prog, f2).of_kind("call"):
            if e.term[1] == T.glob(TRIPLE):
                overridden |= {k for k, _ in e.term[3]}
                if len(e.term[2]) > 6:
                    overridden.add("*")
    for r in raises:
        okv = r.term[0] == "call" and r.term[1] == T.glob("ValueError")
        okv = okv or (r.term[0] == "call" and r.term[1][0] == "var" and dflt.get(r.term[1][1]) == "ValueError" and r.term[1][1] not in overridden and "*" not in overridden)
        if not okv:
            c.bad("triple", TRIPLE, "rejections are ValueError", f"raises {T.show(r.term)[:60]}", ctx.loc(fi, r))


def _only_none_guards(guards, nones) -> bool:
    for g in guards:
        for l in boolfn.leaves(g[1]):
            if l not in nones:
                return False
    return True


# --------------------------------------------------------------------------- (c) parse_attrs
KEYS = ["attrs", "trigger", "non-trigger", "persistent", "non-persistent"]
TYPES = ["time-based", "event-based", "hybrid"]


def _parse_attrs(ctx: Ctx, c: Collector) -> None:
    fi = ctx.func(PARSE)
    s = ctx.summ(PARSE)
    desc, typ = T.var(fi.params[0]), T.var(fi.params[1])
    loc = fi.loc
    calls = [e for e in s.of_kind("call") if e.term[1] == T.glob(TRIPLE)]
    if len(calls) != 2:
        c.unk("defaults", PARSE, "parse_set_triple calls", f"{len(calls)} calls to parse_set_triple (2 expected: inputs, outputs)", loc)
        return
    c_in, c_out = calls

    def ceval(t: Term, combo) -> bool:
        ty, anyin, present = combo
        t = T.strip(t)
        if t[0] == "const":
            return bool(t[1])
        if t[0] == "not":
            return not ceval(t[1], combo)
        if t[0] == "and":
            return all(ceval(x, combo) for x in t[1])
        if t[0] == "or":
            return any(ceval(x, combo) for x in t[1])
        if t[0] == "cmp" and t[1] in ("==", "!="):
            ops = {t[2], t[3]}
            if typ in ops:
                other = (ops - {typ}).pop()
                if other[0] == "const":
                    return (other[1] == ty) == (t[1] == "==")
        if t[0] == "cmp" and t[1] in ("in", "notin") and t[3] == desc and t[2][0] == "const":
            return (t[2][1] in present) == (t[1] == "in")
        if t[0] == "call" and t[1] == ("attr", desc, "get") and t[2] and t[2][0] == T.const("any_inputs"):
            return anyin
        if t[0] == "cmp" and t[1] in ("in", "notin") and t[2] == typ and t[3][0] in ("glob", "tuple", "bag"):
            return t[1] == "in"           # the table only ranges over the three simulator types
        # the truth value of one of the sets: None and the empty set are false; a *declared* list is true or false with its contents
        try:
            v = aeval(t, combo)
        except Unknown:
            v = None
        if v in ("None", "EMPTY"):
            return False
        if v == "ALL":
            return True
        if v is not None and v.startswith("KEY("):
            raise Definite(f"for a {ty} simulator (any_inputs={anyin}, keys {sorted(present)}) the classification depends on whether the declared list {v[4:-1]!r} is empty: "
                           "an explicitly empty list is treated like an absent key, so the defaults are applied although the description is complete (or inconsistent)")
        raise Unknown(f"condition {T.show(t)[:80]} not understood")

    def aeval(t: Term, combo) -> str:
        ty, anyin, present = combo
        t = T.strip(t)
        if t == T.NONE:
            return "None"
        if t[0] == "call" and t[1] == T.glob("frozenset") and not t[2]:
            return "EMPTY"
        if t[0] == "call" and t[1] == T.glob(OUTSET) and not t[2]:
            return "ALL"
        if t[0] == "call" and t[1] == T.glob(WRAP) and len(t[2]) == 1:
            return aeval(t[2][0], combo)
        if t[0] == "call" and t[1] == ("attr", desc, "get") and t[2] and t[2][0][0] == "const":
            k = t[2][0][1]
            if k in present:
                return f"KEY({k})"
            return aeval(t[2][1], combo) if len(t[2]) > 1 else "None"
        if t[0] in ("phi", "ifexp"):
            return aeval(t[2], combo) if ceval(t[1], combo) else aeval(t[3], combo)
        if t[0] == "idx" and t[2][0] == "const" and isinstance(t[2][1], int):
            # an element of a (conditionally chosen) tuple of defaults
            base = T.strip(t[1])
            while base[0] in ("phi", "ifexp"):
                base = T.strip(base[2] if ceval(base[1], combo) else base[3])
            if base[0] == "tuple" and -len(base[1]) <= t[2][1] < len(base[1]):
                return aeval(base[1][t[2][1]], combo)
        if t[0] == "or" and len(t[1]) == 2:
            # value-level `a or b`: b replaces a falsy a (None, an empty collection)
            left = aeval(t[1][0], combo)
            if left in ("None", "EMPTY"):
                return aeval(t[1][1], combo)
            if left == "ALL":
                return left
            right = aeval(t[1][1], combo)
            if right == "EMPTY":
                return left            # an empty declared list and the empty default are the same set
            return f"{left} unless it is empty, then {right}"
        if t[0] == "var" and t[1] not in fi.params:
            raise Definite(f"for a {ty} simulator (any_inputs={anyin}, keys {sorted(present)}) the local `{t[1]}` is used but not assigned on that path")
        raise Unknown(f"value {T.show(t)[:80]} not understood")

    bad_in: List[str] = []
    bad_out: List[str] = []
    n = 0
    try:
        for ty in TYPES:
            for anyin in (False, True):
                for r in range(len(KEYS) + 1):
                    for present in itertools.combinations(KEYS, r):
                        combo = (ty, anyin, set(present))
                        n += 1
                        key = lambda k: f"KEY({k})" if k in present else None  # noqa: E731
                        inputs = "ALL" if anyin else (key("attrs") or "None")
                        exp_meas = key("non-trigger") or {"time-based": "None", "event-based": "EMPTY",
                                                           "hybrid": "None" if "trigger" in present else inputs}[ty]
                        exp_ev = key("trigger") or {"time-based": "EMPTY", "event-based": "None", "hybrid": "None"}[ty]
                        got = tuple(aeval(x, combo) for x in c_in.term[2][:3])
                        if got != (inputs, exp_meas, exp_ev):
                            bad_in.append(f"{ty}, any_inputs={anyin}, keys {sorted(present)}: (attrs, non-trigger, trigger) = {got}, expected {(inputs, exp_meas, exp_ev)}")
                        outs = key("attrs") or "None"
                        exp_p = key("persistent") or ("EMPTY" if ty == "event-based" else "None")
                        exp_np = key("non-persistent") or ("None" if ty == "event-based" else "EMPTY")
                        got = tuple(aeval(x, combo) for x in c_out.term[2][:3])
                        if got != (outs, exp_p, exp_np):
                            bad_out.append(f"{ty}, keys {sorted(present)}: (attrs, persistent, non-persistent) = {got}, expected {(outs, exp_p, exp_np)}")
    except Definite as ex:
        c.bad("defaults", PARSE, "defaults table", str(ex), loc)
        return
    except Unknown as ex:
        c.unk("defaults", PARSE, "defaults table", str(ex), loc)
        return
    c.add("defaults", PARSE, "inputs: (universe, non-trigger, trigger) per type x any_inputs x keys", VIOLATED if bad_in else DISCHARGED,
          (f"{len(bad_in)} of {n} combinations differ, e.g. " + bad_in[0]) if bad_in else f"{n} combinations", loc)
    c.add("defaults", PARSE, "outputs: (attrs, persistent, non-persistent) per type x keys", VIOLATED if bad_out else DISCHARGED,
          (f"{len(bad_out)} of {n} combinations differ, e.g. " + bad_out[0]) if bad_out else f"{n} combinations", loc)

    # forbidden-kind guards: (type literal, which result must be empty)
    res = {"mi": ("idx", c_in.term, T.const(0)), "ei": ("idx", c_in.term, T.const(1)),
           "mo": ("idx", c_out.term, T.const(0)), "eo": ("idx", c_out.term, T.const(1))}
    EMPTY = call(T.glob("frozenset"))
    want = {("time-based", "ei"), ("event-based", "mi"), ("time-based", "eo"), ("event-based", "mo")}
    odd = []
    pr = []
    full = {"ei": "trigger inputs", "mi": "non-trigger inputs", "eo": "non-persistent outputs", "mo": "persistent outputs"}
    # one joint decision table over all rejections: per simulator type and per combination of "this result is empty",
    # some rejection fires exactly when a result that the type forbids is not empty -- however the tests are nested,
    # ordered, split into helpers or merged
    cand = []
    for r in s.of_kind("raise"):
        gts = [T.guard_term(g) for g in r.guards]
        if any(gt[0] == "cmp" and gt[1] == "notin" and gt[2] == typ for gt in gts):
            continue          # an unknown simulator type is rejected up front (it crashed further down before)
        g_all = ("and", tuple(gts)) if len(gts) != 1 else gts[0]
        try:
            lvs = boolfn.leaves(g_all)
        except boolfn.NotBoolean:
            odd.append(f"rejection under {T.show(gts[-1])[:80]} not recognised")
            continue
        kinds = {}
        okl = True
        for l in lvs:
            if l[0] == "cmp" and l[1] == "==" and typ in (l[2], l[3]) and [y for y in (l[2], l[3]) if y != typ][0][0] == "const":
                kinds[l] = ("type", [y for y in (l[2], l[3]) if y != typ][0][1])
            elif l[0] == "cmp" and l[1] == "in" and l[2] == typ and T.strip(l[3])[0] in ("tuple", "bag") and all(
                    (y[0] == "const") if T.strip(l[3])[0] == "tuple" else (y[1][0] == "const" and not y[2] and not y[3]) for y in T.strip(l[3])[1]):
                kinds[l] = ("typeset", frozenset((y[1] if T.strip(l[3])[0] == "tuple" else y[1][1]) for y in T.strip(l[3])[1]))
            elif l[0] == "cmp" and l[1] == "==" and EMPTY in (l[2], l[3]) and any(v == [y for y in (l[2], l[3]) if y != EMPTY][0] for v in res.values()):
                sub = [y for y in (l[2], l[3]) if y != EMPTY][0]
                kinds[l] = ("empty", [k for k, v in res.items() if v == sub][0])
            else:
                okl = False
        if not okl or not any(k[0] == "empty" for k in kinds.values()):
            if any(k[0] == "empty" for k in kinds.values()):
                odd.append(f"rejection under {T.show(gts[-1])[:80]} not recognised")
            continue
        cand.append((r, g_all, kinds))
        if not (r.term[0] == "call" and r.term[1] == T.glob("ValueError")):
            odd.append("a forbidden-kind rejection is not a ValueError")
    keys = ["mi", "ei", "mo", "eo"]
    missing, extra = set(), set()
    for ty in ("time-based", "event-based", "hybrid"):
        for bits in range(16):
            empty = {k: not (bits >> i & 1) for i, k in enumerate(keys)}
            fired = False
            for r, g_all, kinds in cand:
                a = {l: ((kd[1] == ty) if kd[0] == "type" else (ty in kd[1]) if kd[0] == "typeset" else empty[kd[1]]) for l, kd in kinds.items()}
                if boolfn.eval_leaves(g_all, a):
                    fired = True
            should = any((ty, k) in want and not empty[k] for k in keys)
            nonempty = [k for k in keys if not empty[k]]
            if should and not fired and len(nonempty) == 1:
                missing.add((ty, nonempty[0]))
            if fired and not should:
                for k in nonempty or ["mi"]:
                    extra.add((ty, k))
    for ty, k in sorted(missing):
        pr.append(f"{ty} simulators with {full[k]} are not rejected")
    for ty, k in sorted(extra):
        pr.append(f"{ty} simulators with {full[k]} are rejected")
    c.add("forbidden", PARSE, "forbidden-kind guards (4 siblings)", VIOLATED if pr else (UNKNOWN if odd else DISCHARGED), "; ".join(pr + odd), loc)
    # returned tuple order
    ret = s.returns[-1].term if s.returns else T.NONE
    okr = ret == ("tuple", (res["mi"], res["ei"], res["mo"], res["eo"]))
    mi = ctx.func(MOCK_INIT)
    ms = ctx.summ(MOCK_INIT)
    me = T.var(mi.params[0])
    pa = [e for e in ms.of_kind("call") if e.term[1] == T.glob(PARSE)]
    order = {}
    for e in ms.of_kind("store"):
        v = e.term[2]
        if v[0] == "idx" and pa and v[1] == pa[0].term and v[2][0] == "const" and e.term[1][0] == "attr" and e.term[1][1] == me:
            order[v[2][1]] = e.term[1][2]
    want_order = {0: "measurement_inputs", 1: "event_inputs", 2: "measurement_outputs", 3: "event_outputs"}
    pr = []
    if not okr:
        pr.append("parse_attrs does not return (measurement_inputs, event_inputs, measurement_outputs, event_outputs)")
    # every way out returns what was computed from *this* description
    for r in s.returns[:-1]:
        if unalias(r.term, s, fi) != ("tuple", (res["mi"], res["ei"], res["mo"], res["eo"])):
            pr.append(f"parse_attrs also returns {T.show(r.term)[:60]} (line {r.lineno}), which is not computed from this model description: a remembered or defaulted classification "
                      "(two descriptions that agree on a cache key but differ otherwise -- a list that is absent vs. one that is empty -- get the same result)")
    # ModelMock takes its four sets from parse_attrs and from nowhere else
    fields = {"measurement_inputs", "event_inputs", "measurement_outputs", "event_outputs"}
    for e in ms.of_kind("store"):
        if e.term[1][0] == "attr" and e.term[1][1] == me and e.term[1][2] in fields:
            v = unalias(e.term[2], ms, mi)
            if not (v[0] == "idx" and pa and v[1] == pa[0].term):
                pr.append(f"ModelMock.__init__ sets {e.term[1][2]} to {T.show(e.term[2])[:40]} (line {e.lineno}) without parse_attrs: a description that takes this path is not classified "
                          "(and not rejected if it is under-specified)")
    if pa and pa[0].guards:
        pr.append("ModelMock.__init__ calls parse_attrs only conditionally")
    if order != want_order:
        pr.append(f"ModelMock.__init__ unpacks the result as {order}")
    if pa and pa[0].term[2][1:] != (("attr", ("attr", me, "_factory"), "type"),):
        pr.append("ModelMock does not classify with the simulator's (adapted) type")
    c.add("tuple", PARSE, "writer/reader agreement of the 4-tuple", VIOLATED if pr else DISCHARGED, "; ".join(pr), loc)


def _readers(ctx: Ctx, c: Collector) -> None:
    checks = [
        ("mosaik.scenario.ModelMock.input_attrs", lambda me: {("op", "|", ("attr", me, "event_inputs"), ("attr", me, "measurement_inputs")), ("op", "|", ("attr", me, "measurement_inputs"), ("attr", me, "event_inputs"))}, "input_attrs = event_inputs | measurement_inputs"),
        ("mosaik.scenario.ModelMock.output_attrs", lambda me: {("op", "|", ("attr", me, "event_outputs"), ("attr", me, "measurement_outputs")), ("op", "|", ("attr", me, "measurement_outputs"), ("attr", me, "event_outputs"))}, "output_attrs = event_outputs | measurement_outputs"),
    ]
    for qn, want, label in checks:
        fi = ctx.func(qn)
        s = ctx.summ(qn)
        me = T.var(fi.params[0])
        ok = len(s.returns) == 1 and init_field_value(ctx.prog, fi, s.returns[0].term) in want(me)
        c.check(ok, "readers", qn, label, f"returns {T.show(s.returns[0].term) if s.returns else None}", fi.loc)
    for qn, fld, label in (("mosaik.scenario.Entity.triggered_by", "event_inputs", "triggered_by tests event_inputs"),
                           ("mosaik.scenario.Entity.is_persistent", "measurement_outputs", "is_persistent tests measurement_outputs")):
        fi = ctx.func(qn)
        s = ctx.summ(qn)
        me, at = T.var(fi.params[0]), T.var(fi.params[1])
        ok = len(s.returns) == 1 and s.returns[0].term == ("cmp", "in", at, ("attr", ("attr", me, "model_mock"), fld))
        c.check(ok, "readers", qn, label, f"returns {T.show(s.returns[0].term) if s.returns else None}", fi.loc)


from ..report import VIOLATED, DISCHARGED, UNKNOWN  # noqa: E402
from ..terms import call  # noqa: E402


def _entity_model(ctx: Ctx, c: Collector) -> None:
    """Every Entity (children included) is classified with the ModelMock of its *own* type:
    connect() validates attributes and decides trigger/persistent through entity.model_mock."""
    qn = "mosaik.scenario.ModelMock._make_entities"
    fi = ctx.func(qn)
    s = ctx.summ(qn)
    me = T.var(fi.params[0])
    ents = [e for e in s.of_kind("call") if e.term[1] == T.glob("mosaik.scenario.Entity")]
    efi = ctx.func("mosaik.scenario.Entity.__init__")
    pos = efi.params.index("model_mock") - 1 if "model_mock" in efi.params else 3
    pr = []
    if not ents:
        pr.append("no Entity is created")
    for e in ents:
        ev = e.iters[-1][1] if e.iters else None
        arg = kwarg(e.term, "model_mock", pos)
        want = ("idx", ("attr", ("attr", me, "_factory"), "models"), ("idx", ev, T.const("type"))) if ev is not None else None
        if arg != want:
            pr.append(f"entities get {T.show(arg)[:60]} as their model instead of the model of their own type (self._factory.models[e['type']]): "
                      "a child entity of another type is validated and classified with the wrong attribute sets")
    c.add("readers", qn, "Entity.model_mock is the mock of the entity's own type", VIOLATED if pr else DISCHARGED, "; ".join(sorted(set(pr))), fi.loc)
    # Entity.__init__ stores it
    es = ctx.summ("mosaik.scenario.Entity.__init__")
    me2 = T.var(efi.params[0])
    ok = any(e.term == ("store", ("attr", me2, "model_mock"), T.var("model_mock")) for e in es.of_kind("store"))
    c.check(ok, "readers", "mosaik.scenario.Entity.__init__", "model_mock stored", "Entity does not store its model_mock", efi.loc)
