"""R20 CONNECT-VALIDATION, the connect_one rows of R10 VALIDATE-FIRST, and the connection
tables: one decision table over the atomic conditions of World.connect_one decides (a) exactly
which attribute pairs are rejected with ScenarioError, (b) that no data-flow effect fires in a
rejected row, (c) which table gets which entry in every accepted row."""
from __future__ import annotations

from typing import Dict, List, Optional, Set, Tuple

from .base import *  # noqa: F401,F403
from . import tables
from .. import boolfn

CONNECT_ONE = "mosaik.scenario.World.connect_one"
CONNECT = "mosaik.scenario.World.connect"
ASYNC = "mosaik.scenario.World.connect_async_requests"
INTERVAL = "mosaik.scenario.connect_interval"
SCENERR = "mosaik.exceptions.ScenarioError"
MIN_INSTANCES = 12

TABLE_FIELDS = ("input_delays", "successors", "successors_to_wait_for", "triggers", "pulled_inputs", "output_to_push",
                "output_request", "persistent_inputs", "outputs", "triggering_ancestors")


def _effect_table(t: Term) -> Optional[str]:
    """Name of the connection table an access path writes into."""
    while t[0] in ("idx", "attr", "call"):
        if t[0] == "attr" and t[2] in TABLE_FIELDS:
            return t[2]
        if t[0] == "attr" and t[2] == "entity_graph":
            return "entity_graph"
        t = t[1] if t[0] != "call" else t[1]
    return None


def run(ctx: Ctx) -> Collector:
    c = Collector("R20")
    _connect_one(ctx, c)
    _connect(ctx, c)
    _async(ctx, c)
    _writers(ctx, c)
    return c


def _connect_one(ctx: Ctx, c: Collector) -> None:
    fi = ctx.func(CONNECT_ONE)
    s = ctx.summ(CONNECT_ONE)
    ps = fi.params
    me, src, dest, src_attr = (T.var(ps[i]) for i in range(4))
    dest_attr_p = T.var(ps[4])
    ts, wk, init = T.var("time_shifted"), T.var("weak"), T.var("initial_data")
    for nm in ("time_shifted", "weak", "initial_data"):
        if nm not in ps:
            raise AnalysisError(f"{CONNECT_ONE}: parameter {nm} not found")
    mm_s, mm_d = ("attr", src, "model_mock"), ("attr", dest, "model_mock")
    # the (defaulted) destination attribute is whatever is tested against the destination's inputs
    DA = None
    for e in s.events:
        for cm in T.find((e.term,) + tuple(g[1] for g in e.guards), lambda x: x[0] == "cmp" and x[1] in ("in", "notin") and x[3] == ("attr", mm_d, "input_attrs")):
            DA = cm[2]
            break
        if DA is not None:
            break
    if DA is None:
        c.bad("reject", CONNECT_ONE, "destination attribute is an input", "the destination attribute is never tested against the destination model's input attributes", fi.loc)
        return
    leaves_da = {x for x in T.subterms(DA) if x[0] == "var"}
    if not leaves_da <= {dest_attr_p, src_attr} or dest_attr_p not in leaves_da:
        c.bad("reject", CONNECT_ONE, "destination attribute is an input", f"the attribute tested against the destination's inputs is {T.show(DA)[:80]}, not dest_attr (defaulting to src_attr)", fi.loc)
        return
    das = [DA, dest_attr_p]
    SRC_OK = ("cmp", "in", src_attr, ("attr", mm_s, "output_attrs"))
    DST_OK = ("cmp", "in", DA, ("attr", mm_d, "input_attrs"))
    MEAS = ("cmp", "in", DA, ("attr", mm_d, "measurement_inputs"))
    SENT = ("cmp", "is", init, T.glob("mosaik.scenario.SENTINEL"))
    TRIG = call(("attr", dest, "triggered_by"), DA)
    PERS = call(("attr", src, "is_persistent"), src_attr)
    src_sim = ("idx", ("attr", me, "sims"), ("attr", src, "sid"))
    dest_sim = ("idx", ("attr", me, "sims"), ("attr", dest, "sid"))
    CACHED = ("cmp", "is", ("attr", src_sim, "outputs"), T.NONE)     # leaf; "outputs is not None" is its negation
    USE_CACHE = ("attr", me, "use_cache")
    loc = fi.loc

    raises = [e for e in s.of_kind("raise")]
    effects: List[Tuple[str, Event]] = []
    creates: List[Tuple[str, Event]] = []
    idem: Dict[int, Tuple[Term, ...]] = {}
    for e in s.events:
        if e.kind == "store":
            full = unalias(e.term[1], s, fi)
            tb = _effect_table(full)
            if tb:
                effects.append((tb, e))
                # `if k not in d: d[k] = v` is setdefault: the test is not a condition of the entry
                if e.term[1][0] == "idx":
                    idem[e.idx] = tuple(g for g in e.guards if T.guard_term(g) == ("cmp", "notin", e.term[1][2], e.term[1][1]))
                    if tb == "input_delays":
                        # a test against the entry that is already there (keep the smaller delay) is how the entry is combined, not whether
                        # the connection is entered: R5 judges it
                        idem[e.idx] += tuple(g for g in e.guards if any(x[0] == "attr" and x[2] == "input_delays" for x in T.subterms((T.guard_term(g),))))
        elif e.kind == "call" and e.term[1][0] == "attr" and e.term[1][2] in ("append", "add", "add_edge", "update"):
            recv = unalias(e.term[1][1], s, fi)
            tb = _effect_table(recv)
            if tb:
                effects.append((tb, e))
                # `if x not in xs: xs.append(x)` keeps one copy of an entry: the test is not a condition of the entry
                if e.term[1][2] in ("append", "add") and len(e.term[2]) == 1:
                    idem[e.idx] = tuple(g for g in e.guards if T.guard_term(g)[0] == "cmp" and T.guard_term(g)[1] == "notin" and g[0]
                                        and T.guard_term(g)[2] == e.term[2][0] and unalias(T.guard_term(g)[3], s, fi) == recv)
        elif e.kind == "call" and e.term[1][0] == "attr" and e.term[1][2] == "setdefault" and len(e.term[2]) == 2:
            # a setdefault whose result is not used further is an effect of its own
            tb = _effect_table(unalias(e.term[1][1], s, fi))
            used = any(T.contains(x.term, e.term) and x.idx != e.idx for x in s.events)
            if tb and not used:
                effects.append((tb, e))
            elif tb:
                # the key is created where the call stands, whatever is done with the result later
                creates.append((tb, e))
    if not raises:
        c.bad("reject", CONNECT_ONE, "rejection-table", "connect_one never raises: invalid attribute pairs are accepted", loc)
        return
    for r in raises:
        ok_exc = r.term[0] == "call" and r.term[1] == T.glob(SCENERR)
        c.check(ok_exc, "exc", CONNECT_ONE, "rejection is a ScenarioError", f"raises {T.show(r.term)[:60]}", ctx.loc(fi, r))

    items = [(f"raise{r.idx}", r.guards) for r in raises] + [(f"eff:{tb}:{e.idx}", tuple(g for g in e.guards if g not in idem.get(e.idx, ()))) for tb, e in effects]
    items += [(f"mk:{tb}:{e.idx}", e.guards) for tb, e in creates]
    by_idx = {e.idx: (tb, e) for tb, e in effects}

    def truthy(t: Term) -> Optional[bool]:
        return None

    pr_rej: Dict[str, List[str]] = {"src-attr": [], "dest-attr": [], "initial-data": [], "spurious": []}
    pr_eff: List[str] = []
    pr_tab: Dict[str, List[str]] = {}
    nrows = 0
    try:
        for a, fired in tables.rows(items, [SRC_OK, DST_OK, MEAS, SENT, TRIG, PERS, CACHED, ts, wk, USE_CACHE], truthy):
            nrows += 1
            r = [x for x in fired if x.startswith("raise")]
            ef = [x for x in fired if x.startswith("eff:")]
            bad_src, bad_dst = not a[SRC_OK], not a[DST_OK]
            need_init = (a[ts] or a[wk]) and a[MEAS] and a[SENT]
            should = bad_src or bad_dst or need_init
            if should and not r:
                if bad_src:
                    pr_rej["src-attr"].append("a source attribute that is not an output of the source model is accepted")
                elif bad_dst:
                    pr_rej["dest-attr"].append("a destination attribute that is not an input of the destination model is accepted")
                else:
                    pr_rej["initial-data"].append("a %s connection into a non-trigger input without initial data is accepted" % ("time-shifted" if a[ts] else "weak"))
            if not should and r:
                why = []
                if a[ts] or a[wk]:
                    why.append("time-shifted/weak")
                why.append("into a %s input" % ("non-trigger" if a[MEAS] else "trigger"))
                why.append("without initial data" if a[SENT] else "with initial data")
                pr_rej["spurious"].append("a valid connection (" + ", ".join(why) + ") is rejected")
            mk = [x for x in fired if x.startswith("mk:")]
            if r and (ef or mk):
                pr_eff.append("data-flow is registered (" + ", ".join(sorted({x.split(':')[1] for x in ef + mk})) + ") for an attribute pair that is rejected")
            if not should and not r:
                got: Dict[str, int] = {}
                for x in ef:
                    got[x.split(":")[1]] = got.get(x.split(":")[1], 0) + 1
                pulled = (not a[CACHED]) and a[PERS]
                want = {"input_delays": True, "successors": True, "output_request": True, "entity_graph": True,
                        "triggers": a[TRIG], "pulled_inputs": pulled, "output_to_push": not pulled}
                for tb, w in want.items():
                    if w and not got.get(tb):
                        pr_tab.setdefault(tb, []).append(_row_desc(tb, a, ts, wk, TRIG, pulled) + ": no entry is made")
                    if not w and got.get(tb):
                        pr_tab.setdefault(tb, []).append(_row_desc(tb, a, ts, wk, TRIG, pulled) + ": an entry is made")
                # initial data lands in the cache iff pulled, else in the persistent memory
                has_init = not a[SENT]
                if has_init:
                    if pulled and not got.get("outputs"):
                        pr_tab.setdefault("outputs", []).append("initial data of a pulled (cached) connection is not stored in the output cache")
                    if not pulled and not got.get("persistent_inputs"):
                        pr_tab.setdefault("persistent_inputs", []).append("initial data of a pushed connection is not stored in the persistent inputs")
                else:
                    if got.get("outputs"):
                        pr_tab.setdefault("outputs", []).append("the output cache is written although no initial data was given")
                if a[PERS] and not a[USE_CACHE] and not got.get("persistent_inputs") and not has_init:
                    pr_tab.setdefault("persistent_inputs", []).append("without cache, a persistent source gets no placeholder in the persistent inputs (it would never be remembered)")
    except boolfn.NotBoolean as ex:
        c.unk("reject", CONNECT_ONE, "rejection-table", f"condition not understood: {ex}", loc)
        return
    names = {"src-attr": "source attribute is an output", "dest-attr": "destination attribute is an input",
             "initial-data": "shifted/weak into non-trigger needs initial data", "spurious": "nothing else is rejected"}
    for k, pr in pr_rej.items():
        c.add("reject", CONNECT_ONE, names[k], VIOLATED if pr else DISCHARGED, "; ".join(sorted(set(pr)))[:600] if pr else f"{nrows} rows", loc)
    c.add("R10", CONNECT_ONE, "no effect before the last rejection", VIOLATED if pr_eff else DISCHARGED,
          "; ".join(sorted(set(pr_eff)))[:500] if pr_eff else f"{len(effects)} effects, none fires in a rejected row", loc)
    for tb in ("input_delays", "successors", "output_request", "entity_graph", "triggers", "pulled_inputs", "output_to_push", "outputs", "persistent_inputs"):
        pr = pr_tab.get(tb, [])
        c.add(f"table/{tb}", CONNECT_ONE, f"entries of {tb}", VIOLATED if pr else DISCHARGED, "; ".join(sorted(set(pr)))[:500], loc)

    # the delay: connect_interval(src_group, dest_group, int(time_shifted), int(weak)) evaluated before every effect
    sg = ("attr", ("attr", mm_s, "_factory"), "_group")
    dg = ("attr", ("attr", mm_d, "_factory"), "_group")
    DELAY = call(T.glob(INTERVAL), sg, dg, call(T.glob("int"), ts), call(T.glob("int"), wk))
    ZERO = call(T.glob(INTERVAL), sg, dg)
    dcalls = [e for e in s.of_kind("call") if e.term[1] == T.glob(INTERVAL)]
    full = [e for e in dcalls if _same_interval_call(e.term, DELAY)]
    D_term = full[0].term if full else None
    first_eff = min((e.idx for _, e in effects), default=10 ** 9)
    if not full:
        c.bad("delay", CONNECT_ONE, "connection delay", "the connection's delay is not connect_interval(src_group, dest_group, int(time_shifted), int(weak)) of the two entities' own groups", loc)
    else:
        c.check(full[0].idx < first_eff, "R10", CONNECT_ONE, "connect_interval (weak-scope rejection) precedes every effect",
                "an effect precedes connect_interval(), whose ScenarioError for weak connections outside a group would leave data-flow behind", ctx.loc(fi, full[0]))
        D = full[0].term
        uses = {
            "triggers": lambda e: e.term[2] and e.term[2][0] == ("tuple", (dest_sim, D)),
            "pulled_inputs": lambda e: T.contains(e.term, ("tuple", (src_sim, D))),
            "output_to_push": lambda e: e.term[2] and e.term[2][0][0] == "tuple" and e.term[2][0][1][:2] == (dest_sim, D),
        }
        for tb, e in effects:
            if tb in uses and e.kind == "call" and e.term[1][2] in ("append", "add"):
                c.check(bool(uses[tb](e)), "delay", CONNECT_ONE, f"{tb} entry carries the connection's delay and the right simulator",
                        f"entry {T.show(e.term[2])[:120]} does not pair the {'source' if tb == 'pulled_inputs' else 'destination'} simulator with the connection's delay", ctx.loc(fi, e))
            if tb == "successors" and e.kind == "store":
                okv = e.term[1] == ("idx", ("attr", src_sim, "successors"), dest_sim) and _same_interval_call(e.term[2], ZERO)
                c.check(okv, "delay", CONNECT_ONE, "successors[dest_sim] = group adaptation interval", f"stores {T.show(e.term)[:140]}", ctx.loc(fi, e))
            if tb == "input_delays" and e.kind == "store":
                okv = e.term[1] == ("idx", ("attr", dest_sim, "input_delays"), src_sim) and T.contains(e.term[2], D)
                c.check(okv, "delay", CONNECT_ONE, "input_delays[src_sim] of the destination", f"stores {T.show(e.term)[:140]}", ctx.loc(fi, e))
            if tb == "outputs" and e.kind == "store":
                full = unalias(e.term[1], s, fi)
                okshape = full[0] == "idx" and full[2] == src_attr and e.term[2] == init and full[1][0] == "call" and full[1][1][0] == "attr" and full[1][1][2] == "setdefault" \
                    and full[1][2][:1] == (("attr", src, "eid"),)
                c.check(okshape, "delay", CONNECT_ONE, "initial data is cached as outputs[-shift][src.eid][src_attr] (adding to the entity's entry)",
                        f"initial data is stored as {T.show(full)[:100]} := {T.show(e.term[2])[:40]}: other initial data of the same entity is overwritten / the layout differs from what get_output_for() returns", ctx.loc(fi, e))
                okv = T.contains(full, ("unop", "-", call(T.glob("int"), ts))) or T.contains(full, ("op", "-", T.const(0), call(T.glob("int"), ts)))
                c.check(okv, "delay", CONNECT_ONE, "initial data is cached at time -time_shifted", f"initial data is cached under {T.show(e.term[1])[:120]}: it is not what a consumer shifted by time_shifted reads at its first steps", ctx.loc(fi, e))
    _ports(ctx, c, s, fi, effects, src, dest, src_attr, das, src_sim, dest_sim, D_term, init)


def _key_path(t: Term) -> Optional[Tuple[Term, List[Term]]]:
    """`X.setdefault(k1, _).setdefault(k2, _)[k3]` -> (X, [k1, k2, k3]); X an attribute of something."""
    keys: List[Term] = []
    t = T.strip(t)
    while True:
        if t[0] == "idx":
            keys.append(T.strip(t[2]))
            t = T.strip(t[1])
        elif t[0] == "call" and t[1][0] == "attr" and t[1][2] in ("setdefault", "get") and 1 <= len(t[2]) <= 2:
            keys.append(T.strip(t[2][0]))
            t = T.strip(t[1][1])
        else:
            break
    if t[0] != "attr":
        return None
    return t, list(reversed(keys))


def _ports(ctx: Ctx, c: Collector, s, fi, effects, src, dest, src_attr, das, src_sim, dest_sim, D, init) -> None:
    """Writer / reader agreement of the data-flow tables: what get_outputs, get_input_data and notify_dependencies unpack is what
    connect_one files -- source port (src.eid, src_attr), destination port (dest.eid, dest_attr), the source's full id as the innermost
    key of the persistent inputs, the source attribute in the output request."""
    DA = T.var("§dest_attr")
    norm = {d: DA for d in das}
    SE, DE = ("attr", src, "eid"), ("attr", dest, "eid")
    SF, DF = ("attr", src, "full_id"), ("attr", dest, "full_id")
    SP, DP = ("tuple", (SE, src_attr)), ("tuple", (DE, DA))
    vocab = {SE, DE, SF, DF, src_attr, DA, src_sim, dest_sim}
    if D is not None:
        vocab.add(D)

    def known(x: Term) -> bool:
        x = T.strip(x)
        if x in vocab or x == T.NONE or x == init:
            return True
        return x[0] == "tuple" and all(known(y) for y in x[1])
    want = {
        "output_request": (src_sim, [SE], src_attr),
        "output_to_push": (src_sim, [SP], ("tuple", (dest_sim, D, DP))),
        "triggers": (src_sim, [SP], ("tuple", (dest_sim, D))),
        "pulled_inputs": (dest_sim, [("tuple", (src_sim, D))], ("tuple", (SP, DP))),
    }
    names = {SE: "src.eid", DE: "dest.eid", SF: "src.full_id", DF: "dest.full_id", src_attr: "src_attr", DA: "dest_attr", src_sim: "src_sim", dest_sim: "dest_sim", D: "delay"}

    def show(x: Term) -> str:
        x = T.strip(x)
        if x in names:
            return names[x]
        if x[0] == "tuple":
            return "(" + ", ".join(show(y) for y in x[1]) + ")"
        return T.show(x)[:30]
    pr: Dict[str, List[str]] = {}
    n = 0
    for tb, e in effects:
        full = T.replace(unalias(e.term, s, fi), norm)
        if tb in want and e.kind == "call" and e.term[1][2] in ("append", "add") and len(full[2]) == 1:
            kp = _key_path(full[1][1])
            arg = T.strip(full[2][0])
            if kp is None or D is None:
                continue
            owner, keys, val = want[tb]
            n += 1
            if kp[0] != ("attr", owner, tb) and kp[0][0] == "attr" and kp[0][1] in (src_sim, dest_sim):
                pr.setdefault(tb, []).append(f"the entry goes into the table of the {'destination' if kp[0][1] == dest_sim else 'source'} simulator")
            if all(known(k) for k in kp[1]) and kp[1] != keys:
                pr.setdefault(tb, []).append(f"filed under {', '.join(show(k) for k in kp[1])} instead of {', '.join(show(k) for k in keys)}")
            if known(arg) and arg != val:
                pr.setdefault(tb, []).append(f"the entry is {show(arg)} instead of {show(val)}")
        elif tb == "persistent_inputs":
            target = None
            if e.kind == "store":
                target = full[1]
            elif e.kind == "call" and e.term[1][2] == "setdefault":
                target = full
            if target is None:
                continue
            kp = _key_path(target)
            if kp is None:
                continue
            n += 1
            if kp[0] != ("attr", dest_sim, "persistent_inputs"):
                pr.setdefault(tb, []).append("the persistent input is filed with the source simulator")
            if len(kp[1]) == 3 and all(known(k) for k in kp[1]) and kp[1] != [DE, DA, SF]:
                pr.setdefault(tb, []).append(f"filed under {', '.join(show(k) for k in kp[1])} instead of dest.eid, dest_attr, src.full_id (what get_input_data merges into the step inputs)")
    for tb in ("output_request", "output_to_push", "triggers", "pulled_inputs", "persistent_inputs"):
        if tb in pr:
            c.bad("ports", CONNECT_ONE, f"{tb}: source port / destination port / full id as the readers unpack them", "; ".join(dict.fromkeys(pr[tb])), fi.loc)
    if not pr:
        c.ok("ports", CONNECT_ONE, "source port / destination port / full id as the readers unpack them", f"{n} entries", fi.loc)


def _same_interval_call(t: Term, want: Term) -> bool:
    """connect_interval call equal to `want`, positional or keyword arguments."""
    if t[0] != "call" or t[1] != want[1]:
        return False
    names = ["src_group", "dest_group", "time_shifted", "weak"]
    def norm(x):
        d = dict(zip(names, x[2]))
        d.update(dict(x[3]))
        for k in ("time_shifted", "weak"):
            if d.get(k) == T.const(0) or d.get(k) == T.const(False):
                d.pop(k)
        return d
    return norm(t) == norm(want)


def _row_desc(tb: str, a, ts, wk, TRIG, pulled: bool) -> str:
    bits = []
    if a[ts]:
        bits.append("time-shifted")
    if a[wk]:
        bits.append("weak")
    bits.append("trigger input" if a[TRIG] else "non-trigger input")
    bits.append("pulled" if pulled else "pushed")
    return "for a " + ", ".join(bits) + " connection"


def _arguments_only_read(ctx: Ctx, c: Collector) -> None:
    """connect() only reads what the caller hands it: the initial_data mapping belongs to the caller, who may use it
    for the next connect() call (or the same source attribute may be connected to several destinations in this one) --
    taking entries out of it makes initial data that was given disappear, and the connection that needs it is
    rejected."""
    from ..flow import _MUTATORS
    fi = ctx.func(CONNECT)
    s = ctx.summ(CONNECT)
    pr = []
    for p in fi.params[1:]:
        v = T.var(p)
        rebound = [b.idx for b in s.of_kind("bind") if b.term[1] == v]
        first = min(rebound) if rebound else None
        for e in s.events:
            if first is not None and e.idx > first:
                break
            if e.kind == "call" and e.term[1][0] == "attr" and e.term[1][1] == v and e.term[1][2] in (_MUTATORS - {"set", "cancel"}):
                pr.append(f"{p}.{e.term[1][2]}(...) (line {e.lineno}) changes the caller's {p}")
            elif e.kind in ("store", "del") and T.strip(e.term[1])[0] == "idx" and T.strip(e.term[1])[1] == v:
                pr.append(f"{p}[...] is {'assigned' if e.kind == 'store' else 'deleted'} (line {e.lineno}): the caller's {p} is changed")
    c.add("args", CONNECT, "connect() only reads its arguments", VIOLATED if pr else DISCHARGED, "; ".join(sorted(set(pr))), fi.loc)


def _connect(ctx: Ctx, c: Collector) -> None:
    _arguments_only_read(ctx, c)
    fi = ctx.func(CONNECT)
    s = ctx.summ(CONNECT)
    me = T.var(fi.params[0])
    calls = [e for e in s.of_kind("call") if e.term[1] == ("attr", me, "connect_one")]
    pr = []
    if not calls:
        pr.append("connect_one is never called")
    else:
        e = calls[0]
        kw = dict(e.term[3])
        for nm in ("time_shifted", "weak"):
            v = kw.get(nm)
            if v != T.var(nm):
                pr.append(f"the {nm} flag is not passed through to connect_one")
        if len(e.iters) != 1:
            pr.append("connect_one is not called once per attribute pair")
        else:
            # every distinct pair that was given is connected: the pairs are kept in a collection of pairs
            # (set / list / tuple); a mapping keyed by the source (or destination) attribute keeps only one
            # pair per key, so fanning one attribute out to several others silently drops pairs
            src_it = unalias(T.strip(e.iters[0][2]), s, fi)
            d = items_iter(("it", e.iters[0][1], src_it))
            tab = unalias(d[0], s, fi) if d is not None and d[3] == "items" else None
            if tab is not None and ((tab[0] == "call" and tab[1] == T.glob("dict")) or (tab[0] == "bag" and len(tab) > 2 and tab[2] == "dict")):
                pr.append("the attribute pairs are kept in a dict keyed by one of their attributes: of several pairs with the same key only the last one is validated and connected")
        if not any(r == "body" for _, r in e.tries):
            pr.append("errors of single pairs are not collected")
        # initial data is given per *source* attribute (documented: {'src_attr': value})
        idt = kw.get("initial_data")
        tgt = e.iters[0][1] if len(e.iters) == 1 else None
        if idt is not None and tgt is not None and tgt[0] == "tuple" and len(tgt[1]) == 2:
            idt = unalias(idt, s, fi)
            key = None
            if idt[0] == "call" and idt[1][0] == "attr" and idt[1][2] == "get" and idt[1][1] == T.var("initial_data") and idt[2]:
                key = idt[2][0]
            elif idt[0] == "idx" and idt[1] == T.var("initial_data"):
                key = idt[2]
            if key is not None and key == tgt[1][1] and key != tgt[1][0]:
                pr.append("the initial data of a pair is looked up under the destination attribute: it is documented (and filed by connect_one) per source attribute, so with "
                          "differently named attributes the data is lost and the connection rejected or left without a first value")
    raises = [e for e in s.of_kind("raise") if e.term[0] == "call" and e.term[1] == T.glob(SCENERR)]
    if not raises:
        pr.append("collected errors are not re-raised as ScenarioError")
    asyn = [e for e in s.of_kind("call") if e.term[1] == ("attr", me, "connect_async_requests")]
    if not asyn or guard_terms(asyn[0].guards) != [T.var("async_requests")]:
        pr.append("connect_async_requests is not called exactly under the async_requests flag")
    c.add("connect", CONNECT, "per-pair connect_one, errors re-raised as ScenarioError, async iff flag", VIOLATED if pr else DISCHARGED, "; ".join(pr), fi.loc)


def _async(ctx: Ctx, c: Collector) -> None:
    fi = ctx.func(ASYNC)
    s = ctx.summ(ASYNC)
    me, src, dest = (T.var(fi.params[i]) for i in range(3))
    src_sim = ("idx", ("attr", me, "sims"), ("attr", src, "_sid"))
    dest_sim = ("idx", ("attr", me, "sims"), ("attr", dest, "_sid"))
    Z = call(T.glob(INTERVAL), ("attr", src, "_group"), ("attr", dest, "_group"))
    want = {
        ("idx", ("attr", src_sim, "successors"), dest_sim): Z,
        ("idx", ("attr", src_sim, "successors_to_wait_for"), dest_sim): Z,
        ("idx", ("attr", dest_sim, "input_delays"), src_sim): Z,
    }
    got = {e.term[1]: e.term[2] for e in s.of_kind("store") if not e.guards}
    pr = []
    for k, v in want.items():
        if k not in got:
            pr.append(f"{T.show(k)} is not set")
        elif not _same_interval_call(got[k], v):
            pr.append(f"{T.show(k)} = {T.show(got[k])[:80]} instead of the zero interval between the two groups")
    c.add("async", ASYNC, "successors + successors_to_wait_for + input_delays", VIOLATED if pr else DISCHARGED, "; ".join(pr), fi.loc)


from ..report import VIOLATED, DISCHARGED  # noqa: E402
from ..terms import call  # noqa: E402


# --------------------------------------------------------------------------- who may write the connection tables
STRUCTURE_TABLES = {
    # table -> functions that may modify it (the constructor initialises all of them)
    "successors": (CONNECT_ONE, ASYNC),
    "successors_to_wait_for": (ASYNC,),
    "triggers": (CONNECT_ONE,),
    "pulled_inputs": (CONNECT_ONE,),
    "output_to_push": (CONNECT_ONE,),
    "output_request": (CONNECT_ONE,),
}
_TABLE_MUTATORS = {"pop", "popitem", "clear", "update", "setdefault", "remove", "discard", "add", "append", "extend", "insert", "sort", "reverse"}


def _writers(ctx: Ctx, c: Collector) -> None:
    """The tables that describe the connections of a simulator are written by connect() only: the wait
    sets, the trigger notifications and the data-flow are all read off them at run time, so removing or
    rewriting entries anywhere else (a pruning pass, an optimisation before run()) changes who waits for
    whom."""
    init = "mosaik.simmanager.SimRunner.__init__"
    n = 0
    for fi in analysis_units(ctx.prog):
        s = summarise(ctx.prog, fi)
        for e in s.events:
            tb = how = None
            if e.kind in ("store", "del"):
                tgt = unalias(e.term[1], s, fi)
                tb = _effect_table(tgt) if tgt[0] in ("idx", "attr") else None
                if tgt[0] == "attr" and tgt[2] in STRUCTURE_TABLES:
                    how = "replaced as a whole"
                elif tb is not None:
                    how = "an entry is deleted" if e.kind == "del" else "an entry is written"
            elif e.kind == "call" and e.term[1][0] == "attr" and e.term[1][2] in _TABLE_MUTATORS:
                recv = unalias(e.term[1][1], s, fi)
                tb = _effect_table(recv)
                how = f".{e.term[1][2]}()"
            if tb not in STRUCTURE_TABLES or how is None:
                continue
            n += 1
            if fi.qualname == init or fi.qualname in STRUCTURE_TABLES[tb]:
                continue
            c.bad("writers", fi.qualname, f"{tb}: {how}", f"the connection table `{tb}` is modified outside connect ({', '.join(x.rsplit('.', 1)[-1] for x in STRUCTURE_TABLES[tb])}): "
                  "wait sets, trigger notifications and data-flow are read off this table at run time", ctx.loc(fi, e))
    c.info["structure_table_writes"] = n
    if n < 6:
        raise AnalysisError(f"R20/writers: only {n} writes to the connection tables found (7 confirmed by hand)")
    if not any(o.oid == "R20/writers" for o in c.obs):
        c.ok("writers", "mosaik.*", "connection tables are written by connect only", f"{n} writes, all in connect_one / connect_async_requests / SimRunner.__init__", "")
