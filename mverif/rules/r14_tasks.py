"""R14 TASKS — every task has an owner that ends it on all exits; R15 SHUTDOWN — cleanup is
reached from every exit of run(), covers every simulator, is isolated, closes channel / reader /
server / loop."""
from __future__ import annotations

from typing import Dict, List, Optional, Tuple

from .base import *  # noqa: F401,F403
from ..cfg import ENTRY, RETURN

RUN = "mosaik.scheduler.run"
GOC = "mosaik.scheduler.gather_or_cancel"
SETTLED = "mosaik.scheduler.next_step_settled"
WRUN = "mosaik.scenario.World.run"
SHUTDOWN = "mosaik.scenario.World.shutdown"
RSTOP = "mosaik.proxies.RemoteProxy.stop"
READER = "mosaik.proxies.RemoteProxy._handle_remote_requests"
MIN_INSTANCES = 12


def run(ctx: Ctx) -> Collector:
    c = Collector("R14")
    sites = _create_task_sites(ctx, c)
    _group_waiters(ctx, c)
    _finally_exits(ctx, c)
    _settled_tasks(ctx, c)
    _reader(ctx, c)
    _world_run(ctx, c)
    _late_fields(ctx, c)
    _shutdown(ctx, c)
    _stops(ctx, c)
    _start_proc(ctx, c)
    _unawaited(ctx, c)
    _shared_class_state(ctx, c)
    return c


def _unawaited(ctx: Ctx, c: Collector) -> None:
    """A coroutine that is created must run: a call of a coroutine function of the package is awaited, handed to
    something (create_task, gather, a collection, a caller of a plain function) -- never returned un-awaited from a
    coroutine or dropped as a statement.  (`return self._out.stop()` in `async def stop` hands the caller's `await`
    a coroutine object: the wrapped simulator is never stopped.)"""
    import ast as _ast
    prog = ctx.prog
    by_name: Dict[str, List[FuncInfo]] = {}
    for f in prog.all_functions():
        if not isinstance(f.node, _ast.Lambda) and f.cls is not None:
            by_name.setdefault(f.name, []).append(f)
    async_names = {n for n, fs in by_name.items() if fs and all(f.is_async for f in fs)}
    from ..types import Typer
    typer = Typer(prog)
    n = 0
    bad = 0
    for fi in analysis_units(prog):
        if isinstance(fi.node, _ast.Lambda):
            continue
        s = summarise(prog, fi)
        for e in s.of_kind("call"):
            if e.awaited or e.term[0] != "call":
                continue
            f = e.term[1]
            is_co = f[0] == "glob" and f[1] in prog.functions and prog.functions[f[1]].is_async
            if f[0] == "attr" and f[2] in async_names:
                # decided by the receiver's class where the annotations give one; by the method name otherwise
                try:
                    rt = typer.unopt(typer.type_of(f[1], typer.event_env(fi, e)))
                except Exception:
                    rt = ("any",)
                if rt[0] == "cls":
                    m = prog.find_method(rt[1], f[2])
                    is_co = m is not None and m.is_async
                else:
                    is_co = rt[0] == "any"
            if not is_co:
                continue
            n += 1
            st = e.stmt
            dropped = isinstance(st, _ast.Expr) and st.value is e.node
            returned = isinstance(st, _ast.Return) and st.value is e.node and fi.is_async
            if dropped or returned:
                bad += 1
                c.bad("unawaited", fi.qualname, f"{T.show(e.term)[:60]}", ("the coroutine is returned un-awaited from a coroutine: whoever awaits this function gets a coroutine object, "
                      "and what it wraps never runs" if returned else "the coroutine is created and dropped: it never runs"), ctx.loc(fi, e))
    if not bad:
        c.ok("unawaited", "mosaik.*", "coroutines of the package are awaited or handed on", f"{n} un-awaited creations, all handed to a task / waiter / caller", "")


def _shared_class_state(ctx: Ctx, c: Collector) -> None:
    """One simulator's proxy, runner or buffer shares nothing mutable with another's: a synchronisation object or a
    container created in a class body exists once for all instances (a lock taken by one in-process simulator while
    its generator is suspended in a request to another one blocks that other one for ever)."""
    import ast as _ast
    n = 0
    for ci in ctx.prog.classes.values():
        for st in ci.node.body:
            tgt, val = None, None
            if isinstance(st, _ast.Assign) and len(st.targets) == 1 and isinstance(st.targets[0], _ast.Name):
                tgt, val = st.targets[0].id, st.value
            elif isinstance(st, _ast.AnnAssign) and isinstance(st.target, _ast.Name) and st.value is not None:
                tgt, val = st.target.id, st.value
            if tgt is None or tgt.startswith("__"):
                continue
            shared = None
            if isinstance(val, (_ast.List, _ast.Dict, _ast.Set)):
                shared = "container"
            elif isinstance(val, _ast.Call):
                d = ast_dotted(val.func)
                if d is not None and d.rsplit(".", 1)[-1] in ("Lock", "Event", "Condition", "Semaphore", "BoundedSemaphore", "Queue", "Future", "dict", "list", "set", "defaultdict", "deque", "count"):
                    shared = d
            if shared is None:
                continue
            n += 1
            # used through an instance in a way that changes it (or takes it)?
            used = []
            for m in ci.methods.values():
                if isinstance(m.node, _ast.Lambda) or not m.params:
                    continue
                me = m.params[0]
                for nd in _ast.walk(m.node):
                    if isinstance(nd, _ast.Attribute) and nd.attr == tgt and isinstance(nd.value, _ast.Name) and nd.value.id == me and isinstance(nd.ctx, _ast.Load):
                        used.append(m.name)
            rebinds = any(isinstance(nd, _ast.Attribute) and nd.attr == tgt and isinstance(nd.ctx, _ast.Store) for m in ci.methods.values() if m.name in ("__init__", "__post_init__") for nd in _ast.walk(m.node))
            if used and not rebinds:
                c.bad("shared", ci.qualname, f"{tgt} = {shared}", f"created once in the class body and used through self in {sorted(set(used))}: every instance shares it", f"{ci.module.relpath}:{st.lineno}")
    c.ok("shared", "mosaik.*", "no mutable object is created in a class body and used through instances", f"{n} class-level objects looked at", "")


def ast_dotted(node) -> Optional[str]:
    import ast as _ast
    if isinstance(node, _ast.Name):
        return node.id
    if isinstance(node, _ast.Attribute):
        b = ast_dotted(node.value)
        return None if b is None else b + "." + node.attr
    return None


def _is_create_task(t: Term) -> bool:
    return t[0] == "call" and ((t[1][0] == "glob" and t[1][1] in ("asyncio.create_task", "asyncio.ensure_future")) or (t[1][0] == "attr" and t[1][2] == "create_task"))


def _create_task_sites(ctx: Ctx, c: Collector) -> int:
    """Inventory: every create_task site must be one of the owned groups analysed below."""
    owned = {RUN, SETTLED, "mosaik.proxies.RemoteProxy.__init__", "mosaik.scenario.World.get_data.request_data"}
    n = 0
    for fi in analysis_units(ctx.prog):
        s = summarise(ctx.prog, fi)
        for e in s.of_kind("call"):
            if _is_create_task(e.term):
                n += 1
                if fi.qualname not in owned:
                    c.bad("inventory", fi.qualname, f"create_task({T.show(e.term[2])[:50]})", "a task is created in a function whose task ownership has not been analysed: "
                          "nothing shows that it is awaited or cancelled on every exit", ctx.loc(fi, e))
    c.ok("inventory", "mosaik.*", "create_task sites", f"{n} sites, all in owned scopes", "")
    c.info["create_task_sites"] = n
    if n < 5:
        raise AnalysisError(f"R14 found only {n} create_task sites (6 confirmed by hand)")
    return n


def _group_waiters(ctx: Ctx, c: Collector) -> None:
    # scheduler.run: both task groups are handed, complete, to a waiter that cancels on failure
    fi = ctx.func(RUN)
    s = ctx.summ(RUN)
    awaits = [e for e in s.of_kind("await") if e.term[0] == "call" and e.term[1][0] == "glob"]
    created = [e for e in s.of_kind("call") if _is_create_task(e.term)]
    groups = []
    for e in awaits:
        arg = e.term[2][0] if e.term[2] else None
        if arg is not None and arg[0] == "star":
            arg = arg[1]
        if arg is not None and arg[0] == "bag" and arg[1] and all(_is_create_task(x[1]) for x in arg[1]):
            groups.append((e, arg))
    pr = []
    if len(groups) != 2:
        pr.append(f"{len(groups)} awaited task group(s) found (setup_done requests and simulator processes expected)")
    covered = set()
    for e, arg in groups:
        for x in arg[1]:
            covered.add(x[1])
        waiter = e.term[1][1]
        if waiter == "asyncio.gather":
            if not any(r in ("body",) for _, r in e.tries):
                pr.append("a task group is awaited with a bare asyncio.gather: when one task fails the others stay pending (gather does not cancel them) and are destroyed with the loop")
        elif waiter != GOC:
            pr.append(f"a task group is awaited through {waiter}, which is not the analysed cancel-on-failure waiter")
    for e in created:
        if e.term not in covered:
            pr.append(f"task {T.show(e.term)[:70]} is not part of an awaited group")
    c.add("groups", RUN, "setup_done tasks and simulator processes are awaited through a cancelling waiter", VIOLATED if pr else DISCHARGED, "; ".join(pr), fi.loc)
    # the waiter itself
    if GOC in ctx.prog.functions:
        gfi = ctx.func(GOC)
        gs = ctx.summ(GOC)
        tasks = T.var(gfi.params[0])
        pr = []
        main = [e for e in gs.of_kind("await") if any(r == "body" for _, r in e.tries)]
        if not main:
            pr.append("the tasks are not awaited inside a try")
        else:
            m = main[0]
            conc = m.term[0] == "call" and m.term[1] == T.glob("asyncio.gather") and m.term[2] == (("star", tasks),) and not dict(m.term[3]).get("return_exceptions")
            via_wait = m.term[0] == "call" and m.term[1] == T.glob("asyncio.wait") and m.term[2][:1] == (tasks,) and "FIRST_EXCEPTION" in T.show(m.term)
            conc = conc or via_wait
            if via_wait:
                # asyncio.wait does not raise: the failed task's exception has to be re-raised from the *finished* tasks
                res = [e for e in gs.of_kind("call") if e.term[1][0] == "attr" and e.term[1][2] in ("result", "exception")]
                if not res:
                    pr.append("asyncio.wait() does not raise the exception of a failed task and nothing re-raises it: a failed simulator goes unnoticed")
                elif any(len(e.iters) == 1 and T.strip(e.iters[0][2]) == tasks for e in res):
                    pr.append("the exception is re-raised by asking every task of the group for its result after the others were cancelled: a cancelled task that comes earlier in the list "
                              "raises CancelledError first, so the error of the failed simulator (e.g. the loop-guard SimulationError) is replaced by a bare CancelledError")
            if not conc:
                if m.iters:
                    pr.append("the tasks are awaited one after the other: the failure of a later task is only noticed when all earlier tasks have finished "
                              "(a run with a failed simulator hangs or keeps stepping the others)")
                else:
                    pr.append(f"tasks are awaited with {T.show(m.term)[:80]}; a failure must surface as soon as any task fails (asyncio.gather(*tasks))")
        fin = [e for e in gs.events if any(r == "finally" for _, r in e.tries)]
        cancels = [e for e in fin if e.kind == "call" and e.term[1][0] == "attr" and e.term[1][2] == "cancel" and len(e.iters) == 1 and T.strip(e.iters[0][2]) == tasks
                   # (cancelling a finished task is a no-op: `if not task.done()` in front of the cancel changes nothing)
                   and all(x == ("not", call(("attr", e.term[1][1], "done"))) for x in guard_terms(e.guards))]
        if not cancels:
            pr.append("the remaining tasks are not cancelled in a finally block (failure and cancellation exits)")
        drain = [e for e in fin if e.kind == "await" and e.term[0] == "call" and e.term[1] == T.glob("asyncio.gather") and e.term[2] == (("star", tasks),)
                 and dict(e.term[3]).get("return_exceptions") == T.const(True)]
        if not drain:
            pr.append("cancelled tasks are not awaited (they would still be pending when the loop closes)")
        elif cancels and drain[0].idx < cancels[0].idx:
            pr.append("tasks are drained before they are cancelled")
        c.add("waiter", GOC, "gather concurrently; finally: cancel all, await all", VIOLATED if pr else DISCHARGED, "; ".join(pr), gfi.loc)


def _settled_tasks(ctx: Ctx, c: Collector) -> None:
    fi = ctx.func(SETTLED)
    s = ctx.summ(SETTLED)
    created = [e for e in s.of_kind("call") if _is_create_task(e.term)]
    waits = [e for e in s.of_kind("await") if e.term[0] == "call" and e.term[1] == T.glob("asyncio.wait")]
    pr = []
    if not waits:
        pr.append("no asyncio.wait")
    else:
        w = waits[0]
        arg = w.term[2][0] if w.term[2] else None
        if arg is None or arg[0] != "bag" or {x[1] for x in arg[1]} != {e.term for e in created}:
            pr.append("not all created waiter tasks are handed to asyncio.wait")
        fin = [e for e in s.events if e.kind == "call" and e.term[1][0] == "attr" and e.term[1][2] == "cancel" and any(r == "finally" for _, r in e.tries)]
        in_try = any(r == "body" for _, r in w.tries)
        # cancelled in the finally block: by a loop over the collection handed to asyncio.wait, or one by one
        # (a loop over a literal collection is read as one cancel per element)
        by_loop = bool(fin) and len(fin[0].iters) >= 1 and arg is not None and T.strip(fin[0].iters[-1][2]) == arg
        one_by_one = bool(created) and {T.strip(e.term[1][1]) for e in fin} >= {T.strip(e.term) for e in created}
        ok = in_try and fin and (by_loop or one_by_one)
        if not ok:
            plain = [e for e in s.events if e.kind == "call" and e.term[1][0] == "attr" and e.term[1][2] == "cancel"]
            if plain and not in_try:
                pr.append("the waiter tasks are only cancelled on the normal path: when the simulator process is cancelled (another simulator failed) they stay pending")
            else:
                pr.append("the waiter tasks are not all cancelled in a finally block around asyncio.wait (asyncio.wait never cancels its arguments)")
    c.add("settled", SETTLED, "waiter tasks are cancelled on every exit", VIOLATED if pr else DISCHARGED, "; ".join(pr), fi.loc)


def _reader(ctx: Ctx, c: Collector) -> None:
    # self-await: the coroutine running as self._reader_task reaches stop(), which awaits that task
    fi = ctx.func(RSTOP)
    s = ctx.summ(RSTOP)
    me = T.var(fi.params[0])
    rt = ("attr", me, "_reader_task")
    rfi = ctx.func(READER)
    rs = ctx.summ(READER)
    calls_stop = any(e.term[1] == ("attr", T.var(rfi.params[0]), "stop") for e in rs.of_kind("call"))
    aw = [e for e in s.of_kind("await") if e.term == rt]
    pr = []
    if not aw:
        pr.append("stop() does not wait for the reader task to end")
    else:
        guard = ("cmp", "isnot", rt, call(T.glob("asyncio.current_task")))
        if calls_stop and guard not in guard_terms(aw[0].guards):
            pr.append("the reader task calls stop() on errors and stop() awaits the reader task unconditionally: 'Task cannot await on itself', the error is never retrieved")
        extra = [x for x in guard_terms(aw[0].guards) if x != guard]
        if extra:
            pr.append("the reader task is only conditionally awaited: " + ", ".join(T.show(x)[:50] for x in extra))
        # the reader only ends when the request stream ends, and it is our close() that ends it for a simulator that
        # is busy or does not hang up by itself: close first, then wait
        closes = [e for e in s.of_kind("await") if e.term == call(("attr", ("attr", me, "_channel"), "close"))]
        if closes and not any(e.idx < aw[0].idx for e in closes):
            pr.append("the reader task is awaited before the channel is closed: it only ends with the request stream, so stop() blocks for as long as the "
                      "simulator keeps its end open (a simulator in the middle of a long step holds up the shutdown of all the others)")
    c.add("reader", RSTOP, "reader task awaited by stop() unless stop() runs inside it", VIOLATED if pr else DISCHARGED, "; ".join(pr), fi.loc)
    # the reader handles every exception class and either ends or stops
    pr = []
    handlers = [e for e in rs.of_kind("test") if e.term[0] == "except" and len(e.tries) == 1]
    names = [T.show(e.term[1]) for e in handlers]
    if not any(n.endswith("Exception") and not n.endswith("RemoteException") for n in names):
        pr.append("not every exception in the request loop is caught (the reader task would die with an unretrieved exception)")
    for h in handlers:
        if "EndOfRequests" in T.show(h.term[1]):
            continue
        body = [e for e in rs.events if e.tries == h.tries and e.idx > h.idx and (not handlers or all(not (h.idx < h2.idx <= e.idx) for h2 in handlers))]
        if not any(e.kind == "call" and e.term[1] == ("attr", T.var(rfi.params[0]), "stop") for e in body):
            pr.append(f"handler {T.show(h.term[1])[:40]} does not stop the proxy")
    c.add("reader", READER, "request loop catches every exception and stops the proxy", VIOLATED if pr else DISCHARGED, "; ".join(pr), rfi.loc)


def _world_run(ctx: Ctx, c: Collector) -> None:
    fi = ctx.func(WRUN)
    s = ctx.summ(WRUN)
    me = T.var(fi.params[0])
    sched = [e for e in s.of_kind("call") if e.term[1] == T.glob("mosaik.scheduler.run")]
    shut = [e for e in s.of_kind("call") if e.term[1] == ("attr", me, "shutdown")]
    pr = []
    if not sched or not shut:
        pr.append("scheduler.run or shutdown() is not called")
    else:
        body = [t for t, r in sched[0].tries if r == "body"]
        fin = [t for t, r in shut[0].tries if r == "finally"]
        if not body or not fin or body[-1] not in fin:
            pr.append("shutdown() is not in the finally block of the try around scheduler.run: after a failing run the simulators are not stopped")
        elif shut[0].guards != sched[0].guards:
            pr.append("shutdown() in the finally block is conditional")
    c.add("R15", WRUN, "run: try scheduler.run finally shutdown()", VIOLATED if pr else DISCHARGED, "; ".join(pr), fi.loc)


def _is_optional_ann(ann) -> bool:
    import ast as _ast
    if ann is None:
        return True
    if isinstance(ann, _ast.Constant):
        if ann.value is None:
            return True
        if isinstance(ann.value, str):
            try:
                return _is_optional_ann(_ast.parse(ann.value, mode="eval").body)
            except SyntaxError:
                return True
    if isinstance(ann, _ast.Subscript):
        head = _ast.unparse(ann.value).rsplit(".", 1)[-1]
        if head == "Optional":
            return True
        if head == "Union":
            el = ann.slice.elts if isinstance(ann.slice, _ast.Tuple) else [ann.slice]
            return any(_is_optional_ann(x) and isinstance(x, _ast.Constant) for x in el)
        return False
    if isinstance(ann, _ast.BinOp) and isinstance(ann.op, _ast.BitOr):
        return any(isinstance(x, _ast.Constant) and x.value is None for x in (ann.left, ann.right)) or _is_optional_ann(ann.left) and isinstance(ann.left, _ast.BinOp)
    return False


def _late_init_fields(ctx: Ctx, cq: str) -> Dict[str, str]:
    """fields of class *cq* that need not hold a usable value after __init__: declared in the class body but not assigned by
    __init__, or assigned the placeholder None although the declared type is not optional"""
    import ast as _ast
    ci = ctx.prog.classes.get(cq)
    if ci is None or "__init__" not in ci.methods:
        return {}
    init = ci.methods["__init__"]
    me = init.params[0] if init.params else "self"
    assigned: Dict[str, _ast.AST] = {}
    for node in _ast.walk(init.node):
        tgts = []
        if isinstance(node, _ast.Assign):
            tgts = [(t, node.value) for t in node.targets]
        elif isinstance(node, _ast.AnnAssign) and node.value is not None:
            tgts = [(node.target, node.value)]
        for t, v in tgts:
            if isinstance(t, _ast.Attribute) and isinstance(t.value, _ast.Name) and t.value.id == me:
                assigned.setdefault(t.attr, v)
    out: Dict[str, str] = {}
    for f, ann in ci.fields.items():
        optional = _is_optional_ann(ann)
        if f not in assigned:
            out[f] = "not assigned by __init__"
        elif isinstance(assigned[f], _ast.Constant) and assigned[f].value is None and not optional:
            out[f] = "placeholder None in __init__"
    return out


def _late_fields(ctx: Ctx, c: Collector) -> None:
    """The cleanup of World.run (handlers and finally block, shutdown(), SimRunner.stop()) also runs when scheduler.run failed
    early -- a fault in setup_done comes before the runner tasks exist.  A field that only gets its value inside the guarded
    region (SimRunner.task, rt_start, output_time, data) may still be the placeholder there: dereferencing it un-guarded raises
    in the cleanup, masks the simulator's error and skips shutdown()."""
    fi = ctx.func(WRUN)
    s = ctx.summ(WRUN)
    sched = [e for e in s.of_kind("call") if e.term[1] == T.glob("mosaik.scheduler.run")]
    if not sched:
        return  # reported by _world_run
    body = [t for t, r in sched[0].tries if r == "body"]
    if not body:
        return
    tid = body[-1]
    late: Dict[str, str] = {}
    for cq in ("mosaik.simmanager.SimRunner", "mosaik.scenario.World"):
        late.update(_late_init_fields(ctx, cq))
    # fields that World.run itself assigns, un-conditionally, before it enters the try are set whenever the cleanup runs
    pre = {e.term[1][2] for e in s.of_kind("store") if e.idx < sched[0].idx and not any(t == tid for t, _ in e.tries)
           and isinstance(e.term[1], tuple) and e.term[1][0] == "attr" and e.guards == sched[0].guards[:len(e.guards)]}
    risky = {f: why for f, why in late.items() if f not in pre}
    c.info["late_fields"] = sorted(risky)
    region: List[Tuple[str, object]] = []
    for e in s.events:
        if any(t == tid and r in ("handler", "finally") for t, r in e.tries):
            region.append((WRUN, e))
    for qn in (SHUTDOWN, "mosaik.simmanager.SimRunner.stop"):
        for e in ctx.summ(qn).events:
            region.append((qn, e))
    # short-circuit guards inside one expression: `x.f is not None and x.f.done()`, `x.f.g() if x.f else None`
    import ast as _ast
    inner_guard: Dict[int, List[str]] = {}
    for qn in {q for q, _ in region}:
        for n in _ast.walk(ctx.func(qn).node):
            if isinstance(n, _ast.BoolOp):
                for i, v in enumerate(n.values[1:], 1):
                    texts = [_ast.unparse(u) for u in n.values[:i]]
                    for m in _ast.walk(v):
                        inner_guard.setdefault(id(m), []).extend(texts)
            elif isinstance(n, _ast.IfExp):
                for br in (n.body, n.orelse):
                    for m in _ast.walk(br):
                        inner_guard.setdefault(id(m), []).append(_ast.unparse(n.test))
    hits = []
    for qn, e in region:
        for x in T.subterms((e.term, e.iters)):
            if not (isinstance(x, tuple) and len(x) == 3 and x[0] == "attr" and isinstance(x[1], tuple) and len(x[1]) == 3 and x[1][0] == "attr" and x[1][2] in risky):
                continue
            path = x[1]
            if any(T.contains(g, path) for g in e.guards):
                continue
            if any(T.show(path) in txt for txt in inner_guard.get(id(e.node), [])):
                continue
            if e.kind == "test" and isinstance(e.node, (_ast.BoolOp, _ast.IfExp)):
                # the dereference sits inside a compound condition: it is reported (or excused) at the call / attribute event of its own
                if any(T.show(path) in _ast.unparse(u) for u in (e.node.values[:-1] if isinstance(e.node, _ast.BoolOp) else [e.node.test])):
                    continue
            hits.append((qn, e, path))
    seen = set()
    for qn, e, path in hits:
        k = (qn, path[2])
        if k in seen:
            continue
        seen.add(k)
        c.bad("R15", qn, f"late field {path[2]} in cleanup", f"{T.show(path)} ({risky[path[2]]}; it gets its value inside the region that the cleanup guards) is dereferenced "
              "without a test in code that also runs after an early failure of scheduler.run (e.g. a fault in setup_done, before the runner tasks exist): "
              "the cleanup raises, the simulator's error is masked and shutdown() is skipped", ctx.loc(ctx.func(qn), e))
    if not hits:
        c.ok("R15", WRUN, "cleanup does not dereference late-initialised fields", f"{len(region)} events of the cleanup region scanned; late fields: {', '.join(sorted(risky))}", fi.loc)


def _shutdown(ctx: Ctx, c: Collector) -> None:
    fi = ctx.func(SHUTDOWN)
    s = ctx.summ(SHUTDOWN)
    me = T.var(fi.params[0])
    loop = ("attr", me, "loop")
    allsims = call(("attr", ("attr", me, "sims"), "values"))
    open_g = ("not", call(("attr", loop, "is_closed")))
    stops = [e for e in s.of_kind("call") if e.term[1][0] == "attr" and e.term[1][2] == "stop" and e.term[1][1] != loop]
    closes = [e for e in s.of_kind("call") if e.term == call(("attr", loop, "close"))]
    pr = []
    if not stops:
        pr.append("no simulator is stopped")
    else:
        st = stops[0]
        d = items_iter(st.iters[0]) if len(st.iters) == 1 else None
        every = d is not None and d[0] == ("attr", me, "sims") and d[2] is not None and st.term[1][1] == d[2] and d[3] in ("values", "items")
        if not every:
            pr.append("stop() is not called for every simulator of self.sims")
        if guard_terms(st.guards) != [open_g]:
            pr.append("stopping is not guarded by `not self.loop.is_closed()` only (must run at most once, and always when the loop is open)")
        # isolation: the stop of one simulator runs inside a try whose handler catches Exception and does not leave the loop
        rc = [e for e in s.of_kind("call") if e.term[1] == ("attr", loop, "run_until_complete") and T.contains(e.term, st.term)]
        tgt = rc[0] if rc else st
        body = [t for t, r in tgt.tries if r == "body"]
        hs = [e for e in s.of_kind("test") if e.term[0] == "except" and e.tries and e.tries[-1][1] == "handler" and body and e.tries[-1][0] == body[-1] and e.iters == tgt.iters]
        iso = bool(hs) and any(T.show(h.term[1]).endswith(("Exception", "BaseException")) for h in hs)
        if iso:
            for h in hs:
                leaving = [e for e in s.events if e.tries == h.tries and e.idx > h.idx and e.kind in ("raise", "return") and e.iters == h.iters]
                if leaving:
                    iso = False
        if iso and tgt.iters:
            # ... and nothing else ends the loop early either (a `break` after the first failure)
            import ast as _ast
            for node in _ast.walk(fi.node):
                if isinstance(node, (_ast.For, _ast.AsyncFor)) and any(n is tgt.node or n is st.node for n in _ast.walk(node)):
                    inner_loops = [n for n in _ast.walk(node) if isinstance(n, (_ast.For, _ast.AsyncFor, _ast.While)) and n is not node]
                    for n in _ast.walk(node):
                        if isinstance(n, _ast.Break) and not any(n in list(_ast.walk(il)) for il in inner_loops):
                            iso = False
                    break
        if not iso:
            pr.append("a failing stop()/finalize() of one simulator ends the loop over the simulators: the remaining ones are never stopped and the event loop stays open")
        # ... and the handler itself must not fail: a log call that formats a message built from the error's text (loguru applies
        # str.format to the message as soon as it is given format arguments) raises KeyError / IndexError for a text with braces
        import ast as _ast2
        for n in _ast2.walk(fi.node):
            if not isinstance(n, _ast2.ExceptHandler):
                continue
            for call_ in _ast2.walk(n):
                if isinstance(call_, _ast2.Call) and isinstance(call_.func, _ast2.Attribute) and isinstance(call_.func.value, _ast2.Name) and call_.func.value.id in ("logger", "log", "logging") \
                        and call_.func.attr in ("debug", "info", "warning", "error", "exception", "critical", "trace", "success") and call_.args \
                        and (len(call_.args) > 1 or call_.keywords) and call_.func.value.id == "logger":
                    msg = call_.args[0]
                    runtime_text = any(isinstance(x, (_ast2.FormattedValue, _ast2.Name, _ast2.Call)) for x in _ast2.walk(msg))
                    if runtime_text:
                        pr.append(f"the handler logs a message that contains run-time text ({_ast2.unparse(msg)[:50]}...) together with format arguments (line {call_.lineno}): loguru formats it with str.format, "
                                  "so an error text with braces raises inside the handler, the stop loop ends and the remaining simulators are never stopped")
    if not closes:
        pr.append("the event loop is never closed")
    elif stops:
        cl = closes[0]
        if cl.iters or guard_terms(cl.guards) != [open_g] or cl.idx < stops[0].idx or cl.tries:
            pr.append("loop.close() is not reached unconditionally after all simulators have been stopped")
        late = [e for e in s.of_kind("raise") if e.idx < cl.idx and not e.iters]
        if late:
            pr.append("an error is re-raised before the loop is closed")
        # pending callbacks (cancelled tasks finishing) get one loop iteration before close()
        stop = [e for e in s.of_kind("call") if e.term == call(("attr", loop, "stop"))]
        forever = [e for e in s.of_kind("call") if e.term == call(("attr", loop, "run_forever"))]
        if not stop or not forever or not (stops[0].idx < stop[0].idx < forever[0].idx < cl.idx) or stop[0].guards != cl.guards or forever[0].guards != cl.guards:
            pr.append("the loop is closed without loop.stop(); loop.run_forever() first: callbacks of tasks that were just cancelled never run (pending work is destroyed with the loop)")
        # errors of single simulators are reported after the cleanup, not swallowed
        hs2 = [e for e in s.events if e.tries and e.tries[-1][1] == "handler" and e.kind == "call" and e.term[1][0] == "attr" and e.term[1][2] == "append"]
        rr = [e for e in s.of_kind("raise") if e.idx > cl.idx]
        if hs2 and (not rr or not rr[0].guards or rr[0].guards[:-1] != cl.guards):
            pr.append("errors collected while stopping the simulators are not re-raised after the cleanup")
    c.add("R15", SHUTDOWN, "stop every simulator (isolated), then close the loop, once", VIOLATED if pr else DISCHARGED, "; ".join(pr), fi.loc)


def _stops(ctx: Ctx, c: Collector) -> None:
    # RemoteProxy.stop: send "stop" with timeout, tolerate timeout / closed connection, close the channel on every path
    fi = ctx.func(RSTOP)
    s = ctx.summ(RSTOP)
    g = ctx.cfg(RSTOP)
    me = T.var(fi.params[0])
    ch = ("attr", me, "_channel")
    pr = []
    sends = [e for e in s.of_kind("await") if e.term[0] == "call" and e.term[1] == T.glob("asyncio.wait_for") and T.contains(e.term, T.const("stop"))]
    if not sends:
        pr.append("the stop request is not sent with a timeout (a simulator that does not answer would block shutdown)")
    else:
        hs = [e for e in s.of_kind("test") if e.term[0] == "except" and e.idx > sends[0].idx]
        if not hs or "TimeoutError" not in T.show(hs[0].term):
            pr.append("a timeout of the stop request is not tolerated")
        elif "IncompleteReadError" not in T.show(hs[0].term) and "Exception" not in T.show(hs[0].term):
            pr.append("a connection that is already closed is not tolerated when sending stop")
    closes = [e for e in s.of_kind("await") if e.term == call(("attr", ch, "close"))]
    if not closes:
        pr.append("the channel is never closed")
    else:
        k = g.key(closes[0].stmt)
        if closes[0].guards or not g.postdominates(k, ENTRY):
            pr.append("some path through stop() returns without closing the channel (mosaik's end of the socket to the simulator is leaked)")
    c.add("R15", RSTOP, "stop request with timeout, tolerated failures, channel closed on every path", VIOLATED if pr else DISCHARGED, "; ".join(pr), fi.loc)
    # forwarding of stop through the wrappers
    for qn, want, label in (("mosaik.proxies.LocalProxy.stop", lambda me: call(("attr", ("attr", me, "sim"), "finalize")), "LocalProxy.stop -> sim.finalize()"),
                            ("mosaik.simmanager.SimRunner.stop", lambda me: call(("attr", ("attr", me, "_proxy"), "stop")), "SimRunner.stop -> proxy.stop()"),
                            ("mosaik.adapters.Adapter.stop", lambda me: call(("attr", ("attr", me, "_out"), "stop")), "Adapter.stop -> inner stop()")):
        f2 = ctx.func(qn)
        s2 = ctx.summ(qn)
        me2 = T.var(f2.params[0])
        ok = any(e.term == want(me2) and not e.guards for e in s2.of_kind("call"))
        # overriding stop() in an adapter subclass must keep forwarding
        c.check(ok, "R15", qn, label, "stop is not forwarded unconditionally", f2.loc)
    for ci in ctx.prog.subclasses("mosaik.adapters.Adapter"):
        if ci.qualname != "mosaik.adapters.Adapter" and "stop" in ci.methods:
            m = ci.methods["stop"]
            s3 = summarise(ctx.prog, m)
            ok = any(e.term[1][0] == "attr" and e.term[1][2] == "stop" and not e.guards for e in s3.of_kind("call"))
            c.check(ok, "R15", m.qualname, "adapter override forwards stop", "an adapter overrides stop() without forwarding it", m.loc)


def _start_proc(ctx: Ctx, c: Collector) -> None:
    qn = "mosaik.simmanager.start_proc"
    fi = ctx.func(qn)
    s = ctx.summ(qn)
    closes = [e for e in s.of_kind("call") if e.term[1][0] == "attr" and e.term[1][2] == "close" and any(r == "finally" for _, r in e.tries)]
    c.check(bool(closes), "R15", qn, "server socket closed in finally", "the listening socket for the simulator's connection is not closed on every exit", fi.loc)


from ..report import VIOLATED, DISCHARGED  # noqa: E402
from ..terms import call  # noqa: E402


def _finally_exits(ctx: Ctx, c: Collector) -> None:
    """A `return`, `break` or `continue` in a `finally` block discards the exception that is propagating
    through it -- a simulator's error, a lost connection, the CancelledError sent to a runner when another
    simulator failed: the run goes on as if nothing had happened.  Whole-package sweep over the syntax."""
    import ast as _ast
    n = 0
    hits = []
    for fi in ctx.prog.all_functions():
        if isinstance(fi.node, _ast.Lambda):
            continue
        for node in _ast.walk(fi.node):
            if not isinstance(node, _ast.Try) or not node.finalbody:
                continue
            if ctx.prog.func_of_node.get(id(node)) not in (None, fi):
                continue
            n += 1
            todo = list(node.finalbody)
            while todo:
                x = todo.pop()
                if isinstance(x, (_ast.FunctionDef, _ast.AsyncFunctionDef, _ast.Lambda, _ast.ClassDef)):
                    continue
                if isinstance(x, _ast.Return):
                    hits.append((fi, x, "return"))
                elif isinstance(x, (_ast.Break, _ast.Continue)):
                    hits.append((fi, x, type(x).__name__.lower()))
                if isinstance(x, (_ast.For, _ast.AsyncFor, _ast.While)):
                    # break / continue inside a loop of the finally block stay inside it; a return does not
                    todo.extend(y for y in _ast.walk(x) if isinstance(y, _ast.Return))
                    continue
                todo.extend(_ast.iter_child_nodes(x))
    c.info["finally_blocks"] = n
    seen = set()
    for fi, x, what in hits:
        if (fi.qualname, what) in seen:
            continue
        seen.add((fi.qualname, what))
        c.bad("finally", fi.qualname, f"{what} in a finally block", f"`{what}` at line {x.lineno} inside a finally block discards the exception propagating through it "
              "(the error of a failed simulator, or the cancellation of this runner when another simulator failed): the run continues and can report success", f"{fi.module.relpath}:{x.lineno}")
    if not hits:
        c.ok("finally", "mosaik.*", "no return / break / continue in a finally block", f"{n} finally blocks scanned", "")
