"""R1 WAITSET — the wait set registered before a step, and the Progress wake-up protocol.

Anchors: scheduler.wait_for_dependencies, progress.Progress.{has_passed,has_reached,
_add_trigger,_triggered_time,set}.
"""
from __future__ import annotations

from typing import Dict, List, Optional, Tuple

from .base import *  # noqa: F401,F403
from .. import boolfn
from ..cfg import RETURN, ENTRY

WAIT = "mosaik.scheduler.wait_for_dependencies"
PROGRESS = "mosaik.progress.Progress"

MIN_INSTANCES = 9


def run(ctx: Ctx) -> Collector:
    c = Collector("R1")
    _wait_loops(ctx, c)
    _progress(ctx, c)
    _futures_writers(ctx, c)
    return c


# --------------------------------------------------------------------------- wait loops
def _wait_loops(ctx: Ctx, c: Collector) -> None:
    fi = ctx.func(WAIT)
    s = ctx.summ(WAIT)
    g = ctx.cfg(WAIT)
    sim = T.var(param_by_annotation(fi, "SimRunner", 0))
    lazy = T.var(param_by_annotation(fi, "bool", 1))
    T0 = ("idx", ("attr", sim, "next_steps"), T.const(0))
    elems = awaited_elems(s)
    awaits = s.of_kind("await")
    first_await = min((e.idx for e in awaits), default=None)
    # "there is something to wait for" (`if not waits: return`) is no condition on the waits
    ctxs = [(x[1], x[2]) for x in elems]
    vac = {gt for x in elems for gt in guard_terms(x[1]) if vacuous_nonempty(gt, ctxs)}
    if vac:
        elems = [(t_, tuple(g_ for g_ in gs_ if T.guard_term(g_) not in vac), i_, e_, m_) for t_, gs_, i_, e_, m_ in elems]

    def table_elems(table_field: str):
        out = []
        for term, guards, iters, ev, mode in elems:
            for it in iters:
                dec = items_iter(it)
                if dec is not None and dec[0] == ("attr", sim, table_field):
                    out.append((term, guards, iters, ev, mode, dec))
        return out

    specs = [
        ("O1", "input_delays", "has_passed", "shift"),
        ("O2", "successors_to_wait_for", "has_reached", "sum"),
        ("O3", "successors", "has_reached", "sum"),
    ]
    for sub, table, meth, style in specs:
        name = f"wait[{table}]"
        cands = table_elems(table)
        if not cands:
            # is the table read at all in an awaited position?
            c.bad(sub, WAIT, name, f"no awaited expression iterates {T.show(sim)}.{table}: the wait set lacks these simulators", fi.loc)
            continue
        good = False
        problems: List[str] = []
        for term, guards, iters, ev, mode, (tab, kvar, vvar, form) in cands:
            loc = ctx.loc(fi, ev)
            if len(iters) != 1:
                problems.append(f"nested iteration {show_ctx((), iters)}")
                continue
            if kvar is None:
                problems.append("iterates only the values of the table (the simulator to wait for is lost)")
                continue
            if term[0] != "call" or term[1][0] != "attr":
                problems.append(f"awaited element {T.show(term)} is not a progress wait")
                continue
            recv, m = term[1][1], term[1][2]
            if recv != ("attr", kvar, "progress"):
                problems.append(f"waits on {T.show(recv)} instead of {T.show(kvar)}.progress")
                continue
            if m != meth:
                problems.append(f"uses {m}() where {meth}() is required"
                                + (" (non-strict: a producer whose progress equals the step time may still step at that time)" if meth == "has_passed" else " (strict wait on a successor can never be satisfied before this simulator steps)"))
                continue
            target = kwarg(term, "target", 0)
            shift = kwarg(term, "shift", 1)
            if style == "shift":
                if target != T0:
                    problems.append(f"target is {T.show(target)} instead of {T.show(T0)}")
                    continue
                if shift is None or shift == T.NONE:
                    problems.append("the connection's delay is not passed as shift")
                    continue
                if shift != vvar:
                    problems.append(f"shift is {T.show(shift)}, not the delay {T.show(vvar)} of the same table entry")
                    continue
            else:
                want = ("op", "+", T0, vvar)
                if target != want:
                    problems.append(f"target is {T.show(target)} instead of {T.show(want)}")
                    continue
                if shift not in (None, T.NONE):
                    problems.append(f"unexpected shift {T.show(shift)}")
                    continue
            # guard discipline
            gts = guard_terms(guards)
            if sub in ("O1", "O2") and gts:
                problems.append(f"wait is conditional on {' and '.join(T.show(x) for x in gts)}")
                continue
            if sub == "O3":
                extra = [x for x in gts if x != lazy]
                if extra:
                    problems.append(f"wait is conditional on {' and '.join(T.show(x) for x in extra)} (only the lazy_stepping flag may guard it)")
                    continue
            if mode != "all" and mode != "direct":
                problems.append("awaited with a FIRST_COMPLETED/timeout style wait: not all waits complete before the step")
                continue
            # the step time must be read before the first suspension
            if first_await is not None:
                reads_after = _read_point(s, term, T0)
                if reads_after is not None and reads_after > first_await:
                    c.unk(sub, WAIT, name, "next_steps[0] is re-read after a suspension point", loc)
                    good = None
                    break
            good = True
            c.ok(sub, WAIT, name, T.show(term) + show_ctx(guards, iters), loc)
            break
        if good is False:
            c.bad(sub, WAIT, name, "; ".join(problems), fi.loc)

    # O4: all collected awaitables are awaited on every normal path
    if not awaits:
        c.bad("O4", WAIT, "await-all", "the function never awaits", fi.loc)
    else:
        final = [e for e in awaits if any(x[3] is e for x in elems)]
        ok = False
        for e in final:
            k = g.key(e.stmt)
            own = [x for x in guard_terms(e.guards) if x not in vac]
            early = [r for r in s.returns if r.idx < e.idx]
            if not own and (g.postdominates(k, ENTRY) or (vac and early and all(any(T.negate(v) in guard_terms(r.guards) for v in vac) for r in early))):
                ok = True
        modes = {x[4] for x in elems}
        if "first" in modes:
            c.bad("O4", WAIT, "await-all", "waits are awaited with FIRST_COMPLETED / timeout semantics", fi.loc)
        elif ok or all(x[4] == "direct" and not x[1] for x in elems):
            c.ok("O4", WAIT, "await-all", f"{len(elems)} awaitable group(s), awaited on every normal path", fi.loc)
        else:
            c.bad("O4", WAIT, "await-all", "some normal path returns without awaiting the collected waits", fi.loc)


def _read_point(s: Summary, term: Term, T0: Term) -> Optional[int]:
    """Event index at which the call that builds `term` is evaluated."""
    for e in s.of_kind("call"):
        if e.term == term:
            return e.idx
    return None


# --------------------------------------------------------------------------- Progress
def _progress(ctx: Ctx, c: Collector) -> None:
    prog = ctx.prog
    ci = prog.cls(PROGRESS)
    # has_passed / has_reached -> _add_trigger(target, shift, flag)
    for meth, flag in (("has_passed", True), ("has_reached", False)):
        qn = f"{PROGRESS}.{meth}"
        fi = ctx.func(qn)
        s = ctx.summ(qn)
        ps = fi.params
        ok = False
        det = "does not return `await self._add_trigger(target, shift, %r)`" % flag
        for r in s.returns:
            t = r.term
            if t[0] == "await" and is_call_to(t[1], "_add_trigger") and not r.guards:
                a = t[1]
                one = T.strip(a[2][0]) if len(a[2]) == 1 and not a[3] else None
                if one is not None and one[0] == "tuple" and len(one[1]) == 3:
                    # the trigger spec is built here and handed over ready-made: (target, shift or the zero interval, flag)
                    tgt, sh, fl = one[1]
                    sp = _shift_problems(sh, T.var(ps[2])) if tgt == T.var(ps[1]) and fl == T.const(flag) and T.contains((sh,), T.var(ps[2])) else None
                    if sp == []:
                        ok = True
                    elif sp:
                        det = "; ".join(sp)
                    else:
                        det = f"hands the trigger spec ({T.show(tgt)}, {T.show(sh)[:40]}, {T.show(fl)}) to _add_trigger; required ({ps[1]}, {ps[2]} or the zero interval, {flag})"
                    continue
                tgt, sh, fl = kwarg(a, "target", 0), kwarg(a, "shift", 1), kwarg(a, "needs_to_pass", 2)
                if tgt == T.var(ps[1]) and sh == T.var(ps[2]) and fl == T.const(flag):
                    ok = True
                else:
                    det = f"passes ({T.show(tgt)}, {T.show(sh)}, {T.show(fl)}) to _add_trigger; required ({ps[1]}, {ps[2]}, {flag})"
        c.check(ok, "O5a", qn, f"{meth}->_add_trigger(needs_to_pass={flag})", det, fi.loc)

    # _triggered_time decision table
    qn = f"{PROGRESS}._triggered_time"
    fi = ctx.func(qn)
    s = ctx.summ(qn)
    spec = T.var(fi.params[1])
    me = T.var(fi.params[0])
    tad = ("op", "+", ("attr", me, "time"), ("idx", spec, T.const(1)))
    N = ("idx", spec, T.const(2))
    LT = T.canon_cmp("<", ("idx", spec, T.const(0)), tad)
    LE = T.canon_cmp("<=", ("idx", spec, T.const(0)), tad)
    # every comparison against the target must be a comparison with time + shift
    tgt0 = ("idx", spec, T.const(0))
    ret = folded_return(s)
    wrong = None
    for cm in T.find((ret,) + tuple(g[1] for r in s.returns for g in r.guards), lambda x: x[0] == "cmp" and tgt0 in (x[2], x[3])):
        other = cm[3] if cm[2] == tgt0 else cm[2]
        if other != tad:
            wrong = other
    if wrong is not None:
        c.bad("O5b", qn, "trigger-table", f"the target is compared with {T.show(wrong)} instead of {T.show(tad)} (progress shifted by the connection's delay)", fi.loc)
    else:
        LTl, GTl = ("cmp", "<", tgt0, tad), ("cmp", "<", tad, tgt0)
        EQl = T.canon_cmp("==", tgt0, tad)
        try:
            bad = []
            rows = 0
            for n_, lt, gt_, eq_ in ((n_, *x) for n_ in (False, True) for x in ((True, False, False), (False, True, False), (False, False, True))):
                a = {N: n_, LTl: lt, GTl: gt_, EQl: eq_}
                rows += 1
                out = boolfn.resolve_phi(ret, a) if ret is not None else T.NONE
                if T.is_term(out) and out[0] in ("phi", "ifexp"):
                    raise boolfn.NotBoolean(T.show(out[1]))
                want_trig = (n_ and lt) or ((not n_) and (lt or eq_))
                got_trig = out != T.NONE
                if want_trig != got_trig:
                    bad.append(f"needs_to_pass={n_}, time+shift{'>' if lt else ('==' if eq_ else '<')}target: "
                               f"{'triggers' if got_trig else 'does not trigger'}")
                elif got_trig and out != tad:
                    bad.append(f"returns {T.show(out)} instead of {T.show(tad)}")
            if bad:
                c.bad("O5b", qn, "trigger-table", "; ".join(sorted(set(bad))), fi.loc)
            else:
                c.ok("O5b", qn, "trigger-table", f"{rows} rows: strict > iff needs_to_pass, >= otherwise, compares time+shift with target", fi.loc)
        except boolfn.NotBoolean as e:
            c.unk("O5b", qn, "trigger-table", f"condition not understood: {e}", fi.loc)

    # _add_trigger: check-then-register without suspension, future awaited
    qn = f"{PROGRESS}._add_trigger"
    fi = ctx.func(qn)
    s = ctx.summ(qn)
    g = ctx.cfg(qn)
    ps = fi.params
    checks = [e for e in s.calls_to("_triggered_time")]
    appends = [e for e in s.of_kind("call") if e.term[1] == ("attr", ("attr", T.var(ps[0]), "_futures"), "append")]
    awaits = s.of_kind("await")
    if not checks or not appends or not awaits:
        c.bad("O5c", qn, "check-then-register", "missing " + ", ".join(n for n, x in (("immediate check", checks), ("registration in _futures", appends), ("await of the future", awaits)) if not x), fi.loc)
    else:
        chk, app = checks[0], appends[-1]
        spec_t = chk.term[2][0] if chk.term[2] else None
        problems = []
        # trigger spec: (target, shift-or-zero, needs_to_pass)
        if len(ps) == 2 and spec_t == T.var(ps[1]):
            pass        # the spec arrives ready-made: what it consists of is the callers' obligation (O5a)
        elif len(ps) < 4 or not (spec_t is not None and spec_t[0] == "tuple" and len(spec_t[1]) == 3 and spec_t[1][0] == T.var(ps[1]) and spec_t[1][2] == T.var(ps[3])
                and T.contains(spec_t[1][1], T.var(ps[2]))):
            problems.append(f"trigger spec {T.show(spec_t)} is not ({', '.join(ps[1:4])})")
        else:
            problems += _shift_problems(spec_t[1][1], T.var(ps[2]))
        sus = g.suspension_between(g.key(chk.stmt), g.key(app.stmt))
        if sus:
            problems.append("suspension point between the immediate check and the registration (lost wake-up): line(s) " + ", ".join(str(g.lineno(k)) for k in sus))
        if app.idx < chk.idx:
            problems.append("registration precedes the immediate check")
        reg = app.term[2][0] if app.term[2] else None
        if not (reg is not None and reg[0] == "tuple" and len(reg[1]) == 2 and reg[1][0] == spec_t):
            problems.append(f"registered entry {T.show(reg)} does not carry the checked trigger spec")
        # the awaited future is the registered one (same let-binding)
        aw = [e for e in awaits if e.idx > app.idx]
        same = False
        if reg is not None and reg[0] == "tuple" and len(reg[1]) == 2:
            regraw = app.raw[2][0]
            fut_raw = regraw[1][1] if T.strip(regraw)[0] == "tuple" and regraw[0] == "tuple" else None
            for e in aw:
                if fut_raw is not None and e.raw == fut_raw and fut_raw[0] == "let":
                    same = True
        if not same:
            problems.append("the awaited future is not the registered one")
        # early return only when triggered
        early = [r for r in s.returns if r.idx < app.idx]
        for r in early:
            gt = guard_terms(r.guards)
            if not any(_is_trig(x) for x in gt):
                problems.append(f"early return under {' and '.join(T.show(x) for x in gt) or 'no condition'}")
        # a trigger that has fired already must not wait for the next set(): the check has a consequence
        # (early return, or the future is resolved on the spot)
        resolved = [e for e in s.of_kind("call") if e.term[1][0] == "attr" and e.term[1][2] == "set_result"
                    and any(_is_trig(x) for x in guard_terms(e.guards))]
        skipped = any(_is_not_trig(x) for x in guard_terms(app.guards))        # registered only when it has not fired yet
        if not [r for r in early if any(_is_trig(x) for x in guard_terms(r.guards))] and not resolved and not skipped:
            problems.append("the immediate check has no consequence: a trigger that has fired already is registered and only resolved by the next "
                            "set(), which need not come (the last waiter of a run waits forever)")
        if problems:
            c.bad("O5c", qn, "check-then-register", "; ".join(problems), ctx.loc(fi, chk))
        else:
            c.ok("O5c", qn, "check-then-register", "check, append and await of the same future with no suspension in between", ctx.loc(fi, chk))

    # set(): store first, then re-evaluate every registered trigger
    qn = f"{PROGRESS}.set"
    fi = ctx.func(qn)
    s = ctx.summ(qn)
    me = T.var(fi.params[0])
    newt = T.var(fi.params[1])
    futs = ("attr", me, "_futures")
    stores = [e for e in s.of_kind("store") if e.term[1] == ("attr", me, "time")]
    checks = s.calls_to("_triggered_time")
    problems = []
    if not stores or stores[0].term[2] != newt:
        problems.append("the new time is not stored in self.time")
    if not checks:
        problems.append("registered triggers are not re-evaluated")
    if stores and checks:
        chk = checks[0]
        # the store on the path that reaches the re-evaluation (an early exit for "nothing can fire" -- the time
        # does not move, nobody waits -- has a store of its own)
        on_path = [e for e in stores if e.idx < chk.idx and all(g in chk.guards for g in e.guards)]
        st = on_path[-1] if on_path else stores[0]
        if st.idx > chk.idx:
            problems.append("triggers are re-evaluated before the new time is stored")
        if [x for x in guard_terms(st.guards) if x != T.canon_cmp("<=", ("attr", me, "time"), newt) and T.guard_term(("g", x, True)) not in guard_terms(chk.guards)]:
            problems.append("the store is conditional")
        # ways out before the scan: only when no registered trigger can fire (unchanged time / no waiter), and the time is stored
        for r in s.returns:
            if r.idx < chk.idx:
                gts = guard_terms(r.guards)
                ok_exit = any(x in (T.canon_cmp("==", ("attr", me, "time"), newt), ("not", futs), ("or", (T.canon_cmp("==", ("attr", me, "time"), newt), ("not", futs))), ("or", (T.canon_cmp("==", newt, ("attr", me, "time")), ("not", futs)))) for x in gts) \
                    and any(e.idx < r.idx and all(g in r.guards for g in e.guards) and e.term[2] == newt for e in stores)
                if not ok_exit:
                    problems.append(f"set() returns before the registered triggers are re-evaluated when {' and '.join(T.show(x)[:50] for x in gts) or 'always'}")
        # iteration covers the whole list
        if len(chk.iters) != 1:
            problems.append("trigger re-evaluation is not inside exactly one loop over _futures")
        else:
            src = T.strip(chk.iters[0][2])
            tgt = chk.iters[0][1]
            form = _whole_list_iteration(src, futs)
            if form is None and tgt == ("while",) and src[0] == "cmp" and src[1] == "<" and src[2] == T.const(0) and src[3][0] == "var":
                # `i = len(xs); while i > 0: i -= 1; ... xs[i]`: the indices from the last one down to 0
                iv_ = src[3]
                ln_ = call(T.glob("len"), futs)
                inits = [b for b in s.of_kind("bind") if b.term[1] == iv_ and not b.iters]
                steps = [b for b in s.of_kind("bind") if b.term[1] == iv_ and b.iters == chk.iters]
                first_in_loop = min((e2.idx for e2 in s.events if e2.iters == chk.iters and e2.kind != "test"), default=None)
                if len(inits) == 1 and T.strip(inits[0].term[2]) == ln_ and len(steps) == 1 and T.strip(steps[0].term[2]) == ("op", "-", iv_, T.const(1)) \
                        and steps[0].idx == first_in_loop and not [g for g in steps[0].guards if g not in chk.guards[:len(steps[0].guards)] and T.guard_term(g) != src]:
                    form = "index-reverse"
            if form == "partial":
                problems.append(f"the loop {T.show(src)} does not cover all registered triggers")
                form = "index-reverse"
            if form is None:
                c.unk("O5d", qn, "set-reevaluates-all", f"iteration {T.show(src)} not recognised as covering all of _futures", ctx.loc(fi, chk))
                return
            dels = [e for e in s.events if e.kind == "del" or (e.kind == "call" and e.term[1][0] == "attr" and e.term[1][1] == futs and e.term[1][2] in ("pop", "remove"))]
            sets = s.calls_to("set_result")
            if not sets:
                problems.append("no waiter is ever woken (no set_result)")
            for e in sets:
                gt = [x for x in guard_terms(e.guards[len(chk.guards):])]
                if e.iters != chk.iters and e.iters:
                    # woken in a second loop, over the entries that the scan collected: their conditions are the
                    # conditions under which an entry was collected
                    src2 = T.strip(e.iters[-1][2])
                    while src2[0] == "call" and src2[1][0] == "glob" and src2[1][1] in ("reversed", "list", "tuple", "iter") and len(src2[2]) == 1:
                        src2 = T.strip(src2[2][0])
                    if src2[0] == "bag" and len(src2[1]) == 1 and tuple(src2[1][0][3]) == tuple(chk.iters):
                        gt = guard_terms(src2[1][0][2]) + gt
                trig = [x for x in gt if _is_trig(x)]
                if not trig:
                    problems.append("set_result is not conditional on the trigger test")
                rest = [x for x in gt if x not in trig]
                for x in rest:
                    if not (x[0] == "not" and is_call_to(x[1], "cancelled")):
                        problems.append(f"set_result additionally conditional on {T.show(x)}")
            if form == "direct" and dels:
                problems.append("entries are removed from the list while it is being iterated: the element after a removed one is skipped")
            if form == "index-forward" and dels:
                problems.append("entries are deleted by index while iterating forwards: the element after a removed one is skipped")
            # ... or the list is rebuilt from the entries that did not fire
            FULL = ("idx", futs, ("slice", T.NONE, T.NONE, T.NONE))
            rebuilt = [e for e in s.of_kind("store") if e.term[1] in (futs, FULL) and e.idx > chk.idx]
            if rebuilt and not dels:
                kept = unalias(rebuilt[-1].term[2], s, fi)
                appends = [e for e in s.of_kind("call") if e.term[1][0] == "attr" and e.term[1][2] == "append" and e.iters == chk.iters]
                keeps_untriggered = any(any(_is_trig(x) or _is_not_trig(x) for x in guard_terms(e.guards[len(chk.guards):])) for e in appends) \
                    or (kept[0] == "bag" and any(any(is_call_to(y, "_triggered_time") for y in T.subterms((g,))) for el in kept[1] for g in el[2]))
                if keeps_untriggered:
                    form = "copy-rebuild"
            if not dels and form != "copy-rebuild":
                problems.append("triggered entries are never removed from _futures")
            for e in dels:
                gt = guard_terms(e.guards[len(chk.guards):])
                if not any(_is_trig(x) for x in gt):
                    problems.append("an entry is removed although it has not been triggered")
                if any(x[0] == "not" and is_call_to(x[1], "cancelled") for x in gt):
                    pass  # leaving cancelled ones registered is harmless but keep silent
    if problems:
        c.bad("O5d", qn, "set-reevaluates-all", "; ".join(problems), fi.loc)
    else:
        c.ok("O5d", qn, "set-reevaluates-all", "store precedes a loop over all registered triggers; wake iff triggered and not cancelled; remove iff triggered", fi.loc)


def _shift_problems(shv: Term, shp: Term) -> List[str]:
    """the shift of the trigger spec: the caller's when one is given, the zero interval (no tier of the progress moves) otherwise"""
    problems: List[str] = []
    for given in (True, False):
        def truthy(t, given=given):
            t = T.strip(t)
            if t == ("cmp", "is", shp, T.NONE):
                return not given
            if t == ("cmp", "isnot", shp, T.NONE) or t == shp:
                return given
            return None
        try:
            v = T.strip(boolfn.resolve_phi(shv, {}, truthy))
        except boolfn.NotBoolean:
            v = None
        if v is None:
            continue
        if given and v != shp:
            problems.append(f"a shift that the caller passes is replaced by {T.show(v)[:60]}: the connection's delay is ignored in the wake-up test")
        if not given and v != shp:
            zero = v[0] == "call" and v[1] == T.glob("mosaik.tiered_time.TieredInterval") and len(v[2]) == 1 and T.strip(v[2][0])[0] == "star" \
                and any(x in (("tuple", (T.const(0),)),) or (x[0] == "bag" and len(x[1]) == 1 and x[1][0][1] == T.const(0)) for x in T.subterms((v[2][0],)))
            if v[0] == "call" and v[1] == T.glob("mosaik.tiered_time.TieredInterval") and not zero:
                problems.append(f"without a shift the progress is compared after adding {T.show(v)[:60]}, which is not the zero interval")
        if not given and v == shp:
            problems.append("a missing shift (None) is not replaced by the zero interval: time + None fails")
    return problems


def _is_trig(x: Term) -> bool:
    """The trigger test as a condition: the value of _triggered_time() (None or a time) taken as a truth value or compared with None."""
    return is_call_to(x, "_triggered_time") or (x[0] == "cmp" and x[1] == "isnot" and x[3] == T.NONE and is_call_to(x[2], "_triggered_time"))


def _is_not_trig(x: Term) -> bool:
    return (x[0] == "not" and is_call_to(x[1], "_triggered_time")) or (x[0] == "cmp" and x[1] == "is" and x[3] == T.NONE and is_call_to(x[2], "_triggered_time"))


def _whole_list_iteration(src: Term, futs: Term) -> Optional[str]:
    ln = call(T.glob("len"), futs)
    rng = [call(T.glob("range"), ln), call(T.glob("range"), T.const(0), ln)]
    if src[0] == "call" and src[1] == T.glob("reversed") and len(src[2]) == 1 and src[2][0] in rng:
        return "index-reverse"
    if src in rng:
        return "index-forward"
    if src[0] == "call" and src[1] == T.glob("range") and len(src[2]) == 3 and src[2][2] == T.const(-1) \
            and src[2][0] == ("op", "-", ln, T.const(1)) and src[2][1] == T.const(-1):
        return "index-reverse"
    if src in (futs, call(T.glob("reversed"), futs)):
        return "direct"          # the list itself is walked: sound only if nothing is removed on the way (checked by the caller)
    if src == call(T.glob("list"), futs) or src == ("idx", futs, ("slice", T.NONE, T.NONE, T.NONE)) \
            or src == call(T.glob("tuple"), futs) or src == call(("attr", futs, "copy")):
        return "copy"
    if src[0] == "call" and src[1] == T.glob("reversed") and len(src[2]) == 1 and src[2][0] in (
            call(T.glob("list"), futs), call(T.glob("list"), call(T.glob("enumerate"), futs))):
        return "copy"
    if src == futs:
        return "direct"
    if src == call(T.glob("reversed"), futs):
        return "direct"
    # range(k, len) / range(len - k) with a non-zero constant: definitely not the whole list
    for r in T.find(src, lambda x: x[0] == "call" and x[1] == T.glob("range")):
        a = r[2]
        if len(a) >= 2 and a[0][0] == "const" and a[0][1] not in (0,) and a[1] == ln:
            return "partial"
        if len(a) >= 1 and a[-1 if len(a) == 1 else 1][0] == "op" and ln in a[-1 if len(a) == 1 else 1][2:] and a[-1 if len(a) == 1 else 1][1] == "-":
            return "partial"
    for sl in T.find(src, lambda x: x[0] == "idx" and x[1] == futs and x[2][0] == "slice"):
        if sl[2] != ("slice", T.NONE, T.NONE, T.NONE) and sl[2] != ("slice", T.NONE, T.NONE, T.const(-1)):
            return "partial"
    return None


from ..terms import call  # noqa: E402


def _futures_writers(ctx: Ctx, c: Collector) -> None:
    """The list of registered waiters of a Progress is appended to by `_add_trigger` and pruned by `set` (an entry
    goes when its trigger fires) and by nothing else: a waiter that is removed in any other way -- by target time, by
    an abandoned future's spec, by a clean-up after a time-out -- may belong to another coroutine, which is then never
    woken (lost wake-up: the run hangs)."""
    allowed = {f"{PROGRESS}.__init__", f"{PROGRESS}._add_trigger", f"{PROGRESS}.set"}
    n = 0
    bad = []
    for fi in analysis_units(ctx.prog):
        s = summarise(ctx.prog, fi)
        for e in s.events:
            hit = None
            if e.kind in ("store", "del"):
                t = e.term[1]
                base = t[1] if t[0] == "idx" else t
                if base[0] == "attr" and base[2] == "_futures":
                    hit = "re-assigned" if t[0] == "attr" else "modified"
            elif e.kind == "call" and e.term[1][0] == "attr" and e.term[1][1][0] == "attr" and e.term[1][1][2] == "_futures" \
                    and e.term[1][2] in ("append", "remove", "pop", "clear", "insert", "extend", "sort", "reverse"):
                hit = f".{e.term[1][2]}()"
            if hit is None:
                continue
            n += 1
            via = e.extra.get("via") if isinstance(e.extra, dict) else None
            where = via or fi.qualname
            if via is not None and fi.qualname in allowed:
                vfi = ctx.prog.functions.get(via)
                if vfi is not None and __import__("mverif.flow", fromlist=["x"]).is_new_helper(vfi):
                    where = fi.qualname        # a helper that a later change split off the allowed function: read in place
            if where not in allowed:
                bad.append((fi, e, hit, where))
    c.info["futures_writes"] = n
    if n < 2:
        raise AnalysisError(f"R1/O5e: only {n} writes to Progress._futures found (append in _add_trigger, removal in set confirmed by hand)")
    seen = set()
    for fi, e, hit, where in bad:
        if (where, hit) in seen:
            continue
        seen.add((where, hit))
        c.bad("O5e", where, f"_futures {hit}", f"the list of registered waiters is {hit} in {where.rsplit('.', 1)[-1]} (line {e.lineno}): only Progress.set removes entries, and only those whose trigger fired; "
              "any other removal can drop the waiter of another coroutine, which is then never woken", ctx.loc(fi, e))
    if not bad:
        c.ok("O5e", "mosaik.*", "registered waiters are removed by Progress.set only", f"{n} writes to _futures, all in __init__ / _add_trigger / set", "")
