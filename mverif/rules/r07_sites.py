"""R7 COMPARE-SITES — TieredInterval's order is partial (assertion exits for operands of
different cutoff).  Every site that orders TieredInterval-typed values is enumerated by type and
classified by the provenance of its operands.

R9 IDENTITY — SimGroup values denote nodes of a tree: the class must not have structural
equality while any SimGroup-typed value takes part in an equality-based operation."""
from __future__ import annotations

import ast
from typing import Dict, List, Optional, Set, Tuple

import networkx as nx

from .base import *  # noqa: F401,F403
from .sites import function_sites, typer_of
from ..types import is_cls, Typer, ANY

TI = "mosaik.tiered_time.TieredInterval"
GROUP = "mosaik.scenario.SimGroup"
UPDATE_MIN = "mosaik.scenario.update_min"
DELAY_TABLES = ("input_delays", "successors", "successors_to_wait_for", "triggering_ancestors")
MIN_INSTANCES = 5


def run(ctx: Ctx) -> Collector:
    c = Collector("R7")
    _compare_sites(ctx, c)
    _identity(ctx, c)
    _tiers_as_identity(ctx, c)
    return c


# --------------------------------------------------------------------------- R7
def _is_sum(v: Term) -> bool:
    if v[0] == "tuple" and v[1]:
        v = v[1][0]
    if v[0] == "op" and v[1] == "+":
        return True
    if v[0] == "call" and v[1] == T.glob(UPDATE_MIN):
        return any(a[0] == "op" and a[1] == "+" for a in v[2])
    return False


def table_kinds(ctx: Ctx) -> Dict[Tuple[str, str], List[Tuple[FuncInfo, Event, bool]]]:
    """(scope, table) -> list of (function, store event, stores-a-path-sum).  scope is "" for
    SimRunner fields and the function name for local tables."""
    out: Dict[Tuple[str, str], List[Tuple[FuncInfo, Event, bool]]] = {}
    typer = typer_of(ctx.prog)
    from ..flow import final as spliced
    for fi in analysis_units(ctx.prog):
        s = spliced(ctx.prog, fi)
        for e in s.of_kind("store"):
            tgt = unalias(e.term[1], s, fi)
            if tgt[0] != "idx":
                continue
            base = tgt[1]
            if base[0] == "attr" and base[2] in DELAY_TABLES:
                out.setdefault(("", base[2]), []).append((fi, e, _is_sum(e.term[2])))
            elif base[0] == "idx" and base[1][0] == "var":
                # local table of tables (sim_descs[a][b])
                env = typer.event_env(fi, e)
                vt = typer._type_of(e.term[2], env)
                if T.contains(e.term[2], ("glob", UPDATE_MIN)) or (vt[0] == "tuple" and vt[1] and is_cls(vt[1][0], TI)):
                    out.setdefault((fi.qualname, base[1][1]), []).append((fi, e, _is_sum(e.term[2])))
    return out


def _table_ref(t: Term) -> Optional[Tuple[str, Term, Term]]:
    """entry of a delay table -> (table name, owner/table term, key)"""
    t = T.strip(t)
    if t[0] in ("ifexp", "phi"):
        return _table_ref(t[2]) or _table_ref(t[3])
    if t[0] == "idx" and t[2] == T.const(0):      # (delay, path)[0]
        return _table_ref(t[1])
    if t[0] == "idx" and t[1][0] == "attr" and t[1][2] in DELAY_TABLES:
        return t[1][2], t[1], t[2]
    if t[0] == "call" and t[1][0] == "attr" and t[1][2] == "get" and t[2]:
        b = t[1][1]
        if b[0] == "attr" and b[2] in DELAY_TABLES:
            return b[2], b, t[2][0]
        if b[0] == "idx" and b[1][0] == "var":
            return "local:" + b[1][1], b, t[2][0]
    if t[0] == "idx" and t[1][0] == "idx" and t[1][1][0] == "var":
        return "local:" + t[1][1][1], t[1], t[2]
    return None


def _compare_sites(ctx: Ctx, c: Collector) -> None:
    prog = ctx.prog
    typer = typer_of(prog)
    kinds = table_kinds(ctx)
    nsites = 0
    from ..flow import final as spliced, spliceable
    for fi in analysis_units(prog):
        if fi.cls is not None and fi.cls.qualname == TI:
            continue
        if fi.parent is not None and not fi.is_async and fi.cls is None and spliceable(prog, fi.parent, fi):
            continue        # analysed spliced into its parent
        s = spliced(prog, fi)
        g = None
        for e, sub, env in function_sites(prog, fi, s):
            operands: List[Term] = []
            what = ""
            if sub[0] == "cmp" and sub[1] in ("<", "<="):
                if is_cls(typer._type_of(sub[2], env), TI) or is_cls(typer._type_of(sub[3], env), TI):
                    operands, what = [sub[2], sub[3]], "comparison"
            elif sub[0] == "agg" and sub[1] in ("min", "max"):
                els = [x for x in sub[2][1]]
                if any(is_cls(typer.elem_term_type(x, env), TI) for x in els):
                    operands, what = [x[1] for x in els], sub[1] + "()"
            elif sub[0] == "call" and sub[1] == T.glob(UPDATE_MIN) and len(sub[2]) == 2:
                if any(is_cls(typer._type_of(a, env), TI) for a in sub[2]):
                    operands, what = list(sub[2]), "update_min()"
            elif sub[0] == "call" and sub[1] in (T.glob("sorted"),) and sub[2]:
                if is_cls(typer.elem_type(typer._type_of(sub[2][0], env)), TI):
                    operands, what = [sub[2][0]], "sorted()"
            if not operands:
                continue
            nsites += 1
            # provenance
            path_reason = None
            for o in operands:
                o = unalias(T.strip(o), s, fi)
                if o[0] == "op" and o[1] == "+":
                    path_reason = f"operand {T.show(o)[:60]} is a sum of delays along a path"
                    break
                ref = _table_ref(o)
                if ref is not None:
                    tname = ref[0]
                    scope = fi.qualname if tname.startswith("local:") else ""
                    writers = kinds.get((scope, tname.replace("local:", "")), [])
                    sums = [(wf, we) for wf, we, is_sum in writers if is_sum]
                    if sums:
                        # can a path-sum store into this table reach this site?
                        reach = False
                        for wf, we in sums:
                            if wf.qualname != fi.qualname:
                                reach = True
                                break
                            g = g or ctx.cfg(fi.qualname)
                            try:
                                a, b = g.key(we.stmt), g.key(e.stmt)
                                if a == b or nx.has_path(g.g, a, b):
                                    reach = True
                            except KeyError:
                                reach = True
                        if reach:
                            path_reason = f"operand {T.show(o)[:60]} is an entry of {'a local table' if tname.startswith('local:') else tname}, which holds sums of delays along paths"
                            break
            key_table = ""
            for o in operands:
                r = _table_ref(unalias(T.strip(o), s, fi))
                if r is not None:
                    key_table = "local path table" if r[0].startswith("local:") else r[0]
            construct = f"{what} on TieredInterval [{key_table or 'edge delays'}]"
            loc = ctx.loc(fi, e)
            if path_reason:
                # keyed by the table, not by how the comparison is spelled (update_min(), min(), an explicit `<=`)
                c.bad("site", fi.module.name, f"order on TieredInterval [{key_table or 'edge delays'}] path-delay",
                      path_reason + ": delays of different cutoff are incomparable (TieredInterval.__lt__ asserts), so a valid acyclic scenario can abort", loc)
            else:
                c.ok("site", fi.module.name, construct + " same-shape", "both operands are edge delays of the same simulator pair (same pre_length, length and cutoff)", loc)
    c.info["interval_comparison_sites"] = nsites
    if nsites < 2:
        raise AnalysisError(f"R7 found only {nsites} TieredInterval comparison sites (4 confirmed by hand; fewer than 2 means the typing went vacuous)")


# --------------------------------------------------------------------------- R9
def _identity(ctx: Ctx, c: Collector) -> None:
    prog = ctx.prog
    typer = typer_of(prog)
    ci = prog.cls(GROUP)
    decs = [ast.unparse(d).replace(" ", "") for d in ci.decorators]
    structural = "__eq__" in ci.methods
    why = "defines __eq__" if structural else ""
    for d in decs:
        if d.split("(")[0].split(".")[-1] == "dataclass" and "eq=False" not in d:
            structural = True
            why = f"@{d} generates a field-wise __eq__ (two groups with the same parent are equal)"
    uses: List[Tuple[FuncInfo, Event, str]] = []
    for fi in analysis_units(prog):
        for e, sub, env in function_sites(prog, fi):
            if sub[0] == "cmp" and sub[1] in ("==", "!="):
                if is_cls(typer._type_of(sub[2], env), GROUP) or is_cls(typer._type_of(sub[3], env), GROUP):
                    uses.append((fi, e, T.show(sub)))
            elif sub[0] == "cmp" and sub[1] in ("in", "notin"):
                if is_cls(typer._type_of(sub[2], env), GROUP) or is_cls(typer.elem_type(typer._type_of(sub[3], env)), GROUP):
                    uses.append((fi, e, T.show(sub)))
            elif sub[0] == "call" and sub[1][0] == "attr" and sub[1][2] in ("index", "count", "remove") and sub[2]:
                bt = typer.unopt(typer._type_of(sub[1][1], env))
                if (bt[0] == "list" and is_cls(bt[1], GROUP)) or is_cls(typer._type_of(sub[2][0], env), GROUP):
                    uses.append((fi, e, T.show(sub)))
            elif sub[0] == "idx":
                bt = typer.unopt(typer._type_of(sub[1], env))
                if bt[0] == "dict" and is_cls(bt[1], GROUP):
                    uses.append((fi, e, T.show(sub)))
            elif sub[0] == "call" and sub[1][0] == "attr" and sub[1][2] in ("get", "setdefault", "pop") and sub[2]:
                bt = typer.unopt(typer._type_of(sub[1][1], env))
                if (bt[0] == "dict" and is_cls(bt[1], GROUP)) or is_cls(typer._type_of(sub[2][0], env), GROUP):
                    uses.append((fi, e, T.show(sub)))
    c.info["group_equality_uses"] = len(uses)
    if not uses:
        # no lookup could be typed (the table of ancestors may be built in a form the typer does not follow): the obligation is on
        # the class -- finding the common group of two simulators compares groups, whatever the spelling of the lookup
        if structural:
            c.bad("R9", GROUP, "equality of SimGroup", f"SimGroup {why}: finding the common group of two simulators confuses sibling groups", ci.node and f"{ci.module.relpath}:{ci.node.lineno}")
        else:
            c.ok("R9", GROUP, "equality of SimGroup", "SimGroup compares by identity (no equality-based lookup could be typed on this tree)", f"{ci.module.relpath}:{ci.node.lineno}")
        return
    for fi, e, txt in uses:
        if structural:
            c.bad("R9", fi.qualname, f"equality-based lookup {txt[:60]}", f"SimGroup {why}, and this lookup compares groups by equality: sibling groups are confused", ctx.loc(fi, e))
        else:
            c.ok("R9", fi.qualname, f"equality-based lookup {txt[:60]}", "SimGroup compares by identity", ctx.loc(fi, e))


# --------------------------------------------------------------------------- R7/key
def _tiers_as_identity(ctx: Ctx, c: Collector) -> None:
    """A delay is (pre_length, cutoff, tiers): two delays with the same tiers and different cutoffs act
    differently on a time (one adds to a tier, the other replaces it).  Using `interval.tiers` alone as a
    dictionary key, set member or equality proxy identifies different delays."""
    prog = ctx.prog
    typer = typer_of(prog)
    bad = 0
    n = 0
    for fi in analysis_units(prog):
        if fi.cls is not None and fi.cls.qualname == TI:
            continue
        for e, sub, env in function_sites(prog, fi):
            hits = []
            if sub[0] == "idx" and sub[2][0] == "attr" and sub[2][2] == "tiers":
                hits.append(sub[2])
            elif sub[0] == "cmp" and sub[1] in ("in", "notin") and sub[2][0] == "attr" and sub[2][2] == "tiers":
                hits.append(sub[2])
            elif sub[0] == "cmp" and sub[1] in ("==", "!=") and all(x[0] == "attr" and x[2] == "tiers" for x in (sub[2], sub[3])):
                hits += [sub[2], sub[3]]
            elif sub[0] == "call" and sub[1][0] == "attr" and sub[1][2] in ("add", "get", "setdefault", "pop", "discard", "remove") and sub[2] and sub[2][0][0] == "attr" and sub[2][0][2] == "tiers":
                hits.append(sub[2][0])
            elif sub[0] == "call" and sub[1] == T.glob("hash") and sub[2] and sub[2][0][0] == "attr" and sub[2][0][2] == "tiers":
                hits.append(sub[2][0])
            for h in hits:
                if is_cls(typer._type_of(h[1], env), TI):
                    n += 1
                    bad += 1
                    c.bad("key", fi.qualname, f"{T.show(sub)[:60]}", f"{T.show(h)} identifies a delay by its tiers alone: delays with equal tiers and different cutoffs (a connection inside a group next to one "
                          "between sibling groups) are taken for the same delay", ctx.loc(fi, e))
    c.info["interval_tiers_identity_uses"] = bad
    if not bad:
        c.ok("key", "mosaik.*", "TieredInterval.tiers is never used as a key / equality proxy", "0 sites (every function scanned by type)", "")
