"""R4 SCHEDULE — creation of demanded steps: schedule_step, next_step_settled,
notify_dependencies, output time, initial events."""
from __future__ import annotations

from typing import Dict, List, Optional

from .base import *  # noqa: F401,F403
from . import tables
from .. import boolfn
from ..cfg import RETURN, ENTRY

SCHED = "mosaik.simmanager.SimRunner.schedule_step"
SETTLED = "mosaik.scheduler.next_step_settled"
NOTIFY = "mosaik.scheduler.notify_dependencies"
GETOUT = "mosaik.scheduler.get_outputs"
INIT_EV = "mosaik.scenario.World.set_initial_event"
MIN_INSTANCES = 8


def run(ctx: Ctx) -> Collector:
    c = Collector("R4")
    _schedule_step(ctx, c)
    _settled(ctx, c)
    _notify(ctx, c)
    _output_time(ctx, c)
    _initial_event(ctx, c)
    return c


def _schedule_step(ctx: Ctx, c: Collector) -> None:
    fi = ctx.func(SCHED)
    s = ctx.summ(SCHED)
    me = T.var(fi.params[0])
    new = T.var(fi.params[1])
    heap = ("attr", me, "next_steps")
    pushes = [e for e in s.of_kind("call") if e.term[1] == T.glob("heapq.heappush")]
    sets = [e for e in s.of_kind("call") if e.term[1] == ("attr", ("attr", me, "newer_step"), "set")]
    loc = fi.loc
    if not pushes:
        c.bad("push", SCHED, "heappush", "the new step is never pushed on the heap", loc)
        return
    P = pushes[0]
    c.check(P.term[2] == (heap, new), "push", SCHED, "heappush", f"pushes {T.show(P.term[2])} instead of (self.next_steps, tiered_time)", ctx.loc(fi, P))
    # dedup: the push is guarded by `new not in heap`
    dedup = ("cmp", "in", new, heap)
    EMPTY = heap            # truthiness of the heap
    LT = ("cmp", "<", new, ("idx", heap, T.const(0)))
    EQ = T.canon_cmp("==", new, ("idx", heap, T.const(0)))
    items = [("push", P.guards)] + [(f"set{e.idx}", e.guards) for e in sets]
    pr_d: List[str] = []
    pr_w: List[str] = []
    try:
        def constraint(a):
            # an empty heap contains nothing; with a non-empty heap and new in heap, new >= heap[0]
            if not a[EMPTY] and a[dedup]:
                return False
            if a[dedup] and a[LT]:
                return False
            if a[EQ] and not a[dedup] and a[EMPTY]:
                return False    # new == heap[0] implies new in heap
            return True
        def truthy(t):
            # the elements of the heap are times, never None
            t = T.strip(t)
            if t[0] == "cmp" and t[1] in ("is", "isnot") and T.NONE in (t[2], t[3]) and ("idx", heap, T.const(0)) in (t[2], t[3]):
                return t[1] == "isnot"
            return None
        for a, fired in tables.rows(items, [dedup, EMPTY, LT, EQ], truthy, constraint):
            if a[dedup] and "push" in fired:
                pr_d.append("a time that is already scheduled is pushed again (duplicate step)")
            if not a[dedup] and "push" not in fired:
                pr_d.append("a new time is not pushed")
            earlier = (not a[EMPTY]) or a[LT]
            woke = any(x.startswith("set") for x in fired)
            if not a[dedup]:
                if earlier and not woke:
                    pr_w.append("an earlier step does not wake the waiting simulator (newer_step is not set)")
                if not earlier and woke:
                    pr_w.append("newer_step is set although the new step is not the earliest")
    except boolfn.NotBoolean as e:
        c.unk("dedup", SCHED, "dedup+wake", f"condition not understood: {e}", loc)
        return
    c.add("dedup", SCHED, "dedup", VIOLATED if pr_d else DISCHARGED, "; ".join(sorted(set(pr_d))), loc)
    # the "is earlier" condition must be evaluated before the push
    for e in sets:
        late = False
        for g_raw in e.extra.get("raw_guards", ()):
            gs = T.strip(g_raw[1])
            if not T.contains(gs, heap) or boolfn.canon_leaf(gs)[0] == dedup:
                continue
            pts = [x[2] for x in T.subterms(g_raw[1]) if x[0] == "let" and x[2] >= 0 and T.contains(T.strip(x[3]), heap)]
            if pts:
                point = min(pts)
            else:
                tests = [x for x in s.of_kind("test") if x.term == gs and x.idx < e.idx]
                point = tests[-1].idx if tests else e.idx
            if point > P.idx:
                late = True
        if late:
            pr_w.append("the 'is earlier' condition is evaluated after the push (then heap[0] already is the new step and the wake-up is lost)")
    if not sets:
        pr_w.append("newer_step is never set")
    c.add("wake", SCHED, "wake-iff-earlier", VIOLATED if pr_w else DISCHARGED, "; ".join(sorted(set(pr_w))), loc)


def _settled(ctx: Ctx, c: Collector) -> None:
    fi = ctx.func(SETTLED)
    s = ctx.summ(SETTLED)
    g = ctx.cfg(SETTLED)
    sim = T.var(param_by_annotation(fi, "SimRunner", 0))
    world = T.var(param_by_annotation(fi, "World", 1))
    heap = ("attr", sim, "next_steps")
    h0 = ("idx", heap, T.const(0))
    ptime = ("attr", ("attr", sim, "progress"), "time")
    until = ("attr", world, "until")
    loc = fi.loc
    # loop condition and return table
    loop_cond = ("cmp", "<", ("attr", ptime, "time"), until)
    MEET = T.canon_cmp("==", h0, ptime)
    rets = s.returns
    pr: List[str] = []
    try:
        items = [(f"ret{r.idx}:{T.show(r.term)}", r.guards) for r in rets]
        for a, fired in tables.rows(items, [loop_cond, heap, MEET], None, lambda a: not (a[MEET] and not a[heap])):
            in_loop = a[loop_cond]
            rt = [x for x in fired if x.endswith(":True")]
            rf = [x for x in fired if x.endswith(":False")]
            if in_loop and a[heap] and a[MEET] and not rt:
                pr.append("does not report a settled step when the earliest step equals the progress")
            if rt and not (in_loop and a[heap] and a[MEET]):
                pr.append("reports a settled step although " + ("the progress has reached until" if not in_loop else "heap empty" if not a[heap] else "the earliest step differs from the progress"))
            if not in_loop and not rf and not rt:
                pr.append("does not return False when the progress has reached until")
            if in_loop and rf:
                pr.append("gives up (returns False) before the progress has reached until")
    except boolfn.NotBoolean as e:
        c.unk("settle", SETTLED, "settled-table", f"condition not understood: {e}", loc)
        pr = None
    if pr is not None:
        c.add("settle", SETTLED, "settled-table", VIOLATED if pr else DISCHARGED, "; ".join(sorted(set(pr))), loc)
    # the wait
    aw = awaited_elems(s)
    waits = [x for x in aw if x[0][0] == "call" and x[0][1] == ("attr", ("attr", sim, "progress"), "has_reached")]
    evs = [x for x in aw if x[0] == call(("attr", ("attr", sim, "newer_step"), "wait"))]
    pr = []
    if not waits:
        pr.append("does not wait for the progress to reach the awaited time")
    if not evs:
        pr.append("does not wait for newer_step (an earlier step inserted meanwhile is not noticed)")
    if waits and evs:
        w, ev = waits[0], evs[0]
        if w[3] is not ev[3]:
            pr.append("progress wait and newer_step wait are not raced in one asyncio.wait")
        if w[4] != "first":
            pr.append("the two waits are not raced with FIRST_COMPLETED semantics: both must complete")
        tgt = kwarg(w[0], "target", 0)
        U = ("op", "+", call(T.glob("mosaik.tiered_time.TieredTime"), until), ("attr", sim, "from_world_time"))
        # the awaited time must be bounded by the end of the simulation: the progress never exceeds
        # TieredTime(until) + from_world_time, so a wait for a later time is never released
        bounded = _bounded_target(tgt, heap, h0, U)
        if bounded is None:
            pr.append(f"awaited time is {T.show(tgt)[:120]}")
        elif bounded == "unbounded":
            pr.append("with a scheduled step it waits for next_steps[0] itself, which may lie after until (a step triggered for a time after the end): "
                      "the progress is capped at TieredTime(until) + from_world_time, so this wait can never be released")
        elif bounded == "empty-wrong":
            pr.append(f"with an empty heap it waits for {T.show(tgt[3])[:80]} instead of TieredTime(until) + from_world_time")
        kw = dict(w[3].term[3])
        if kw.get("timeout") != ("attr", world, "rt_factor"):
            pr.append("the wait does not time out with world.rt_factor (real-time polling)")
        # clear after wake-up, no suspension until the loop condition is re-evaluated
        clears = [e for e in s.of_kind("call") if e.term[1] == ("attr", ("attr", sim, "newer_step"), "clear")]
        if not clears:
            pr.append("newer_step is never cleared")
        else:
            ck = g.key(clears[0].stmt)
            wk = g.key(w[3].stmt)
            if clears[0].idx < w[3].idx:
                pr.append("newer_step is cleared before the wait (a wake-up that arrives during the wait is kept, one that arrived before is lost)")
            hdr = [k for k, n in g.ast_of.items() if n.__class__.__name__ == "While"]
            if hdr:
                sus = g.suspension_between(ck, hdr[0])
                if sus:
                    pr.append("suspension point between newer_step.clear() and the re-evaluation of the loop condition (lost wake-up)")
            if not g.postdominates(ck, wk):
                pr.append("some path from the wait skips newer_step.clear()")
        # rt: advance_progress after each wake-up
        advs = [e for e in s.of_kind("call") if e.term[1] == T.glob("mosaik.scheduler.advance_progress") and e.term[2][:2] == (sim, world)]
        okrt = any(guard_terms(e.guards[len(w[3].guards):]) == [("attr", world, "rt_factor")] and e.idx > w[3].idx for e in advs)
        if not okrt:
            pr.append("in real-time mode the progress is not advanced after each wake-up")
    c.add("wait", SETTLED, "race progress vs newer_step", VIOLATED if pr else DISCHARGED, "; ".join(pr), loc)


def _bounded_target(tgt: Optional[Term], heap: Term, h0: Term, U: Term) -> Optional[str]:
    """Decide the awaited time by cases on the emptiness of the heap (conditional expression, if/else
    and min() over conditionally present elements are the same thing): with queued steps it must be
    min(earliest step, end), without it must be the end."""
    if tgt is None:
        return None
    from .. import boolfn
    leaf, pol = boolfn.canon_leaf(heap)

    def val(nonempty: bool):
        a = {leaf: nonempty == pol}
        v = T.strip(boolfn.resolve_phi(tgt, a))
        if v[0] == "agg" and v[1] == "min" and not v[3]:
            els = [x for x in v[2][1] if not x[3] and all(boolfn.eval_leaves(g[1], a) == g[2] for g in x[2])]
            if any(x[3] for x in v[2][1]):
                raise boolfn.NotBoolean("iterated element")
            out = set()
            for x in els:
                xv = T.strip(x[1])
                # `*heap[:1]`: the earliest step if there is one, nothing otherwise
                if xv[0] == "star" and T.strip(xv[1])[0] == "idx" and T.strip(xv[1])[1] == heap and T.strip(T.strip(xv[1])[2])[0] == "slice" \
                        and T.strip(T.strip(xv[1])[2])[1] in (T.NONE, T.const(0)) and T.strip(T.strip(xv[1])[2])[2] == T.const(1) and T.strip(T.strip(xv[1])[2])[3] == T.NONE:
                    if nonempty:
                        out.add(repr(h0))
                    continue
                out.add(repr(xv))
            return sorted(out)
        return [repr(v)]
    try:
        ne, em = val(True), val(False)
    except boolfn.NotBoolean:
        return None
    if em != [repr(U)]:
        return "empty-wrong" if ne in ([repr(h0)], sorted([repr(h0), repr(U)])) else None
    if ne == [repr(h0)]:
        return "unbounded"
    if ne == sorted([repr(h0), repr(U)]):
        return "ok"
    return None


def _notify(ctx: Ctx, c: Collector) -> None:
    fi = ctx.func(NOTIFY)
    s = ctx.summ(NOTIFY)
    sim = T.var(param_by_annotation(fi, "SimRunner", 0))
    calls = [e for e in s.of_kind("call") if e.term[1][0] == "attr" and e.term[1][2] == "schedule_step"]
    loc = fi.loc
    if not calls:
        c.bad("notify", NOTIFY, "trigger->schedule_step", "no triggered simulator is ever scheduled", loc)
        return
    e = calls[0]
    pr: List[str] = []
    unk = None
    if len(e.iters) != 2:
        pr.append("the call is not inside `for port, triggered in sim.triggers.items(): for dest, delay in triggered`")
    else:
        d0 = items_iter(e.iters[0])
        if d0 is None or d0[0] != ("attr", sim, "triggers") or d0[3] != "items":
            pr.append(f"outer iteration is {T.show(e.iters[0])}, not sim.triggers.items()")
        else:
            port, trg = d0[1], d0[2]
            it1 = e.iters[1]
            if T.strip(it1[2]) != trg or it1[1][0] != "tuple" or len(it1[1][1]) != 2:
                pr.append(f"inner iteration is {T.show(it1)}")
            else:
                dest, delay = it1[1][1]
                if e.term[1][1] != dest:
                    pr.append(f"schedules {T.show(e.term[1][1])} instead of the triggered simulator {T.show(dest)}")
                want = ("op", "+", ("attr", sim, "output_time"), delay)
                got = e.term[2][0] if e.term[2] else T.NONE
                if got != want:
                    pr.append(f"schedules {T.show(got)} instead of {T.show(want)} (output time + the delay of the same connection)")
                # guard: attribute present in the data of the entity
                if port[0] == "tuple" and len(port[1]) == 2:
                    eid, at = port[1]
                else:
                    eid, at = ("idx", port, T.const(0)), ("idx", port, T.const(1))
                data = ("attr", sim, "data")
                ok_guards = [
                    [("cmp", "in", at, call(("attr", data, "get"), eid, ("dict", ())))],
                    [("cmp", "in", eid, data), ("cmp", "in", at, ("idx", data, eid))],
                    [("and", (("cmp", "in", eid, data), ("cmp", "in", at, ("idx", data, eid))))],
                ]
                gts = guard_terms(e.guards)
                if gts not in ok_guards:
                    if not gts:
                        pr.append("triggers fire even if the attribute was not part of the output")
                    else:
                        neg = [[T.negate(x) for x in og] for og in ok_guards if len(og) == 1]
                        if gts in neg:
                            pr.append("the trigger condition is negated: a step is scheduled exactly when the attribute was NOT part of the output")
                        by_value = [x for x in gts if any(y[0] == "call" and y[1][0] == "attr" and y[1][2] == "get" and y[2][:1] == (at,) for y in T.subterms((x,)))
                                    or any(y == ("idx", ("idx", data, eid), at) for y in T.subterms((x,)))]
                        if by_value and not any(x in og for og in ok_guards for x in gts):
                            pr.append("the trigger depends on the attribute's *value* (" + T.show(by_value[0])[:70] + "): an output that is present but None / falsy "
                                      "(an event without payload) does not trigger its receivers")
                        extra = [x for x in gts if not any(x in og for og in ok_guards)]
                        if extra and any(x in og for og in ok_guards for x in gts):
                            pr.append("the trigger is additionally conditional on " + " and ".join(T.show(x) for x in extra) + ": some demanded steps are not scheduled")
                        elif not by_value:
                            unk = f"trigger condition {[T.show(x) for x in gts]} not recognised"
    if pr:
        c.bad("notify", NOTIFY, "trigger->schedule_step", "; ".join(pr), ctx.loc(fi, e))
    elif unk:
        c.unk("notify", NOTIFY, "trigger->schedule_step", unk, ctx.loc(fi, e))
    else:
        c.ok("notify", NOTIFY, "trigger->schedule_step", T.show(e.term) + show_ctx(e.guards, e.iters), ctx.loc(fi, e))


def _output_time(ctx: Ctx, c: Collector) -> None:
    fi = ctx.func(GETOUT)
    s = ctx.summ(GETOUT)
    sim = T.var(param_by_annotation(fi, "SimRunner", 1))
    cur = ("attr", sim, "current_step")
    st = [e for e in s.of_kind("store") if e.term[1] == ("attr", sim, "output_time")]
    if not st:
        c.bad("outtime", GETOUT, "sim.output_time", "the tiered output time is never stored", fi.loc)
        return
    e = st[0]
    v = merged_store(st)
    pr: List[str] = []
    unk = None
    if v[0] == "phi":
        cond, a, b = v[1], v[2], v[3]
        leaf, pol = boolfn.canon_leaf(cond)
        if not pol:
            a, b = b, a
        # cond: reported output time == step time
        lastt = ("attr", ("attr", sim, "last_step"), "time")
        if leaf[0] == "cmp" and leaf[1] == "==" and lastt in (leaf[2], leaf[3]):
            # last_step is the step that was just performed: same value as current_step here
            leaf = T.replace(leaf, {lastt: ("attr", cur, "time")})
        if not (leaf[0] == "cmp" and leaf[1] == "==" and ("attr", cur, "time") in (leaf[2], leaf[3])):
            if leaf[0] == "cmp" and leaf[1] == "<":
                pr.append(f"the current sub-tiers are kept under {T.show(cond)} instead of only when the output time equals the step time")
            else:
                unk = f"condition {T.show(cond)} not recognised"
        else:
            ot = leaf[3] if leaf[2] == ("attr", cur, "time") else leaf[2]
            if a not in (cur, ("attr", sim, "last_step")):
                pr.append(f"output at the step time gets {T.show(a)} instead of the current tiered step (sub-tiers are lost)")
            from .r08_shape import tiers_shape
            LEN = call(T.glob("len"), cur)
            ok_b = b[0] == "call" and b[1] == T.glob("mosaik.tiered_time.TieredTime") and len(b[2]) >= 1 and b[2][0] == ot and not b[3]
            sh = tiers_shape(b[2][1:], LEN) if ok_b else None
            if not ok_b:
                pr.append(f"a later output time becomes {T.show(b)[:100]}, not TieredTime(output_time, 0, ..., 0) of the simulator's depth")
            elif sh is None:
                if any(x[0] == "const" and isinstance(x[1], int) and x[1] != 0 for a2 in b[2][1:] for x in T.subterms((a2,)) if not (x[0] == "const" and x[1] == 1)) \
                        or not any(x == T.const(0) for a2 in b[2][1:] for x in T.subterms((a2,))):
                    pr.append("the sub-tiers of a later output time are not filled with 0")
                else:
                    unk = f"sub-tiers {T.show(b)[:100]} of a later output time not understood"
            elif sh[0]:
                pr.append("the sub-tiers of a later output time are not filled with 0")
            elif sh[1] != (1, -1):
                pr.append("the zero sub-tiers do not have length len(current_step) - 1")
    elif v[0] == "call" and v[1] == T.glob("mosaik.tiered_time.TieredTime"):
        pr.append("the output time never keeps the sub-tiers of the current step (output produced in a same-time loop triggers sub-step 0 again)")
    elif v in (cur, ("attr", sim, "last_step")):
        pr.append("the output time is always the current step: an output time reported by the simulator is ignored")
    else:
        unk = f"stored value {T.show(v)[:100]} not recognised"
    if pr:
        c.bad("outtime", GETOUT, "sim.output_time", "; ".join(pr), ctx.loc(fi, e))
    elif unk:
        c.unk("outtime", GETOUT, "sim.output_time", unk, ctx.loc(fi, e))
    else:
        c.ok("outtime", GETOUT, "sim.output_time", "current step if output time == step time else TieredTime(output_time, 0...)", ctx.loc(fi, e))


def _initial_event(ctx: Ctx, c: Collector) -> None:
    fi = ctx.func(INIT_EV)
    s = ctx.summ(INIT_EV)
    me = T.var(fi.params[0])
    sid, tm = T.var(fi.params[1]), T.var(fi.params[2])
    simt = ("idx", ("attr", me, "sims"), sid)
    st = [e for e in s.of_kind("store") if e.term[1] == ("attr", simt, "next_steps")]
    want = ("op", "+", call(T.glob("mosaik.tiered_time.TieredTime"), tm), ("attr", simt, "from_world_time"))
    ok = bool(st) and st[0].term[2][0] == "bag" and len(st[0].term[2][1]) == 1 and st[0].term[2][1][0][1] == want
    c.check(ok, "init", INIT_EV, "initial-event", "the initial event is not [TieredTime(time) + sim.from_world_time]", fi.loc)


from ..report import VIOLATED, DISCHARGED  # noqa: E402
from ..terms import call  # noqa: E402
