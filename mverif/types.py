"""Annotation-driven type inference over normalised terms.

The repository is annotated for pyright-strict; this module reads those annotations (class-level
field declarations, parameter and return annotations, annotated locals) and propagates types
through terms: attribute access, subscripts, dict/list/set methods, constructors, properties,
operator dunders (via their return annotations), heappop, min/max, comprehension / loop targets.
It is deliberately small: an expression it cannot type is `('any',)`, and rules that need a type
count such cases instead of guessing.
"""
from __future__ import annotations

import ast
from typing import Any, Dict, List, Optional, Sequence, Tuple

from .loader import FuncInfo, Module, Program, dotted
from .flow import Event, Summary, summarise
from . import terms as T
from .terms import Term

Type = Tuple[Any, ...]
ANY: Type = ("any",)
INT: Type = ("prim", "int")
STR: Type = ("prim", "str")
BOOL: Type = ("prim", "bool")
FLOAT: Type = ("prim", "float")
NONE_T: Type = ("prim", "None")


def cls(qn: str) -> Type:
    return ("cls", qn)


_EXTERNAL: Dict[str, Type] = {
    "Time": INT, "SimId": STR, "Attr": STR, "EntityId": STR, "FullId": STR, "ModelName": STR,
    "InputData": ("dict", STR, ("dict", STR, ("dict", STR, ANY))),
    "OutputData": ("dict", STR, ("dict", STR, ANY)),
    "OutputRequest": ("dict", STR, ("list", STR)),
    "Meta": ("dict", STR, ANY),
    "int": INT, "str": STR, "bool": BOOL, "float": FLOAT, "None": NONE_T, "Any": ANY, "object": ANY,
}


class Typer:
    def __init__(self, prog: Program):
        self.prog = prog
        self._ann_cache: Dict[Tuple[str, str], Type] = {}
        self.unresolved = 0
        self.resolved = 0

    # ------------------------------------------------------------------ annotations
    def ann(self, node: Optional[ast.AST], mod: Module) -> Type:
        if node is None:
            return ANY
        if isinstance(node, ast.Constant):
            if node.value is None:
                return NONE_T
            if isinstance(node.value, str):
                try:
                    return self.ann(ast.parse(node.value, mode="eval").body, mod)
                except SyntaxError:
                    return ANY
            return ANY
        if isinstance(node, ast.BinOp) and isinstance(node.op, ast.BitOr):
            parts = [self.ann(node.left, mod), self.ann(node.right, mod)]
            return self._union(parts)
        if isinstance(node, ast.Subscript):
            base = dotted(node.value) or ""
            name = base.split(".")[-1]
            args = node.slice.elts if isinstance(node.slice, ast.Tuple) else [node.slice]
            if name in ("Dict", "dict", "DefaultDict", "OrderedDict", "Mapping", "MutableMapping", "defaultdict"):
                return ("dict", self.ann(args[0], mod), self.ann(args[1], mod) if len(args) > 1 else ANY)
            if name in ("List", "list", "Sequence", "MutableSequence", "Iterable", "Collection", "Iterator"):
                return ("list", self.ann(args[0], mod))
            if name in ("Set", "set", "FrozenSet", "frozenset"):
                return ("set", self.ann(args[0], mod))
            if name in ("Tuple", "tuple"):
                if len(args) == 2 and isinstance(args[1], ast.Constant) and args[1].value is Ellipsis:
                    return ("tuplevar", self.ann(args[0], mod))
                return ("tuple", tuple(self.ann(a, mod) for a in args))
            if name == "Optional":
                return ("opt", self.ann(args[0], mod))
            if name == "Union":
                return self._union([self.ann(a, mod) for a in args])
            if name in ("Coroutine", "Awaitable"):
                return ("awaitable", self.ann(args[-1], mod))
            if name in ("Literal",):
                return STR
            if name in ("Callable",):
                return ("callable", self.ann(args[-1], mod))
            # generic class Foo[X]
            return self.ann(node.value, mod)
        d = dotted(node)
        if d is None:
            return ANY
        name = d.split(".")[-1]
        full = self.prog.resolve_name(mod, d)
        if full in self.prog.classes:
            return cls(full)
        # type alias defined in a package module
        for mname in (full.rsplit(".", 1)[0], mod.name):
            m = self.prog.modules.get(mname)
            if m is not None and name in m.globals_assigned and mname + "." + name == full or (m is not None and m is mod and name in m.globals_assigned and "." not in d):
                key = (m.name, name)
                if key in self._ann_cache:
                    return self._ann_cache[key]
                self._ann_cache[key] = ANY
                t = self.ann(m.globals_assigned[name], m)
                self._ann_cache[key] = t
                return t
        if name in _EXTERNAL:
            return _EXTERNAL[name]
        if full.startswith("asyncio."):
            return ("ext", full)
        return ("ext", full)

    @staticmethod
    def _union(parts: List[Type]) -> Type:
        non = [p for p in parts if p != NONE_T]
        if len(non) == 1:
            return ("opt", non[0]) if len(non) != len(parts) else non[0]
        return ("union", tuple(parts))

    # ------------------------------------------------------------------ environments
    def func_env(self, fi: FuncInfo) -> Dict[str, Type]:
        cached = getattr(fi, "_tenv", None)
        if cached is not None:
            return cached
        env: Dict[str, Type] = {}
        if fi.parent is not None:
            env.update(self.func_env(fi.parent))
        a = fi.node.args
        params = a.posonlyargs + a.args + a.kwonlyargs
        for i, p in enumerate(params):
            if p.annotation is not None:
                env[p.arg] = self.ann(p.annotation, fi.module)
            elif i == 0 and fi.cls is not None and "staticmethod" not in fi.decorators:
                env[p.arg] = cls(fi.cls.qualname)
            else:
                env[p.arg] = ANY
        if a.vararg is not None:
            env[a.vararg.arg] = ("tuplevar", self.ann(a.vararg.annotation, fi.module))
        if a.kwarg is not None:
            env[a.kwarg.arg] = ("dict", STR, self.ann(a.kwarg.annotation, fi.module))
        fi._tenv = env  # type: ignore[attr-defined]
        if not isinstance(fi.node, ast.Lambda):
            # annotated locals
            for n in ast.walk(fi.node):
                if isinstance(n, ast.AnnAssign) and isinstance(n.target, ast.Name):
                    env.setdefault(n.target.id, self.ann(n.annotation, fi.module))
            # locals of helpers that are analysed spliced into this function (named `x§helper`)
            from .flow import spliced
            s = spliced(self.prog, fi)
            for e in s.events:
                if e.kind == "spliced" and e.term[0] == "marker" and e.term[1] in self.prog.functions:
                    h = self.prog.functions[e.term[1]]
                    for nm, t in list(self.func_env(h).items()):
                        env.setdefault(f"{nm}{e.extra.get('suffix', '§' + h.name)}", t)
            # un-annotated locals that stayed opaque: type of their (first) bound value
            for e in s.of_kind("bind"):
                nm = e.term[1][1]
                if nm not in env or env[nm] == ANY:
                    t = self.type_of(e.term[2], self.event_env(fi, e))
                    if t != ANY:
                        env[nm] = t
        return env

    def event_env(self, fi: FuncInfo, e: Event) -> Dict[str, Type]:
        env = dict(self.func_env(fi))
        for it in e.iters:
            self.bind_iter(it, env)
        return env

    def bind_iter(self, it: Term, env: Dict[str, Type]) -> None:
        if it[1] == ("while",):
            return
        src_t = self.type_of(it[2], env)
        self.bind_target(it[1], self.elem_type(src_t), env)

    def as_tuple(self, t: Type) -> Type:
        """A NamedTuple value class of the package, seen as the tuple of its fields."""
        if t[0] == "cls" and t[1] in self.prog.records() and self.prog.records()[t[1]][2]:
            ci = self.prog.classes[t[1]]
            return ("tuple", tuple(self.ann(ci.fields[f], ci.module) if f in ci.fields else ANY for f in self.prog.records()[t[1]][0]))
        return t

    def bind_target(self, tgt: Term, t: Type, env: Dict[str, Type]) -> None:
        if tgt[0] == "var":
            env[tgt[1]] = t
        elif tgt[0] == "tuple":
            t = self.as_tuple(self.unopt(t))
            for i, x in enumerate(tgt[1]):
                if t[0] == "tuple" and i < len(t[1]):
                    self.bind_target(x, t[1][i], env)
                elif t[0] == "tuplevar":
                    self.bind_target(x, t[1], env)
                else:
                    self.bind_target(x, ANY, env)

    @staticmethod
    def elem_type(t: Type) -> Type:
        if t[0] in ("list", "set", "tuplevar"):
            return t[1]
        if t[0] == "dict":
            return t[1]
        if t[0] == "tuple" and t[1] and all(x == t[1][0] for x in t[1]):
            return t[1][0]
        if t[0] == "opt":
            return Typer.elem_type(t[1])
        return ANY

    @staticmethod
    def unopt(t: Type) -> Type:
        while t[0] == "opt":
            t = t[1]
        return t

    # ------------------------------------------------------------------ terms
    def type_of(self, t: Term, env: Dict[str, Type]) -> Type:
        r = self._type_of(t, env)
        if r == ANY:
            self.unresolved += 1
        else:
            self.resolved += 1
        return r

    def _type_of(self, t: Term, env: Dict[str, Type]) -> Type:
        k = t[0]
        if k == "let":
            return self._type_of(t[3], env)
        if k == "var":
            return env.get(t[1], ANY)
        if k == "const":
            v = t[1]
            return NONE_T if v is None else BOOL if isinstance(v, bool) else INT if isinstance(v, int) else FLOAT if isinstance(v, float) else STR if isinstance(v, str) else ANY
        if k == "glob":
            if t[1] in self.prog.classes:
                return ("type", t[1])
            if t[1] in self.prog.functions:
                return ("func", t[1])
            return ("ext", t[1])
        if k == "attr":
            return self.attr_type(self._type_of(t[1], env), t[2])
        if k == "idx":
            bt = self.as_tuple(self.unopt(self._type_of(t[1], env)))
            i = T.strip(t[2])
            if i[0] == "slice":
                return bt
            if bt[0] == "dict":
                return bt[2]
            if bt[0] == "list":
                return bt[1]
            if bt[0] == "tuplevar":
                return bt[1]
            if bt[0] == "tuple":
                if i[0] == "const" and isinstance(i[1], int) and -len(bt[1]) <= i[1] < len(bt[1]):
                    return bt[1][i[1]]
                return ANY
            return ANY
        if k == "call":
            return self.call_type(t, env)
        if k == "await":
            r = self._type_of(t[1], env)
            return r[1] if r[0] == "awaitable" else r
        if k == "op":
            lt = self.unopt(self._type_of(t[2], env))
            if lt[0] == "cls":
                dunder = {"+": "__add__", "-": "__sub__", "*": "__mul__", "|": "__or__", "&": "__and__"}.get(t[1])
                if dunder:
                    m = self.prog.find_method(lt[1], dunder)
                    if m is not None and m.node.returns is not None:
                        return self.ann(m.node.returns, m.module)
                return ANY
            rt = self.unopt(self._type_of(t[3], env))
            if lt[0] == "prim" and rt[0] == "prim":
                if t[1] == "/":
                    return FLOAT
                return FLOAT if FLOAT in (lt, rt) else lt
            if lt[0] in ("list", "tuplevar", "tuple") and t[1] in ("+", "*"):
                return lt
            return ANY
        if k in ("cmp", "not", "and", "or"):
            return BOOL
        if k in ("ifexp", "phi"):
            a = self._type_of(t[2], env)
            b = self._type_of(t[3], env)
            if a == NONE_T:
                return ("opt", b)
            if b == NONE_T:
                return ("opt", a)
            return a if a != ANY else b
        if k == "agg":
            if t[1] in ("min", "max"):
                for e in t[2][1]:
                    et = self.elem_term_type(e, env)
                    if et != ANY:
                        return et
                return ANY
            if t[1] in ("any", "all"):
                return BOOL
            if t[1] == "sum":
                return INT
        if k == "bag":
            for e in t[1]:
                et = self.elem_term_type(e, env)
                if et != ANY:
                    return ("set", et) if len(t) > 2 and t[2] in ("set",) else ("list", et)
            return ("list", ANY)
        if k == "tuple":
            return ("tuple", tuple(self._type_of(x, env) for x in t[1]))
        if k == "dict":
            if t[1]:
                return ("dict", self._type_of(t[1][0][0], env) if t[1][0][0] != ("star2",) else ANY, self._type_of(t[1][0][1], env))
            return ("dict", ANY, ANY)
        if k == "inl":
            return self._type_of(t[2], env)
        if k == "fstr":
            return STR
        return ANY

    def elem_term_type(self, e: Term, env: Dict[str, Type]) -> Type:
        env2 = dict(env)
        for it in e[3]:
            self.bind_iter(it, env2)
        term = e[1]
        if term[0] == "star":
            return self.elem_type(self._type_of(term[1], env2))
        return self._type_of(term, env2)

    def attr_type(self, bt: Type, name: str) -> Type:
        bt = self.unopt(bt)
        if bt[0] == "cls":
            fa = self.prog.field_annotation(bt[1], name)
            if fa is not None:
                return self.ann(fa[0], fa[1])
            m = self.prog.find_method(bt[1], name)
            if m is not None:
                if m.is_property:
                    if m.node.returns is not None:
                        return self.ann(m.node.returns, m.module)
                    s = summarise(self.prog, m)
                    if s.returns:
                        return self._type_of(s.returns[0].term, self.func_env(m))
                    return ANY
                return ("method", m.qualname)
            # instance attributes assigned in __init__ with an annotation
            init = self.prog.find_method(bt[1], "__init__")
            if init is not None:
                for n in ast.walk(init.node):
                    if isinstance(n, ast.AnnAssign) and isinstance(n.target, ast.Attribute) and n.target.attr == name:
                        return self.ann(n.annotation, init.module)
            return ANY
        if bt[0] in ("dict", "list", "set", "tuple", "tuplevar"):
            return ("cmethod", bt, name)
        return ANY

    def call_type(self, t: Term, env: Dict[str, Type]) -> Type:
        f = T.strip(t[1])
        args = t[2]
        if f[0] == "glob":
            name = f[1]
            if name in self.prog.classes:
                return cls(name)
            fi = self.prog.functions.get(name)
            if fi is not None:
                r = self.ann(fi.node.returns, fi.module) if fi.node.returns is not None else ANY
                return ("awaitable", r) if fi.is_async else r
            if name in ("heapq.heappop",) and args:
                return self.elem_type(self._type_of(args[0], env))
            if name == "len":
                return INT
            if name in ("int", "math.ceil", "ceil"):
                return INT
            if name in ("str",):
                return STR
            if name in ("list", "sorted", "reversed", "tuple", "set", "frozenset") and args:
                at = self._type_of(args[0], env)
                et = self.elem_type(at)
                return ("set", et) if name in ("set", "frozenset") else ("list", et)
            if name == "enumerate" and args:
                return ("list", ("tuple", (INT, self.elem_type(self._type_of(args[0], env)))))
            if name == "zip":
                return ("list", ("tuple", tuple(self.elem_type(self._type_of(a, env)) for a in args)))
            if name == "range":
                return ("list", INT)
            if name in ("copy.copy", "copy.deepcopy", "copy", "deepcopy") and args:
                return self._type_of(args[0], env)
            return ANY
        ft = self._type_of(f, env)
        if ft[0] == "method":
            m = self.prog.functions[ft[1]]
            r = self.ann(m.node.returns, m.module) if m.node.returns is not None else ANY
            return ("awaitable", r) if m.is_async else r
        if ft[0] == "cmethod":
            bt, name = ft[1], ft[2]
            if bt[0] == "dict":
                if name in ("get",):
                    return bt[2] if len(args) > 1 and T.strip(args[1]) != T.NONE else ("opt", bt[2])
                if name in ("pop", "setdefault"):
                    return bt[2]
                if name == "items":
                    return ("list", ("tuple", (bt[1], bt[2])))
                if name == "values":
                    return ("list", bt[2])
                if name == "keys":
                    return ("list", bt[1])
                if name == "copy":
                    return bt
            if bt[0] in ("list", "set"):
                if name == "pop":
                    return bt[1]
                if name == "copy":
                    return bt
                if name in ("index", "count"):
                    return INT
            return ANY
        if ft[0] == "type":
            return cls(ft[1])
        if ft[0] == "callable":
            return ft[1]
        return ANY


def is_cls(t: Type, qn: str) -> bool:
    t = Typer.unopt(t)
    return t == ("cls", qn)
