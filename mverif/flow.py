"""Syntax-directed dataflow normalisation of one function body.

`summarise(prog, funcinfo)` walks the (structured) body once and produces a `Summary`:
an ordered list of *events* (calls, stores, binds, awaits, tests, raises, returns, asserts), each
with its normalised term, its guard context (conditions that hold when it executes, including the
negations of earlier early-exit tests), its iteration context (enclosing `for` loops /
comprehension generators) and its try context.  Locals with a single reaching definition are
substituted (wrapped in `let`), append-accumulators and comprehensions become `bag`s.

This is def-use substitution over structured control flow, not execution: nothing is evaluated,
no path is enumerated, unknown constructs become `unknown` terms.
"""
from __future__ import annotations

import ast
from dataclasses import dataclass, field
from typing import Any, Dict, List, Optional, Sequence, Set, Tuple

from .loader import AnalysisError, FuncInfo, Program, dotted
from . import terms as T
from .terms import Term

_CMP = {ast.Lt: "<", ast.LtE: "<=", ast.Gt: ">", ast.GtE: ">=", ast.Eq: "==", ast.NotEq: "!=",
        ast.In: "in", ast.NotIn: "notin", ast.Is: "is", ast.IsNot: "isnot"}
_BIN = {ast.Add: "+", ast.Sub: "-", ast.Mult: "*", ast.Div: "/", ast.FloorDiv: "//", ast.Mod: "%",
        ast.BitOr: "|", ast.BitAnd: "&", ast.BitXor: "^", ast.Pow: "**", ast.LShift: "<<",
        ast.RShift: ">>", ast.MatMult: "@"}
_UN = {ast.USub: "-", ast.UAdd: "+", ast.Invert: "~"}

ACC_METHODS = {"append": "one", "add": "one", "extend": "many", "update": "many"}
AGGREGATORS = {"min", "max", "sum", "any", "all", "sorted", "list", "tuple", "set", "frozenset"}


@dataclass
class Event:
    idx: int
    kind: str            # call | await | store | bind | test | raise | return | assert | yield | del
    term: Term           # stripped
    raw: Term            # with let wrappers
    node: ast.AST        # the expression / statement node
    stmt: ast.AST        # enclosing CFG statement (simple stmt, or the test/iter expr's owner)
    guards: Tuple[Term, ...]
    iters: Tuple[Term, ...]
    tries: Tuple[Tuple[int, str], ...]
    awaited: bool = False
    extra: Dict[str, Any] = field(default_factory=dict)

    @property
    def lineno(self) -> int:
        return getattr(self.node, "lineno", getattr(self.stmt, "lineno", 0))


@dataclass
class Summary:
    func: FuncInfo
    events: List[Event]
    returns: List[Event]
    env: Dict[str, Term]
    locals: Set[str]
    unknowns: List[str]

    def of_kind(self, *kinds: str) -> List[Event]:
        return [e for e in self.events if e.kind in kinds]

    def calls(self, pat: Optional[Term] = None) -> List[Event]:
        out = []
        for e in self.events:
            if e.kind == "call" and (pat is None or T.match(pat, e.term) is not None):
                out.append(e)
        return out

    def calls_to(self, *names: str) -> List[Event]:
        """call events whose callee is glob <name> or a method named <name> (attr)."""
        out = []
        for e in self.events:
            if e.kind != "call":
                continue
            f = e.term[1]
            if (f[0] == "glob" and (f[1] in names or f[1].rsplit(".", 1)[-1] in names)) or (
                f[0] == "attr" and f[2] in names
            ):
                out.append(e)
        return out


def _assigned_names(fn: ast.AST) -> Set[str]:
    """Names bound in the function's own scope (not nested function scopes)."""
    out: Set[str] = set()

    def visit(n: ast.AST, top: bool) -> None:
        if isinstance(n, (ast.FunctionDef, ast.AsyncFunctionDef, ast.ClassDef)) and not top:
            out.add(n.name)
            return
        if isinstance(n, ast.Lambda) and not top:
            return
        if isinstance(n, (ast.ListComp, ast.SetComp, ast.DictComp, ast.GeneratorExp)):
            # comprehension scope: targets are not function locals (walrus aside)
            for c in ast.walk(n):
                if isinstance(c, ast.NamedExpr) and isinstance(c.target, ast.Name):
                    out.add(c.target.id)
            return
        if isinstance(n, ast.Name) and isinstance(n.ctx, (ast.Store, ast.Del)):
            out.add(n.id)
        elif isinstance(n, ast.ExceptHandler) and n.name:
            out.add(n.name)
        elif isinstance(n, (ast.Import, ast.ImportFrom)):
            for a in n.names:
                out.add((a.asname or a.name).split(".")[0])
        elif isinstance(n, (ast.Global, ast.Nonlocal)):
            pass
        for c in ast.iter_child_nodes(n):
            visit(c, False)

    if isinstance(fn, ast.Lambda):
        return out
    for st in fn.body:
        visit(st, False)
    return out


def _root_name(n: ast.AST) -> Optional[str]:
    while isinstance(n, (ast.Subscript, ast.Attribute)):
        n = n.value
    return n.id if isinstance(n, ast.Name) else None


def _mutations(fn: ast.AST) -> Dict[str, Set[str]]:
    """For every plain name: the kinds of mutation applied through it (directly or through a
    chain of subscripts / attributes rooted in it) in this function."""
    out: Dict[str, Set[str]] = {}
    for n in ast.walk(fn):
        if isinstance(n, ast.Call) and isinstance(n.func, ast.Attribute):
            if isinstance(n.func.value, ast.Name):
                out.setdefault(n.func.value.id, set()).add(n.func.attr)
            elif isinstance(n.func.value, ast.Subscript):
                r = _root_name(n.func.value)
                if r is not None and n.func.attr in ("append", "add", "extend", "update", "pop", "remove", "clear", "insert", "setdefault", "discard"):
                    out.setdefault(r, set()).add("<setitem>")
        elif isinstance(n, (ast.Subscript, ast.Attribute)) and isinstance(n.ctx, (ast.Store, ast.Del)):
            if isinstance(n.value, ast.Name):
                out.setdefault(n.value.id, set()).add("<setitem>" if isinstance(n, ast.Subscript) else "<setattr>")
            elif isinstance(n, ast.Subscript):
                r = _root_name(n.value)
                if r is not None and isinstance(n.value, ast.Subscript):
                    out.setdefault(r, set()).add("<setitem>")
        elif isinstance(n, ast.AugAssign) and isinstance(n.target, ast.Name):
            out.setdefault(n.target.id, set()).add("<aug>")
    return out


def _dict_sets(fn: ast.AST) -> Set[str]:
    """Local dicts that are only used as (insertion-ordered) sets of their keys: initialised empty, filled by
    `d.setdefault(k, <constant>)` / `d[k] = <constant>` statements, and otherwise only iterated, counted,
    tested for membership / emptiness, copied into a list / tuple / set, or returned."""
    parents: Dict[ast.AST, ast.AST] = {}
    for n in ast.walk(fn):
        for ch in ast.iter_child_nodes(n):
            parents[ch] = n
    inits: Dict[str, int] = {}
    bad: Set[str] = set()
    for n in ast.walk(fn):
        if not isinstance(n, ast.Name):
            continue
        p = parents.get(n)
        if isinstance(n.ctx, ast.Store):
            v = p.value if isinstance(p, (ast.Assign, ast.AnnAssign)) and (n in getattr(p, "targets", []) or getattr(p, "target", None) is n) else None
            empty = isinstance(v, ast.Dict) and not v.keys or (isinstance(v, ast.Call) and isinstance(v.func, ast.Name) and v.func.id == "dict" and not v.args and not v.keywords)
            if empty:
                inits[n.id] = inits.get(n.id, 0) + 1
            else:
                bad.add(n.id)
            continue
        if isinstance(n.ctx, ast.Del):
            bad.add(n.id)
            continue
        ok = False
        if isinstance(p, ast.Attribute) and p.value is n and p.attr == "setdefault":
            c = parents.get(p)
            ok = isinstance(c, ast.Call) and c.func is p and len(c.args) == 2 and isinstance(c.args[1], ast.Constant) and not c.keywords and isinstance(parents.get(c), ast.Expr)
        elif isinstance(p, ast.Attribute) and p.value is n and p.attr == "keys":
            c = parents.get(p)
            ok = isinstance(c, ast.Call) and c.func is p and isinstance(parents.get(c), (ast.For, ast.comprehension))
        elif isinstance(p, ast.Subscript) and p.value is n and isinstance(p.ctx, ast.Store):
            c = parents.get(p)
            ok = isinstance(c, ast.Assign) and len(c.targets) == 1 and isinstance(c.value, ast.Constant)
        elif isinstance(p, (ast.For, ast.comprehension)) and p.iter is n:
            ok = True
        elif isinstance(p, ast.Call) and isinstance(p.func, ast.Name) and p.func.id in ("len", "bool", "list", "tuple", "set", "frozenset", "sorted", "iter") and p.args == [n]:
            ok = True
        elif isinstance(p, ast.Compare) and n in p.comparators and all(isinstance(o, (ast.In, ast.NotIn)) for o in p.ops):
            ok = True
        elif isinstance(p, (ast.If, ast.While, ast.IfExp)) and p.test is n:
            ok = True
        elif isinstance(p, ast.UnaryOp) and isinstance(p.op, ast.Not):
            ok = True
        elif isinstance(p, ast.Return):
            ok = True
        if not ok:
            bad.add(n.id)
    return {k for k, c in inits.items() if c == 1 and k not in bad}


def _exits_loop(body: Sequence[ast.stmt]) -> bool:
    """break / continue that belong to this loop (not to a nested one)."""
    todo = list(body)
    while todo:
        n = todo.pop()
        if isinstance(n, (ast.Break, ast.Continue)):
            return True
        if isinstance(n, (ast.For, ast.AsyncFor, ast.While)):
            todo += list(n.orelse)
            continue
        if isinstance(n, (ast.FunctionDef, ast.AsyncFunctionDef, ast.ClassDef, ast.Lambda)):
            continue
        todo += list(ast.iter_child_nodes(n))
    return False


_TAKERS = {"pop", "popitem", "popleft", "heappop", "get_nowait"}
_MUTATORS = {"append", "add", "extend", "update", "pop", "remove", "clear", "insert", "setdefault",
             "discard", "popitem", "sort", "reverse", "<setitem>", "<setattr>", "<aug>", "set", "cancel"}


class Walker:
    def __init__(self, prog: Program, fi: FuncInfo):
        self.prog = prog
        self.fi = fi
        self.mod = fi.module
        node = fi.node
        self.locals: Set[str] = set(fi.params) | _assigned_names(node)
        self.outer_locals: Set[str] = set()
        p = fi.parent
        while p is not None:
            self.outer_locals |= set(p.params) | _assigned_names(p.node)
            p = p.parent
        self.mut = _mutations(node)
        self.dict_sets = _dict_sets(node) if not isinstance(node, ast.Lambda) else set()
        # a local handed by name to a helper introduced after the pinned tree that mutates the corresponding
        # parameter is mutated here, too (the helper is analysed spliced into this function)
        for n in ast.walk(node):
            if not isinstance(n, ast.Call):
                continue
            callee = None
            skip = 0
            if isinstance(n.func, ast.Name):
                callee = prog.functions.get(prog.resolve_name(self.mod, n.func.id))
            elif isinstance(n.func, ast.Attribute) and isinstance(n.func.value, ast.Name) and fi.cls is not None and fi.params and n.func.value.id == fi.params[0]:
                callee = prog.find_method(fi.cls.qualname, n.func.attr)
                skip = 1
            if callee is None or isinstance(callee.node, ast.Lambda) or callee.qualname in known_functions():
                continue
            cm = _mutations(callee.node)
            ps = callee.params[skip:]
            pairs = list(zip(n.args, ps)) + [(k.value, k.arg) for k in n.keywords if k.arg in ps]
            for arg, pn in pairs:
                if isinstance(arg, ast.Name) and (cm.get(pn, set()) & _MUTATORS):
                    self.mut.setdefault(arg.id, set()).add("<setitem>")
        self.events: List[Event] = []
        self.returns: List[Event] = []
        self.unknowns: List[str] = []
        self.env: Dict[str, Term] = {}
        # an optional parameter that a later change added and that nothing in the package passes has its default value
        for pn, dv in unused_new_params(prog, fi).items():
            if pn not in _assigned_names(node):
                self.env[pn] = T.const(dv)
        self.acc_ctx: Dict[str, Tuple[int, int]] = {}
        self.dict_build: Dict[str, Tuple[Any, Any]] = {}
        self.guards: Tuple[Term, ...] = ()
        self.iters: Tuple[Term, ...] = ()
        self.tries: Tuple[Tuple[int, str], ...] = ()
        self.cur_stmt: ast.AST = node
        self._try_counter = 0
        self._comp_depth = 0

    # ------------------------------------------------------------------ events
    def emit(self, kind: str, raw: Term, node: ast.AST, **extra: Any) -> Event:
        extra["raw_guards"] = self.guards
        e = Event(len(self.events), kind, T.strip(raw), raw, node, self.cur_stmt, T.strip(self.guards),
                  T.strip(self.iters), self.tries, extra.pop("awaited", False), extra)
        self.events.append(e)
        if kind == "store":
            # a local that was bound to the access path being overwritten now denotes the *old* object:
            # stop substituting the path for it
            tgt = e.term[1]
            if isinstance(tgt, tuple) and tgt and tgt[0] in ("attr", "idx"):
                for nm, v in list(self.env.items()):
                    if isinstance(v, tuple) and len(v) == 4 and v[0] == "let" and T.contains((T.strip(v[3]),), tgt):
                        self.env[nm] = T.var(nm)
        return e

    # ------------------------------------------------------------------ expressions
    def name(self, n: ast.Name) -> Term:
        nm = n.id
        if nm in self.env:
            v = self.env[nm]
            return v
        if nm in self.locals or nm in self.outer_locals:
            return T.var(nm)
        if nm in ("True", "False", "None"):
            return T.const({"True": True, "False": False, "None": None}[nm])
        q = self.prog.resolve_name(self.mod, nm)
        if q in T.CONST_VALUES:
            return T.CONST_VALUES[q]
        return T.glob(q)

    def expr(self, n: Optional[ast.AST]) -> Term:
        if n is None:
            return T.NONE
        m = getattr(self, "e_" + type(n).__name__, None)
        if m is None:
            self.unknowns.append(f"{type(n).__name__} at line {getattr(n, 'lineno', '?')}")
            return ("unknown", type(n).__name__)
        return m(n)

    def e_Name(self, n: ast.Name) -> Term:
        return self.name(n)

    def e_Constant(self, n: ast.Constant) -> Term:
        return T.const(n.value)

    def e_Attribute(self, n: ast.Attribute) -> Term:
        d = dotted(n)
        if d is not None:
            head = d.split(".")[0]
            if head not in self.locals and head not in self.outer_locals and head not in self.env:
                tgt = self.mod.imports.get(head)
                # module alias (import asyncio / import heapq as hq / from mosaik import scheduler)
                if tgt is not None and (tgt in self.prog.modules or "." not in tgt or tgt.split(".")[0] != self.prog.package):
                    full = self.prog.resolve_name(self.mod, d)
                    if self._is_module_like(tgt):
                        return T.CONST_VALUES.get(full, T.glob(full))
        return ("attr", self.expr(n.value), n.attr)

    def _is_module_like(self, dotted_target: str) -> bool:
        if dotted_target in self.prog.modules:
            return True
        # external: treat plain `import x` / `import x as y` targets as modules
        head = dotted_target.split(".")[0]
        if head == self.prog.package:
            return False
        # `from ext import Name` is most likely a class/function; only module imports collapse
        for node in ast.walk(self.mod.tree):
            if isinstance(node, ast.Import):
                for a in node.names:
                    if a.name == dotted_target or a.name.split(".")[0] == dotted_target:
                        return True
        return False

    def e_Subscript(self, n: ast.Subscript) -> Term:
        return ("idx", self.expr(n.value), self.expr(n.slice))

    def e_Slice(self, n: ast.Slice) -> Term:
        return ("slice", self.expr(n.lower), self.expr(n.upper), self.expr(n.step))

    def e_Starred(self, n: ast.Starred) -> Term:
        return ("star", self.expr(n.value))

    def e_Tuple(self, n: ast.Tuple) -> Term:
        return ("tuple", tuple(self.expr(e) for e in n.elts))

    def e_List(self, n: ast.List) -> Term:
        return self._display(n.elts, "list")

    def e_Set(self, n: ast.Set) -> Term:
        return self._display(n.elts, "set")

    def _display(self, elts: Sequence[ast.AST], kind: str) -> Term:
        out: List[Term] = []
        for e in elts:
            if isinstance(e, ast.Starred):
                v = self.expr(e.value)
                sv = T.strip(v)
                if sv[0] == "bag":
                    out.extend(sv[1])
                else:
                    out.append(("elem", ("star", v), (), ()))
            else:
                out.append(("elem", self.expr(e), (), ()))
        return ("bag", tuple(out), kind)

    def e_Dict(self, n: ast.Dict) -> Term:
        pairs = []
        for k, v in zip(n.keys, n.values):
            pairs.append((("star2",) if k is None else self.expr(k), self.expr(v)))
        return ("dict", tuple(pairs))

    def e_BinOp(self, n: ast.BinOp) -> Term:
        a, b = self.expr(n.left), self.expr(n.right)
        op = _BIN.get(type(n.op), "?")
        sa, sb = T.strip(a), T.strip(b)
        if op == "+" and sa[0] == "bag" and sb[0] == "bag":
            return ("bag", sa[1] + sb[1], sa[2])
        return ("op", op, a, b)

    def e_UnaryOp(self, n: ast.UnaryOp) -> Term:
        v = self.expr(n.operand)
        if isinstance(n.op, ast.Not):
            return T.negate(v) if T.strip(v)[0] in ("cmp", "not", "and", "or") else ("not", v)
        if isinstance(n.op, ast.USub) and T.strip(v)[0] == "const" and isinstance(T.strip(v)[1], (int, float)):
            return T.const(-T.strip(v)[1])
        return ("unop", _UN.get(type(n.op), "?"), v)

    def e_BoolOp(self, n: ast.BoolOp) -> Term:
        return ("and" if isinstance(n.op, ast.And) else "or", tuple(self.expr(v) for v in n.values))

    def e_Compare(self, n: ast.Compare) -> Term:
        parts = []
        left = self.expr(n.left)
        for op, right in zip(n.ops, n.comparators):
            r = self.expr(right)
            parts.append(T.canon_cmp(_CMP[type(op)], left, r))
            left = r
        return parts[0] if len(parts) == 1 else ("and", tuple(parts))

    def e_IfExp(self, n: ast.IfExp) -> Term:
        c = self.expr(n.test)
        # the branches are evaluated conditionally: events inside them carry the condition
        saved = self.guards
        self.guards = saved + (("g", c, True),)
        a = self.expr(n.body)
        self.guards = saved + (("g", c, False),)
        b = self.expr(n.orelse)
        self.guards = saved
        sa, sb = T.strip(a), T.strip(b)
        if sa[0] == "bag" and sb[0] == "bag":
            g1, g0 = ("g", c, True), ("g", c, False)
            return ("bag", tuple(("elem", e[1], (g1,) + e[2], e[3]) for e in sa[1])
                    + tuple(("elem", e[1], (g0,) + e[2], e[3]) for e in sb[1]), sa[2])
        # `max(xs) if xs else d` is `max(xs, default=d)`
        if sa[0] == "agg" and sa[1] in ("min", "max") and not sa[3]:
            from .boolfn import canon_leaf
            try:
                leaf, pol = canon_leaf(c)
            except Exception:
                leaf, pol = None, True
            if pol and leaf is not None and T.strip(leaf)[0] == "bag" and T.strip(leaf)[1] == sa[2][1]:
                return ("agg", sa[1], sa[2], (("default", b),))
        return ("ifexp", c, a, b)

    def e_Await(self, n: ast.Await) -> Term:
        inner = n.value
        if isinstance(inner, ast.Call):
            v = self.e_Call(inner, awaited=True)
        else:
            v = self.expr(inner)
        self.emit("await", v, n)
        return ("await", v)

    def e_Yield(self, n: ast.Yield) -> Term:
        v = self.expr(n.value)
        self.emit("yield", v, n)
        return ("yield", v)

    def e_YieldFrom(self, n: ast.YieldFrom) -> Term:
        v = self.expr(n.value)
        self.emit("yield", ("star", v), n)          # every element of v, one after the other
        return ("yield", ("star", v))

    def e_JoinedStr(self, n: ast.JoinedStr) -> Term:
        parts = []
        for v in n.values:
            if isinstance(v, ast.FormattedValue):
                parts.append(self.expr(v.value))
        return ("fstr", tuple(parts))

    def e_FormattedValue(self, n: ast.FormattedValue) -> Term:
        return self.expr(n.value)

    def e_NamedExpr(self, n: ast.NamedExpr) -> Term:
        v = self.expr(n.value)
        self.bind(n.target.id, v, n)
        return v

    def e_Lambda(self, n: ast.Lambda) -> Term:
        params = tuple(a.arg for a in n.args.posonlyargs + n.args.args)
        saved_env, saved_locals = dict(self.env), set(self.locals)
        saved_events = len(self.events)
        for p in params:
            self.env.pop(p, None)
            self.locals.add(p)
        body = self.expr(n.body)
        # events inside a lambda body do not happen at definition time
        inner = self.events[saved_events:]
        del self.events[saved_events:]
        self.env, self.locals = saved_env, saved_locals
        return ("lambda", params, body, tuple((e.kind, e.term) for e in inner))

    def _comp(self, n: ast.AST, elt_nodes: Sequence[ast.AST], kind: str) -> Term:
        saved_env, saved_locals = dict(self.env), set(self.locals)
        saved_g, saved_i = self.guards, self.iters
        g0, i0 = len(self.guards), len(self.iters)
        self._comp_depth += 1
        try:
            if len(n.generators) == 1 and isinstance(n.generators[0].target, ast.Name) and not n.generators[0].is_async:
                gen = n.generators[0]
                src = T.strip(self.expr(gen.iter))
                if src[0] == "bag" and all(e[1][0] != "star" for e in src[1]):
                    nm = gen.target.id
                    out = []
                    for e in src[1]:
                        self.env[nm] = ("let", nm, -1, e[1])
                        self.locals.add(nm)
                        gs = tuple(("g", self.expr(cnd), True) for cnd in gen.ifs)
                        elts = tuple(self.expr(x) for x in elt_nodes)
                        elt = elts[0] if len(elts) == 1 else ("pair",) + elts
                        out.append(("elem", elt, e[2] + gs, e[3]))
                    return ("bag", tuple(out), kind)
            for gen in n.generators:
                it = self.expr(gen.iter)
                sit = T.strip(it)
                tnames = [x.id for x in ast.walk(gen.target) if isinstance(x, ast.Name)]
                for nm in tnames:
                    self.env.pop(nm, None)
                    self.locals.add(nm)
                # `for x in [e]` is a let-binding
                if sit[0] == "bag" and len(sit[1]) == 1 and not sit[1][0][2] and not sit[1][0][3] \
                        and sit[1][0][1][0] != "star" and isinstance(gen.target, ast.Name):
                    self.env[gen.target.id] = ("let", gen.target.id, -1, sit[1][0][1])
                else:
                    self.iters = self.iters + (("it", self.target_term(gen.target), it),)
                for cond in gen.ifs:
                    self.guards = self.guards + (("g", self.expr(cond), True),)
            elts = tuple(self.expr(e) for e in elt_nodes)
            elt = elts[0] if len(elts) == 1 else ("pair",) + elts
            return ("bag", (("elem", elt, self.guards[g0:], self.iters[i0:]),), kind)
        finally:
            self._comp_depth -= 1
            self.env, self.locals = saved_env, saved_locals
            self.guards, self.iters = saved_g, saved_i

    def e_ListComp(self, n: ast.ListComp) -> Term:
        return self._comp(n, [n.elt], "list")

    def e_SetComp(self, n: ast.SetComp) -> Term:
        return self._comp(n, [n.elt], "set")

    def e_GeneratorExp(self, n: ast.GeneratorExp) -> Term:
        return self._comp(n, [n.elt], "gen")

    def e_DictComp(self, n: ast.DictComp) -> Term:
        return self._comp(n, [n.key, n.value], "dict")

    def e_Call(self, n: ast.Call, awaited: bool = False) -> Term:
        if isinstance(n.func, ast.Attribute) and n.func.attr == "keys" and isinstance(n.func.value, ast.Name) and n.func.value.id in self.dict_sets \
                and n.func.value.id in self.acc_ctx and not n.args and not n.keywords:
            return self.expr(n.func.value)         # the keys of a dict that is used as a set: the set
        f = self.expr(n.func)
        args: List[Term] = []
        for a in n.args:
            args.append(self.expr(a))
        kws = []
        for k in n.keywords:
            kv = self.expr(k.value)
            skv = T.strip(kv)
            if k.arg is None and skv[0] == "dict" and skv[1] and all(T.strip(kk)[0] == "const" and isinstance(T.strip(kk)[1], str) for kk, _v in skv[1]):
                kws += [(T.strip(kk)[1], v) for kk, v in skv[1]]          # **{'a': x, 'b': y} is a=x, b=y
                continue
            kws.append((k.arg if k.arg is not None else "**", kv))
        sf = T.strip(f)
        # map(f, xs) is the comprehension (f(x) for x in xs)
        if sf == T.glob("map") and len(args) == 2 and not kws:
            self.emit("call", ("call", f, tuple(args), ()), n, awaited=awaited)
            return ("bag", (("elem", ("call", args[0], (T.var("§m"),), ()), (), (("it", T.var("§m"), args[1]),)),), "gen")
        # aggregators over collections -> ('agg', name, bag)
        if sf[0] == "glob" and sf[1] in AGGREGATORS and args:
            items: List[Term] = []
            ok = True
            if len(args) == 1:
                sv = T.strip(args[0])
                if sv[0] == "bag":
                    items = list(sv[1])
                else:
                    ok = sf[1] not in ("min", "max")
                    items = [("elem", ("star", args[0]), (), ())]
            else:
                items = [("elem", a, (), ()) for a in args]
            if ok and sf[1] in ("min", "max", "any", "all", "sum"):
                t = ("agg", sf[1], ("bag", tuple(items), "args"), tuple(sorted(kws)))
                self.emit("call", ("call", f, tuple(args), tuple(sorted(kws))), n, awaited=awaited)
                return t
            if ok and sf[1] in ("list", "tuple", "set", "frozenset", "sorted") and len(args) == 1 and T.strip(args[0])[0] == "bag" and not kws:
                self.emit("call", ("call", f, tuple(args), ()), n, awaited=awaited)
                return ("bag", tuple(items), sf[1])
        t = ("call", f, tuple(args), tuple(sorted(kws)))
        self.emit("call", t, n, awaited=awaited)
        # accumulators
        if isinstance(n.func, ast.Attribute) and isinstance(n.func.value, ast.Name):
            nm, meth = n.func.value.id, n.func.attr
            if nm in self.acc_ctx and nm in self.dict_sets and meth == "setdefault" and len(args) == 2 and self._comp_depth == 0:
                cur = T.strip(self.env.get(nm, ("bag", (), "set")))
                if cur[0] == "bag":
                    g0, i0 = self.acc_ctx[nm]
                    self.env[nm] = ("bag", cur[1] + (("elem", args[0], self.guards[g0:], self.iters[i0:]),), cur[2])
            if nm in self.acc_ctx and meth in ACC_METHODS and len(args) == 1 and self._comp_depth == 0:
                cur = T.strip(self.env.get(nm, ("bag", (), "list")))
                if cur[0] == "bag":
                    g0, i0 = self.acc_ctx[nm]
                    if ACC_METHODS[meth] == "one":
                        new = (("elem", args[0], self.guards[g0:], self.iters[i0:]),)
                    else:
                        sv = T.strip(args[0])
                        if sv[0] == "bag":
                            new = tuple(("elem", e[1], self.guards[g0:] + e[2], self.iters[i0:] + e[3]) for e in sv[1])
                        else:
                            new = (("elem", ("star", args[0]), self.guards[g0:], self.iters[i0:]),)
                    self.env[nm] = ("bag", cur[1] + new, cur[2])
        return t

    # ------------------------------------------------------------------ targets / binding
    def target_term(self, t: ast.AST) -> Term:
        if isinstance(t, ast.Name):
            return T.var(t.id)
        if isinstance(t, (ast.Tuple, ast.List)):
            return ("tuple", tuple(self.target_term(e) for e in t.elts))
        if isinstance(t, ast.Starred):
            return ("star", self.target_term(t.value))
        return self.expr(t)

    def bind(self, name: str, value: Term, node: ast.AST) -> None:
        ev = self.emit("bind", ("bind", T.var(name), value), node)
        sv = T.strip(value)
        is_acc_init = (sv[0] == "bag" and (len(sv) < 3 or sv[2] in ("list", "set", "gen"))) or (sv[0] == "call" and sv[1][0] == "glob" and sv[1][1] in ("list", "set") and not sv[2])
        muts = self.mut.get(name, set()) & _MUTATORS
        if name in self.dict_sets and self._in_loop == 0 and (sv == ("dict", ()) or (sv[0] == "call" and sv[1] == ("glob", "dict"))):
            # a dict whose values carry no meaning: the (insertion-ordered) set of its keys
            self.acc_ctx[name] = (len(self.guards), len(self.iters))
            self.env[name] = ("bag", (), "set")
            return
        # `xs = list(ys)` that is extended later: a collection that starts with the elements of ys
        if (not is_acc_init and sv[0] == "call" and sv[1][0] == "glob" and sv[1][1] in ("list", "set") and len(sv[2]) == 1 and not sv[3]
                and muts and muts <= {"append", "add", "extend", "update", "<aug>"} and self._in_loop == 0):
            self.acc_ctx[name] = (len(self.guards), len(self.iters))
            self.env[name] = ("bag", (("elem", ("star", sv[2][0]), (), ()),), sv[1][1])
            return
        if is_acc_init and muts <= {"append", "add", "extend", "update", "<aug>"} and self._in_loop == 0:
            self.acc_ctx[name] = (len(self.guards), len(self.iters))
            kind = sv[2] if sv[0] == "bag" else sv[1][1]
            self.env[name] = ("bag", sv[1] if sv[0] == "bag" else (), kind)
            return
        self.acc_ctx.pop(name, None)
        self.dict_build.pop(name, None)
        if sv[0] == "dict" and muts == {"<setitem>"} and self._in_loop == 0 and name not in self.dict_sets and self._setitem_only_consts(name):
            self.dict_build[name] = (self.guards, self.iters)
            self.env[name] = ("let", name, ev.idx, value)
            return
        if muts - {"cancel", "set", "<setattr>"}:
            # a local object that is mutated through this name later on: keep the name opaque
            # (the bind event records what it was initialised from / aliases)
            self.env[name] = T.var(name)
            return
        if sv[0] == "call" and ((sv[1][0] == "attr" and sv[1][2] in _TAKERS) or (sv[1][0] == "glob" and sv[1][1].rsplit(".", 1)[-1] in _TAKERS)):
            # the value was *taken out* of a container: substituting the call would duplicate the effect
            self.env[name] = T.var(name)
            return
        self.env[name] = ("let", name, ev.idx, value)

    _in_loop = 0
    _tmp_counter = 0

    def _setitem_only_consts(self, name: str) -> bool:
        """Every modification of the local is `name[<constant>] = value` (no nested stores, deletes, method calls)."""
        for n in ast.walk(self.fi.node):
            if isinstance(n, ast.Subscript) and isinstance(n.ctx, (ast.Store, ast.Del)) and _root_name(n) == name:
                if not (isinstance(n.value, ast.Name) and isinstance(n.ctx, ast.Store) and isinstance(n.slice, ast.Constant)):
                    return False
            if isinstance(n, ast.Call) and isinstance(n.func, ast.Attribute) and _root_name(n.func.value) == name and n.func.attr in _MUTATORS:
                return False
        return True

    def assign_target(self, t: ast.AST, value: Term, node: ast.AST) -> None:
        if isinstance(t, ast.Name):
            self.bind(t.id, value, node)
        elif isinstance(t, (ast.Tuple, ast.List)):
            sv = T.strip(value)
            if sv[0] == "call" and ((sv[1][0] == "attr" and sv[1][2] in _TAKERS) or (sv[1][0] == "glob" and sv[1][1].rsplit(".", 1)[-1] in _TAKERS)):
                # unpacking something that was taken out of a container: name it once
                self._tmp_counter += 1
                tmp = f"$taken{self._tmp_counter}"
                self.emit("bind", ("bind", T.var(tmp), value), node)
                value = T.var(tmp)
                sv = value
            for i, e in enumerate(t.elts):
                if sv[0] == "tuple" and len(sv[1]) == len(t.elts) and not any(x[0] == "star" for x in sv[1]):
                    self.assign_target(e, value[1][i] if value[0] == "tuple" else sv[1][i], node)
                else:
                    self.assign_target(e, ("idx", value, T.const(i)), node)
        elif isinstance(t, ast.Starred):
            self.assign_target(t.value, ("unknown", "starred-target"), node)
        else:
            if isinstance(t, ast.Subscript) and isinstance(t.value, ast.Name) and t.value.id in self.dict_build:
                nm = t.value.id
                cur = T.strip(self.env.get(nm, T.var(nm)))
                key = self.expr(t.slice)
                if cur[0] == "dict" and self.dict_build[nm] == (self.guards, self.iters) and T.strip(key)[0] == "const" and not any(k == ("star2",) for k, _v in cur[1]):
                    # a local dict that is completed entry by entry before it is used: the display of all entries
                    pairs = tuple((k, v) for k, v in cur[1] if T.strip(k) != T.strip(key)) + ((T.strip(key), value),)
                    ev = self.emit("bind", ("bind", T.var(nm), ("dict", pairs)), node)
                    self.env[nm] = ("let", nm, ev.idx, ("dict", pairs))
                    return
                self.dict_build.pop(nm, None)
                self.env[nm] = T.var(nm)
            if isinstance(t, ast.Subscript) and isinstance(t.value, ast.Name) and t.value.id in self.dict_sets and t.value.id in self.acc_ctx and self._comp_depth == 0:
                nm = t.value.id
                cur = T.strip(self.env.get(nm, ("bag", (), "set")))
                if cur[0] == "bag":
                    g0, i0 = self.acc_ctx[nm]
                    self.env[nm] = ("bag", cur[1] + (("elem", self.expr(t.slice), self.guards[g0:], self.iters[i0:]),), cur[2])
                    return
            tgt = self.expr(t)
            self.emit("store", ("store", tgt, value), node)

    # ------------------------------------------------------------------ statements
    def block(self, body: Sequence[ast.stmt]) -> bool:
        """Walk a statement list; return True if control cannot fall out of its end."""
        for st in body:
            if self.stmt(st):
                return True
        return False

    def stmt(self, st: ast.stmt) -> bool:
        self.cur_stmt = st
        m = getattr(self, "s_" + type(st).__name__, None)
        if m is None:
            self.unknowns.append(f"statement {type(st).__name__} at line {st.lineno}")
            return False
        return bool(m(st))

    def s_Expr(self, st: ast.Expr):
        self.expr(st.value)

    def s_Pass(self, st):
        pass

    def s_Global(self, st):
        pass

    s_Nonlocal = s_Global

    def s_Import(self, st):
        for a in st.names:
            nm = (a.asname or a.name).split(".")[0]
            self.env[nm] = T.glob(a.name if a.asname else a.name.split(".")[0])

    def s_ImportFrom(self, st):
        for a in st.names:
            self.env[a.asname or a.name] = T.glob(f"{st.module}.{a.name}")

    def s_Assign(self, st: ast.Assign):
        v = self.expr(st.value)
        for t in st.targets:
            self.cur_stmt = st
            self.assign_target(t, v, st)

    def s_AnnAssign(self, st: ast.AnnAssign):
        if st.value is not None:
            v = self.expr(st.value)
            self.assign_target(st.target, v, st)

    def s_AugAssign(self, st: ast.AugAssign):
        v = self.expr(st.value)
        op = _BIN.get(type(st.op), "?")
        if isinstance(st.target, ast.Name):
            nm = st.target.id
            cur = self.name(ast.Name(id=nm, ctx=ast.Load()))
            sc, sv = T.strip(cur), T.strip(v)
            if nm in self.acc_ctx and op == "+" and sc[0] == "bag" and (sv[0] == "bag" or (sv[0] == "call" and (len(sc) < 3 or sc[2] == "list"))):
                # `xs += ys` on a list accumulator is `xs.extend(ys)`: the elements of a collection display, or all of another collection
                g0, i0 = self.acc_ctx[nm]
                if sv[0] == "bag":
                    new = tuple(("elem", e[1], self.guards[g0:] + e[2], self.iters[i0:] + e[3]) for e in sv[1])
                else:
                    new = (("elem", ("star", v), self.guards[g0:], self.iters[i0:]),)
                self.env[nm] = ("bag", sc[1] + new, sc[2])
                self.emit("bind", ("bind", T.var(nm), self.env[nm]), st)
                return
            self.acc_ctx.pop(nm, None)
            ev = self.emit("bind", ("bind", T.var(nm), ("op", op, cur, v)), st, aug=True)
            if self._in_loop:
                self.env[nm] = T.var(nm)
            else:
                self.env[nm] = ("let", nm, ev.idx, ("op", op, cur, v))
        else:
            tgt = self.expr(st.target)
            self.emit("store", ("store", tgt, ("op", op, tgt, v)), st, aug=True)

    def s_Delete(self, st: ast.Delete):
        for t in st.targets:
            if isinstance(t, ast.Name):
                self.env.pop(t.id, None)
            else:
                self.emit("del", ("del", self.expr(t)), st)

    def s_Return(self, st: ast.Return):
        v = self.expr(st.value)
        self.returns.append(self.emit("return", v, st))
        return True

    def s_Raise(self, st: ast.Raise):
        v = self.expr(st.exc) if st.exc is not None else ("reraise",)
        self.emit("raise", v, st)
        return True

    def s_Assert(self, st: ast.Assert):
        t = self.expr(st.test)
        msg = self.expr(st.msg) if st.msg is not None else T.NONE
        self.emit("assert", ("assert", t, msg), st)
        if T.strip(t) == T.const(False):
            return True
        self.guards = self.guards + (("g", t, True),)

    def s_Break(self, st):
        return True

    def s_Continue(self, st):
        return True

    def s_FunctionDef(self, st):
        self.env[st.name] = T.glob(f"{self.fi.qualname}.{st.name}")

    s_AsyncFunctionDef = s_FunctionDef

    def s_ClassDef(self, st):
        self.env[st.name] = T.glob(f"{self.fi.qualname}.{st.name}")

    def _merge(self, cond: Term, e1: Dict[str, Term], e2: Dict[str, Term],
               grown: Sequence[str] = ()) -> Dict[str, Term]:
        out: Dict[str, Term] = {}
        for k in set(e1) | set(e2):
            a = e1.get(k, T.var(k))
            b = e2.get(k, T.var(k))
            if T.strip(a) == T.strip(b):
                out[k] = a
            else:
                sa, sb = T.strip(a), T.strip(b)
                if sa[0] == "bag" and sb[0] == "bag" and k in grown:
                    # an accumulator that existed before the branch: the elements appended
                    # inside the branches already carry the branch guard
                    n = 0
                    while n < len(sa[1]) and n < len(sb[1]) and sa[1][n] == sb[1][n]:
                        n += 1
                    out[k] = ("bag", sa[1] + sb[1][n:], sa[2])
                elif sa[0] == "bag" and sb[0] == "bag":
                    # guarded union of two collections (common prefix stays unguarded)
                    n = 0
                    while n < len(sa[1]) and n < len(sb[1]) and sa[1][n] == sb[1][n]:
                        n += 1
                    g1, g0 = ("g", cond, True), ("g", cond, False)
                    out[k] = ("bag", sa[1][:n]
                              + tuple(("elem", e[1], (g1,) + e[2], e[3]) for e in sa[1][n:])
                              + tuple(("elem", e[1], (g0,) + e[2], e[3]) for e in sb[1][n:]), sa[2])
                else:
                    out[k] = ("phi", cond, a, b)
        return out

    def s_If(self, st: ast.If):
        # `if k not in d: d[k] = v` is `d.setdefault(k, v)`
        if (not st.orelse and len(st.body) == 1 and isinstance(st.body[0], ast.Assign) and len(st.body[0].targets) == 1
                and isinstance(st.test, ast.Compare) and len(st.test.ops) == 1 and isinstance(st.test.ops[0], ast.NotIn)
                and isinstance(st.body[0].targets[0], ast.Subscript)):
            tg = st.body[0].targets[0]
            if ast.dump(tg.value) == ast.dump(st.test.comparators[0]).replace("ctx=Store()", "ctx=Load()") and ast.dump(tg.slice) == ast.dump(st.test.left) \
                    and not any(isinstance(n, (ast.Await, ast.Call, ast.NamedExpr)) for n in ast.walk(st.body[0].value)):
                callx = ast.Call(func=ast.Attribute(value=st.test.comparators[0], attr="setdefault", ctx=ast.Load()), args=[st.test.left, st.body[0].value], keywords=[])
                ex = ast.Expr(value=callx)
                for n in (callx, callx.func, ex):
                    ast.copy_location(n, st.body[0])
                return self.s_Expr(ex)
        c = self.expr(st.test)
        sc = T.fuse(T.strip(c))
        if sc[0] == "const" and not isinstance(st.test, ast.Constant):
            # a named constant (a module-level switch introduced later): only the live branch exists
            return self.block(st.body if sc[1] else st.orelse)
        self.emit("test", c, st.test)
        saved_env, saved_g, saved_acc = dict(self.env), self.guards, dict(self.acc_ctx)
        self.guards = saved_g + (("g", c, True),)
        t1 = self.block(st.body)
        env1, acc1 = self.env, self.acc_ctx
        self.env, self.acc_ctx = dict(saved_env), dict(saved_acc)
        self.guards = saved_g + (("g", c, False),)
        t2 = self.block(st.orelse)
        env2, acc2 = self.env, self.acc_ctx
        self.guards = saved_g
        if t1 and t2:
            self.env = saved_env
            return True
        if t1:
            self.env, self.acc_ctx = env2, acc2
            self.guards = saved_g + (("g", c, False),)
        elif t2:
            self.env, self.acc_ctx = env1, acc1
            self.guards = saved_g + (("g", c, True),)
        else:
            grown = [k for k, v in saved_acc.items() if acc1.get(k) == v and acc2.get(k) == v]
            self.env = self._merge(c, env1, env2, grown)
            self.acc_ctx = {k: v for k, v in acc1.items() if k in acc2}
        return False

    def _loop_prologue(self, body: Sequence[ast.stmt], orelse: Sequence[ast.stmt]) -> Set[str]:
        assigned: Set[str] = set()
        for s in list(body) + list(orelse):
            for n in ast.walk(s):
                if isinstance(n, ast.Name) and isinstance(n.ctx, ast.Store):
                    assigned.add(n.id)
                elif isinstance(n, ast.AugAssign) and isinstance(n.target, ast.Name):
                    assigned.add(n.target.id)
        # loop-carried locals become opaque inside (and after) the loop
        for nm in assigned:
            if nm in self.env and nm not in self.acc_ctx:
                self.env[nm] = T.var(nm)
            elif nm in self.acc_ctx and (self.mut.get(nm, set()) - {"append", "add", "extend", "update", "<aug>"}):
                self.env[nm] = T.var(nm)
        return assigned

    def s_For(self, st: ast.For):
        it = self.expr(st.iter)
        sv = T.strip(it)
        if (isinstance(st, ast.For) and not st.orelse and sv[0] == "tuple" and len(sv) == 2 and 1 <= len(sv[1]) <= 8
                and not any(T.is_term(x) and x[0] == "star" for x in sv[1]) and not _exits_loop(st.body)):
            # a loop over a display of known length: the body, once per element
            for x in sv[1]:
                self.assign_target(st.target, x, st)
                if self.block(st.body):
                    return True
            return False
        red = self._reduction(st, it)
        if red is not None:
            return False
        # `for x in xs: if p(x): raise E` (E does not mention x) is `if any(p(x) for x in xs): raise E`
        if (isinstance(st, ast.For) and not st.orelse and len(st.body) == 1 and isinstance(st.body[0], ast.If) and not st.body[0].orelse
                and len(st.body[0].body) == 1 and isinstance(st.body[0].body[0], ast.Raise)):
            tnames = {n.id for n in ast.walk(st.target) if isinstance(n, ast.Name)}
            rs = st.body[0].body[0]
            if not any(isinstance(n, ast.Name) and n.id in tnames for n in ast.walk(rs)) and not any(isinstance(n, (ast.Await, ast.NamedExpr)) for n in ast.walk(st.body[0].test)):
                gen = ast.GeneratorExp(elt=st.body[0].test, generators=[ast.comprehension(target=st.target, iter=st.iter, ifs=[], is_async=0)])
                test = ast.Call(func=ast.Name(id="any", ctx=ast.Load()), args=[gen], keywords=[])
                iff = ast.If(test=test, body=[rs], orelse=[])
                for n in (gen, test, test.func, iff):
                    ast.copy_location(n, st)
                ast.copy_location(test, st.body[0].test)
                ast.copy_location(gen, st.body[0].test)
                return self.s_If(iff)
        self.emit("test", ("iter", it), st.iter)
        assigned = self._loop_prologue(st.body, st.orelse)
        saved_g, saved_i = self.guards, self.iters
        tgt = self.target_term(st.target)
        for nm in T.free_vars(tgt):
            self.env.pop(nm, None)
        self.iters = saved_i + (("it", tgt, it),)
        self._in_loop += 1
        self.block(st.body)
        self._in_loop -= 1
        self.guards, self.iters = saved_g, saved_i
        for nm in assigned:
            if nm not in self.acc_ctx:
                self.env[nm] = T.var(nm)
        for nm in T.free_vars(tgt):
            self.env[nm] = T.var(nm)
        if st.orelse:
            # the else block of a loop runs only when the loop was not left by `break`: a condition of its own (what the search
            # in the body was looking for has not been found)
            has_break = False
            todo = list(st.body)
            while todo:
                x = todo.pop()
                if isinstance(x, ast.Break):
                    has_break = True
                    break
                if isinstance(x, (ast.For, ast.AsyncFor, ast.While, ast.FunctionDef, ast.AsyncFunctionDef, ast.Lambda, ast.ClassDef)):
                    continue
                todo.extend(ast.iter_child_nodes(x))
            if has_break:
                saved_g2 = self.guards
                self.guards = saved_g2 + (("g", ("unknown", f"loop at line {st.lineno} ended without break"), True),)
                self.block(st.orelse)
                self.guards = saved_g2
            else:
                self.block(st.orelse)
        return False

    def _reduction(self, st: ast.For, it: Term) -> Optional[bool]:
        """`m = None; for x in xs: if p(x) and (m is None or x > m): m = x` is `m = max((x for x in xs if p(x)),
        default=None)` (likewise min with <): the explicit loop is read as the aggregate it computes."""
        if not isinstance(st, ast.For) or st.orelse or len(st.body) != 1 or not isinstance(st.body[0], ast.If) or not isinstance(st.target, ast.Name):
            return None
        iff = st.body[0]
        if iff.orelse or len(iff.body) != 1 or not isinstance(iff.body[0], ast.Assign) or len(iff.body[0].targets) != 1:
            return None
        asg = iff.body[0]
        if not (isinstance(asg.targets[0], ast.Name) and isinstance(asg.value, ast.Name) and asg.value.id == st.target.id):
            return None
        m, x = asg.targets[0].id, st.target.id
        if T.strip(self.env.get(m, T.var(m))) != T.NONE or m == x:
            return None
        conds = list(iff.test.values) if isinstance(iff.test, ast.BoolOp) and isinstance(iff.test.op, ast.And) else [iff.test]
        kind = None
        rest = []
        for cnd in conds:
            k2 = None
            if isinstance(cnd, ast.BoolOp) and isinstance(cnd.op, ast.Or) and len(cnd.values) == 2:
                a, b = cnd.values
                isnone = lambda n: isinstance(n, ast.Compare) and len(n.ops) == 1 and isinstance(n.ops[0], ast.Is) and isinstance(n.left, ast.Name) and n.left.id == m \
                    and isinstance(n.comparators[0], ast.Constant) and n.comparators[0].value is None  # noqa: E731
                if isnone(b):
                    a, b = b, a
                if isnone(a) and isinstance(b, ast.Compare) and len(b.ops) == 1 and isinstance(b.left, ast.Name) and isinstance(b.comparators[0], ast.Name):
                    l, r, op = b.left.id, b.comparators[0].id, b.ops[0]
                    if (l, r) == (x, m):
                        k2 = "max" if isinstance(op, (ast.Gt, ast.GtE)) else "min" if isinstance(op, (ast.Lt, ast.LtE)) else None
                    elif (l, r) == (m, x):
                        k2 = "max" if isinstance(op, (ast.Lt, ast.LtE)) else "min" if isinstance(op, (ast.Gt, ast.GtE)) else None
            if k2 is not None and kind is None:
                kind = k2
            else:
                if any(isinstance(n, ast.Name) and n.id == m for n in ast.walk(cnd)):
                    return None
                rest.append(cnd)
        if kind is None:
            return None
        xv = T.var(x)
        saved_env = self.env.get(x)
        self.env.pop(x, None)
        saved_g, saved_i = self.guards, self.iters
        self.iters = saved_i + (("it", xv, it),)
        self._comp_depth += 1            # the tests are part of the aggregate, not events of their own
        n0 = len(self.events)
        gs = tuple(("g", self.expr(cnd), True) for cnd in rest)
        del self.events[n0:]
        self._comp_depth -= 1
        self.guards, self.iters = saved_g, saved_i
        if saved_env is not None:
            self.env[x] = saved_env
        else:
            self.env[x] = xv
        agg = ("agg", kind, ("bag", (("elem", xv, gs, (("it", xv, it),)),), "args"), (("default", T.NONE),))
        self.bind(m, agg, st)
        return True

    s_AsyncFor = s_For

    def s_While(self, st: ast.While):
        assigned = self._loop_prologue(st.body, st.orelse)
        c = self.expr(st.test)
        self.emit("test", c, st.test)
        saved_g, saved_i = self.guards, self.iters
        self.guards = saved_g + (("g", c, True),)
        self.iters = saved_i + (("it", ("while",), c),)
        self._in_loop += 1
        self.block(st.body)
        self._in_loop -= 1
        self.guards, self.iters = saved_g, saved_i
        for nm in assigned:
            if nm not in self.acc_ctx:
                self.env[nm] = T.var(nm)
        infinite = T.strip(c) == T.const(True)
        has_break = any(isinstance(n, ast.Break) for s in st.body for n in ast.walk(s))
        if st.orelse:
            self.block(st.orelse)
        if infinite and not has_break:
            return True
        if not infinite:
            self.guards = self.guards + (("g", c, False),) if not has_break else self.guards
        return False

    def s_With(self, st: ast.With):
        suppress = False
        for item in st.items:
            v = self.expr(item.context_expr)
            sv = T.strip(v)
            if sv[0] == "call" and sv[1][0] == "glob" and sv[1][1] in ("contextlib.suppress", "suppress"):
                suppress = True
            if item.optional_vars is not None:
                self.assign_target(item.optional_vars, ("enter", v), st)
        if suppress:
            # `with suppress(E): body` == `try: body except E: pass`
            self._try_counter += 1
            saved = self.tries
            self.tries = saved + ((self._try_counter, "body"),)
            saved_env = dict(self.env)
            self.block(st.body)
            self.tries = saved
            self.env = self._merge(("unknown", "try-merge"), self.env, saved_env)
            return False
        return self.block(st.body)

    s_AsyncWith = s_With

    def s_Try(self, st: ast.Try):
        # `try: x = d[k] except KeyError: H` (nothing else in the body) is `if k not in d: H else: x = d[k]`
        if (len(st.body) == 1 and isinstance(st.body[0], ast.Assign) and isinstance(st.body[0].value, ast.Subscript) and not st.orelse and not st.finalbody
                and len(st.handlers) == 1 and isinstance(st.handlers[0].type, ast.Name) and st.handlers[0].type.id == "KeyError" and st.handlers[0].name is None):
            sub = st.body[0].value
            base = sub.value
            while isinstance(base, ast.Attribute):
                base = base.value
            if isinstance(base, ast.Name) and isinstance(sub.slice, (ast.Constant, ast.Name)) and all(isinstance(t, ast.Name) for t in st.body[0].targets):
                test = ast.Compare(left=sub.slice, ops=[ast.NotIn()], comparators=[sub.value])
                iff = ast.If(test=test, body=st.handlers[0].body, orelse=[st.body[0]])
                ast.copy_location(test, sub)
                ast.copy_location(iff, st)
                return self.s_If(iff)
        self._try_counter += 1
        tid = self._try_counter
        saved_tries = self.tries
        saved_env = dict(self.env)
        assigned: Set[str] = set()
        for s in st.body:
            for n in ast.walk(s):
                if isinstance(n, ast.Name) and isinstance(n.ctx, ast.Store):
                    assigned.add(n.id)
        self.tries = saved_tries + ((tid, "body"),)
        saved_g = self.guards
        t_body = self.block(st.body)
        g_body = self.guards
        if st.orelse and not t_body:
            self.tries = saved_tries + ((tid, "else"),)
            t_body = self.block(st.orelse)
            g_body = self.guards
        env_body = self.env
        ends = [] if t_body else [env_body]
        for h in st.handlers:
            self.env = dict(saved_env)
            for nm in assigned:
                if nm in self.env or nm in env_body:
                    self.env[nm] = T.var(nm)
            if h.name:
                self.env[h.name] = T.var(h.name)
            self.guards = saved_g
            htype = self.expr(h.type) if h.type is not None else T.const("BaseException")
            self.tries = saved_tries + ((tid, "handler"),)
            self.cur_stmt = h
            self.emit("test", ("except", htype), h)
            if not self.block(h.body):
                ends.append(self.env)
        self.tries = saved_tries
        if (st.handlers and len(ends) > 1) and not t_body:
            # control arrives here from the end of the body or from a handler: what the body
            # established (negated early-exit tests) holds on the no-exception path only
            extra = g_body[len(saved_g):]
            self.guards = saved_g + tuple(("g", ("or", (("not", ("unknown", "try-merge")), T.guard_term(g))), True) for g in extra)
        else:
            self.guards = saved_g if t_body else g_body
        if ends:
            env = ends[0]
            for e2 in ends[1:]:
                env = self._merge(("unknown", "try-merge"), env, e2)
            self.env = env
        else:
            self.env = env_body
        term = not ends
        if st.finalbody:
            self.tries = saved_tries + ((tid, "finally"),)
            tf = self.block(st.finalbody)
            self.tries = saved_tries
            term = term or tf
        return term

    s_TryStar = s_Try

    def s_Match(self, st):
        self.unknowns.append(f"match statement at line {st.lineno}")


def _set_tables(prog: Program) -> None:
    """Make the package's value classes and unambiguous keyword defaults known to the term normaliser."""
    if getattr(prog, "_tables_set", False) and T.RECORDS is prog.records():
        return
    T.RECORDS = prog.records()
    by_name: Dict[str, List[FuncInfo]] = {}
    for f in prog.all_functions():
        if not isinstance(f.node, ast.Lambda):
            by_name.setdefault(f.name, []).append(f)
    d: Dict[str, Dict[str, Any]] = {}
    for nm, fs in by_name.items():
        tabs = []
        for f in fs:
            a = f.node.args
            names = [x.arg for x in a.posonlyargs + a.args]
            tab = {n: dv.value for n, dv in zip(names[len(names) - len(a.defaults):], a.defaults) if isinstance(dv, ast.Constant)}
            tab.update({x.arg: dv.value for x, dv in zip(a.kwonlyargs, a.kw_defaults) if isinstance(dv, ast.Constant)})
            tabs.append(tab)
        common = {k: v for k, v in tabs[0].items() if all(k in t and t[k] == v and type(t[k]) is type(v) for t in tabs[1:])}
        if common:
            d[nm] = common
    T.DEFAULTS = d
    pd: Dict[str, Tuple[Any, ...]] = {}
    for f in prog.all_functions():
        if isinstance(f.node, ast.Lambda) or f.cls is not None or f.node.args.vararg is not None:
            continue
        a = f.node.args
        names = [x.arg for x in a.posonlyargs + a.args]
        dv = [T._NO_DEFAULT] * len(names)
        for i, dflt in enumerate(a.defaults):
            if isinstance(dflt, ast.Constant):
                dv[len(names) - len(a.defaults) + i] = dflt.value
        if any(x is not T._NO_DEFAULT for x in dv):
            pd[f.qualname] = tuple(dv)
    T.POS_DEFAULTS = pd
    # module-level lookup tables: displays with constant keys whose values are names, never modified afterwards
    tabs: Dict[str, Dict[Any, Term]] = {}
    stored_attrs = set()
    for m in prog.modules.values():
        for n in ast.walk(m.tree):
            if isinstance(n, ast.Attribute) and isinstance(n.ctx, (ast.Store, ast.Del)):
                stored_attrs.add(n.attr)
    for m in prog.modules.values():
        touched = set()
        counts: Dict[str, int] = {}
        for n in ast.walk(m.tree):
            if isinstance(n, ast.Name) and isinstance(n.ctx, (ast.Store, ast.Del)):
                counts[n.id] = counts.get(n.id, 0) + 1
            if isinstance(n, (ast.Subscript, ast.Attribute)) and isinstance(n.ctx, (ast.Store, ast.Del)):
                r = _root_name(n)
                if r:
                    touched.add(r)
            if isinstance(n, ast.Call) and isinstance(n.func, ast.Attribute) and n.func.attr in _MUTATORS:
                r = _root_name(n.func.value)
                if r:
                    touched.add(r)
        for nm, v in m.globals_assigned.items():
            if nm in touched or counts.get(nm, 0) != 1 or True:
                continue        # (superseded by the named literals below)
            if isinstance(v, ast.Dict) and v.keys and all(isinstance(k, ast.Constant) for k in v.keys):
                pairs = [(k.value, x) for k, x in zip(v.keys, v.values)]      # type: ignore[union-attr]
            elif isinstance(v, (ast.Tuple, ast.List)) and v.elts:
                pairs = list(enumerate(v.elts))
            else:
                continue
            tab: Dict[Any, Term] = {}
            for k, x in pairs:
                d2 = dotted(x)
                if isinstance(x, ast.Constant):
                    tab[k] = T.const(x.value)
                elif d2 is not None and (lambda q: (not q.startswith(prog.package + ".") and "." in q) or ((q in prog.functions or q in prog.classes) and q.rsplit(".", 1)[-1] not in stored_attrs))(prog.resolve_name(m, d2)):
                    # a function of another library, or a package function / class that nothing re-assigns
                    tab[k] = T.glob(prog.resolve_name(m, d2))
                else:
                    tab = {}
                    break
            if tab:
                tabs[f"{m.name}.{nm}"] = tab
    T.CONST_TABLES = tabs
    # module-level constants introduced after the pinned tree (named literals): read as their value
    known_g = known_globals()
    vals: Dict[str, Term] = {}
    for m in prog.modules.values():
        touched, counts = set(), {}
        for n in ast.walk(m.tree):
            if isinstance(n, ast.Name) and isinstance(n.ctx, (ast.Store, ast.Del)):
                counts[n.id] = counts.get(n.id, 0) + 1
            if isinstance(n, (ast.Subscript, ast.Attribute)) and isinstance(n.ctx, (ast.Store, ast.Del)):
                r = _root_name(n)
                if r:
                    touched.add(r)
            if isinstance(n, ast.Call) and isinstance(n.func, ast.Attribute) and n.func.attr in _MUTATORS:
                r = _root_name(n.func.value)
                if r:
                    touched.add(r)
            if isinstance(n, ast.Global):
                touched.update(n.names)
        for nm, v in m.globals_assigned.items():
            q = f"{m.name}.{nm}"
            if q in known_g or nm in touched or counts.get(nm, 0) != 1 or nm.startswith("__"):
                continue
            lt = _literal_term(prog, m, v, stored_attrs, 0, vals)
            if lt is not None:
                vals[q] = lt
    T.CONST_VALUES = vals
    # module-private sentinels: `X = object()`, loaded only by `return X` and identity comparisons in its own module
    sent: Dict[str, frozenset] = {}
    for m in prog.modules.values():
        cands = {nm for nm, v in m.globals_assigned.items() if isinstance(v, ast.Call) and isinstance(v.func, ast.Name) and v.func.id == "object" and not v.args and not v.keywords}
        if not cands:
            continue
        for nm in list(cands):
            for m2 in prog.modules.values():
                if m2 is not m and (nm in m2.imports or any(isinstance(n, ast.Attribute) and n.attr == nm for n in ast.walk(m2.tree))):
                    cands.discard(nm)
        parents: Dict[int, ast.AST] = {}
        for n in ast.walk(m.tree):
            for ch in ast.iter_child_nodes(n):
                parents[id(ch)] = n
        returners: Dict[str, set] = {nm: set() for nm in cands}
        for n in ast.walk(m.tree):
            if isinstance(n, ast.Name) and n.id in cands:
                par = parents.get(id(n))
                if isinstance(n.ctx, ast.Store):
                    if not (isinstance(par, (ast.Assign, ast.AnnAssign)) and parents.get(id(par)) is m.tree):
                        cands.discard(n.id)
                elif isinstance(par, ast.Return):
                    f = par
                    while f is not None and not isinstance(f, (ast.FunctionDef, ast.AsyncFunctionDef)):
                        f = parents.get(id(f))
                    fi2 = prog.func_of_node.get(id(f)) if f is not None else None
                    if fi2 is None:
                        cands.discard(n.id)
                    else:
                        returners[n.id].add(fi2.qualname)
                elif isinstance(par, ast.Compare) and all(isinstance(o, (ast.Is, ast.IsNot)) for o in par.ops):
                    pass
                else:
                    cands.discard(n.id)
        for nm in cands:
            sent[f"{m.name}.{nm}"] = frozenset(returners[nm])
    T.SENTINELS = sent
    prog._tables_set = True  # type: ignore[attr-defined]


_KNOWN_G: Optional[Set[str]] = None


def known_globals() -> Set[str]:
    global _KNOWN_G
    if _KNOWN_G is None:
        import os
        path = os.path.join(os.path.dirname(os.path.abspath(__file__)), "known_globals.txt")
        _KNOWN_G = {l.strip() for l in open(path) if l.strip() and not l.startswith("#")}
    return _KNOWN_G


def _literal_term(prog: Program, m: Any, v: ast.AST, stored_attrs: Set[str], depth: int = 0, vals: Optional[Dict[str, Term]] = None) -> Optional[Term]:
    """The term of a literal: constants, displays of literals (tuples, lists, dicts with constant keys), value-class
    constructors and empty collections, names of functions / classes that nothing re-assigns, other named literals."""
    if depth > 5:
        return None
    rec = lambda x: _literal_term(prog, m, x, stored_attrs, depth + 1, vals)  # noqa: E731
    if isinstance(v, ast.Constant):
        return T.const(v.value)
    if isinstance(v, ast.UnaryOp) and isinstance(v.op, ast.USub) and isinstance(v.operand, ast.Constant) and isinstance(v.operand.value, (int, float)):
        return T.const(-v.operand.value)
    if isinstance(v, (ast.Tuple, ast.List)):
        parts = [rec(x) for x in v.elts]
        if any(x is None for x in parts):
            return None
        if isinstance(v, ast.Tuple):
            return ("tuple", tuple(parts))
        return ("bag", tuple(("elem", x, (), ()) for x in parts), "list")
    if isinstance(v, ast.Dict):
        if not v.keys or not all(isinstance(k, ast.Constant) for k in v.keys):
            return None
        vs = [rec(x) for x in v.values]
        if any(x is None for x in vs):
            return None
        return ("dict", tuple((T.const(k.value), x) for k, x in zip(v.keys, vs)))      # type: ignore[union-attr]
    if isinstance(v, ast.Call):
        d = dotted(v.func)
        if d is None:
            return None
        q = prog.resolve_name(m, d)
        if q in prog.records() or (q in ("frozenset", "set", "dict", "list", "tuple") and not v.args and not v.keywords):
            args = [rec(x) for x in v.args]
            kws = [(k.arg, rec(k.value)) for k in v.keywords]
            if any(x is None for x in args) or any(k is None or x is None for k, x in kws):
                return None
            return ("call", T.glob(q), tuple(args), tuple(sorted(kws)))
        return None
    d2 = dotted(v)
    if d2 is not None:
        q = prog.resolve_name(m, d2)
        if vals is not None and q in vals:
            return vals[q]
        if (not q.startswith(prog.package + ".") and "." in q) or ((q in prog.functions or q in prog.classes) and q.rsplit(".", 1)[-1] not in stored_attrs):
            return T.glob(q)
    return None


def summarise(prog: Program, fi: FuncInfo) -> Summary:
    cached = getattr(fi, "_summary", None)
    if cached is not None:
        return cached
    _set_tables(prog)
    w = Walker(prog, fi)
    if isinstance(fi.node, ast.Lambda):
        w.returns.append(w.emit("return", w.expr(fi.node.body), fi.node))
    else:
        w.block(fi.node.body)
    events = get_as_index(alias_fields(stored_takes(fuse_events(w.events))))
    if fi.cls is not None and fi.params and fi.name != "__init__" and not isinstance(fi.node, ast.Lambda):
        df = derived_fields(prog, fi.cls)
        if df:
            me = T.var(fi.params[0])
            m = {("attr", me, f): T.replace(v, {T.var("§self"): me}) for f, v in df.items()}
            if any(T.contains((e.term, e.guards, e.iters), k) for e in events for k in m):
                events = [Event(e.idx, e.kind, T.replace(e.term, m), replace_stripped(e.raw, m), e.node, e.stmt, T.replace(e.guards, m), T.replace(e.iters, m), e.tries, e.awaited, e.extra) for e in events]
    s = Summary(fi, events, [e for e in events if e.kind == "return"], w.env, w.locals, w.unknowns)
    fi._summary = s  # type: ignore[attr-defined]
    try:
        s2 = cold_cache(prog, fi, s)
    except RecursionError:
        s2 = s
    if s2 is not s:
        fi._summary = s2  # type: ignore[attr-defined]
    return fi._summary  # type: ignore[attr-defined]


_KNOWN_PARAMS: Optional[Dict[str, List[str]]] = None


def unused_new_params(prog: Program, fi: FuncInfo) -> Dict[str, Any]:
    """Parameters of a function of the pinned tree that did not exist there, have a constant default, and are not
    passed by any call in the package: {name: default}.  (What mosaik does is what the function does for them.)"""
    global _KNOWN_PARAMS
    if isinstance(fi.node, ast.Lambda):
        return {}
    if _KNOWN_PARAMS is None:
        from . import renames
        inv = renames.load_inventory() or {"functions": {}}
        _KNOWN_PARAMS = {q: d["params"] for q, d in inv["functions"].items() if "params" in d}
    old = _KNOWN_PARAMS.get(fi.qualname)
    if old is None:
        return {}
    a = fi.node.args
    pos = [x.arg for x in a.posonlyargs + a.args]
    defaults: Dict[str, Any] = {}
    for nm, d in zip(pos[len(pos) - len(a.defaults):], a.defaults):
        if isinstance(d, ast.Constant):
            defaults[nm] = d.value
    for x, d in zip(a.kwonlyargs, a.kw_defaults):
        if isinstance(d, ast.Constant):
            defaults[x.arg] = d.value
    new = {n: v for n, v in defaults.items() if n not in old}
    if not new:
        return {}
    sites = getattr(prog, "_call_sites", None)
    if sites is None:
        sites = {}
        for m in prog.modules.values():
            for n in ast.walk(m.tree):
                if isinstance(n, ast.Call):
                    nm = n.func.attr if isinstance(n.func, ast.Attribute) else n.func.id if isinstance(n.func, ast.Name) else None
                    if nm is not None:
                        sites.setdefault(nm, []).append(n)
        prog._call_sites = sites  # type: ignore[attr-defined]
    out = {}
    skip = 1 if fi.cls is not None and "staticmethod" not in fi.decorators else 0
    for pn, dv in new.items():
        used = False
        for c in sites.get(fi.name, []) + (sites.get(fi.cls.name, []) if fi.cls is not None and fi.name == "__init__" else []):
            if any(k.arg == pn or k.arg is None for k in c.keywords) or any(isinstance(x, ast.Starred) for x in c.args):
                used = True
            if pn in pos and len(c.args) > pos.index(pn) - skip:
                used = True
        if not used:
            out[pn] = dv
    return out


_KNOWN_FIELDS: Optional[Dict[str, Set[str]]] = None


def known_fields() -> Dict[str, Set[str]]:
    global _KNOWN_FIELDS
    if _KNOWN_FIELDS is None:
        from . import renames
        inv = renames.load_inventory() or {"fields": {}}
        _KNOWN_FIELDS = {c: set(fs) for c, fs in inv["fields"].items()}
    return _KNOWN_FIELDS


def _init_stores(s: Summary, me: Term) -> List[Tuple[str, Term, Event]]:
    """(field, value, event) of the assignments to fields of `me` in a constructor: `self.f = v` and
    `object.__setattr__(self, "f", v)`."""
    out = []
    for e in s.events:
        if e.kind == "store" and e.term[1][0] == "attr" and e.term[1][1] == me:
            out.append((e.term[1][2], T.strip(e.term[2]), e))
        elif e.kind == "call" and e.term[1] == ("attr", ("glob", "object"), "__setattr__") and len(e.term[2]) == 3 and e.term[2][0] == me and e.term[2][1][0] == "const":
            out.append((e.term[2][1][1], T.strip(e.term[2][2]), e))
    return out


def derived_fields(prog: Program, ci: Any) -> Dict[str, Term]:
    """Fields that a later change added to a class to remember a value that is computed once, in the constructor,
    from what the constructor stores in fields that never change afterwards (a memoised property): field ->
    its value as an expression over the other fields of `§self`."""
    cached = getattr(ci, "_derived", None)
    if cached is not None:
        return cached
    ci._derived = {}
    init = ci.methods.get("__init__")
    if init is None or not init.params:
        return {}
    me = T.var(init.params[0])
    s = summarise(prog, init)
    stores = _init_stores(s, me)
    known = known_fields().get(ci.qualname)
    if known is None:
        return {}

    def written_elsewhere(f: str) -> bool:
        for f2 in prog.all_functions():
            if f2 is init or isinstance(f2.node, ast.Lambda):
                continue
            for n in ast.walk(f2.node):
                if isinstance(n, ast.Attribute) and n.attr == f and isinstance(n.ctx, (ast.Store, ast.Del)):
                    return True
                # ... or changed in place (an entry assigned / deleted, a mutating method called on it)
                if isinstance(n, ast.Subscript) and isinstance(n.ctx, (ast.Store, ast.Del)) and isinstance(n.value, ast.Attribute) and n.value.attr == f:
                    return True
                if isinstance(n, ast.Call) and isinstance(n.func, ast.Attribute) and n.func.attr in _MUTATORS and isinstance(n.func.value, ast.Attribute) and n.func.value.attr == f:
                    return True
                if isinstance(n, ast.AugAssign) and isinstance(n.target, ast.Attribute) and n.target.attr == f:
                    return True
                if f2.cls is ci and isinstance(n, ast.Call) and isinstance(n.func, ast.Attribute) and n.func.attr in ("__setattr__", "setattr") and len(n.args) >= 2 and isinstance(n.args[-2], ast.Constant) and n.args[-2].value == f:
                    return True
        return False

    asserted = {T.strip(a.term[1]) for a in s.events if a.kind == "assert"}
    plain = lambda e: not e.iters and all(g[2] and T.strip(g[1]) in asserted for g in e.guards)  # noqa: E731  (only preconditions)
    base = {}
    for f, v, e in stores:
        if f in known and plain(e) and sum(1 for f2, _v, _e in stores if f2 == f) == 1 and not written_elsewhere(f):
            base[f] = v
    out: Dict[str, Term] = {}
    for f, v, e in stores:
        if f in known or not plain(e) or sum(1 for f2, _v, _e in stores if f2 == f) != 1 or written_elsewhere(f):
            continue
        val = v
        for g, vg in sorted(base.items(), key=lambda kv: -len(repr(kv[1]))):
            if any(x[0] == "var" for x in T.subterms((vg,))):          # (a constant is not "the value of that field")
                val = T.replace(val, {vg: ("attr", T.var("§self"), g)})
        val = T.replace(val, {me: T.var("§self")})
        if any(x[0] == "var" and x != T.var("§self") for x in T.subterms((val,))):
            continue
        if not any(x[0] == "attr" and x[1] == T.var("§self") for x in T.subterms((val,))):
            continue            # not computed from other fields: an ordinary field with an initial value
        out[f] = val
    ci._derived = out
    return out


def replace_stripped(t: Any, mapping: Dict[Term, Term]) -> Any:
    """`T.replace` that also finds the sub-terms behind `let` wrappers."""
    if not isinstance(t, tuple):
        return t
    if T.is_term(t):
        st = T.strip(t) if t[0] == "let" else t
        if st in mapping:
            return mapping[st]
        if st is not t and T.strip(st) in mapping:
            return mapping[T.strip(st)]
    return tuple(replace_stripped(x, mapping) for x in t)


def get_as_index(events: List[Event]) -> List[Event]:
    """`d.get(k)` whose value was tested to be not None is the entry `d[k]`: under that guard the two
    expressions denote the same object (`sim = self.sims.get(sid); if sim is None: raise ...`)."""
    out: List[Event] = []
    changed = False
    for e in events:
        m: Dict[Term, Term] = {}
        for g in e.guards:
            gt = T.guard_term(g)
            if gt[0] == "cmp" and gt[1] == "isnot" and T.NONE in (gt[2], gt[3]):
                G = gt[2] if gt[3] == T.NONE else gt[3]
                if G[0] == "call" and G[1][0] == "attr" and G[1][2] == "get" and len(G[2]) == 1 and not G[3]:
                    m[G] = ("idx", G[1][1], G[2][0])
        if m and any(T.contains((e.term, e.iters), G) for G in m):
            changed = True
            out.append(Event(e.idx, e.kind, T.replace(e.term, m), replace_stripped(e.raw, m), e.node, e.stmt, e.guards, T.replace(e.iters, m), e.tries, e.awaited, e.extra))
        else:
            out.append(e)
    return out if changed else events


def stored_takes(events: List[Event]) -> List[Event]:
    """`x = take(); obj.f = x` (the value of an impure call named once and stored into a field right away) is
    `obj.f = take()`: until the field is stored again, the local is bound again or the function suspends, the local
    and the field denote the same object, and the field is the canonical name."""
    bind_idx: Dict[Term, List[int]] = {}
    for i, e in enumerate(events):
        if e.kind == "bind":
            bind_idx.setdefault(e.term[1], []).append(i)
    out = list(events)
    changed = False
    for v, idxs in bind_idx.items():
        if len(idxs) != 1:
            continue
        bi = idxs[0]
        b = events[bi]
        if T.strip(b.term[2])[0] != "call":
            continue
        chained = bi >= 1 and events[bi - 1].kind == "store" and events[bi - 1].stmt is b.stmt and events[bi - 1].term[2] == b.term[2] \
            and events[bi - 1].guards == b.guards and events[bi - 1].iters == b.iters
        if chained:
            # `obj.f = x = take()`: one evaluation, two names -- the field is the canonical one
            st = events[bi - 1]
            P = st.term[1]
            root = P
            while root[0] == "attr":
                root = root[1]
            if P[0] != "attr" or root[0] != "var" or root == v:
                continue
            stop = len(events)
            for i in range(bi + 1, len(events)):
                e = events[i]
                if (e.kind == "store" and e.term[1] == P) or e.kind == "await" or (e.kind == "bind" and e.term[1] in (v, root)):
                    stop = i
                    break
            m = {v: P}
            seen_before = set()
            for i in range(0, bi + 1):
                seen_before |= set(events[i].guards)
            in_scope_guards = set()
            for i in range(bi + 1, min(stop + 1, len(events))):
                in_scope_guards |= {g for g in events[i].guards if g not in seen_before}
            for i in range(bi + 1, len(events)):
                e = out[i]
                gs = tuple(T.replace(g, m) if g in in_scope_guards else g for g in e.guards)
                if i < stop:
                    out[i] = Event(e.idx, e.kind, T.replace(e.term, m), T.replace(e.raw, m), e.node, e.stmt, gs, T.replace(e.iters, m), e.tries, e.awaited, e.extra)
                elif gs != e.guards:
                    out[i] = Event(e.idx, e.kind, e.term, e.raw, e.node, e.stmt, gs, e.iters, e.tries, e.awaited, e.extra)
            changed = True
            continue
        if bi + 1 >= len(events):
            continue
        st = events[bi + 1]
        if st.kind != "store" or st.term[2] != v or st.guards != b.guards or st.iters != b.iters:
            continue
        P = st.term[1]
        root = P
        while root[0] == "attr":
            root = root[1]
        if P[0] != "attr" or root[0] != "var" or root == v:
            continue
        stop = len(events)
        for i in range(bi + 2, len(events)):
            e = events[i]
            if (e.kind == "store" and e.term[1] == P) or e.kind == "await" or (e.kind == "bind" and e.term[1] in (v, root)):
                stop = i
                break
        m = {v: P}
        seen_before = set()
        for i in range(0, bi + 2):
            seen_before |= set(events[i].guards)
        in_scope_guards = set()
        for i in range(bi + 2, min(stop + 1, len(events))):
            in_scope_guards |= {g for g in events[i].guards if g not in seen_before}
        out[bi + 1] = Event(st.idx, st.kind, ("store", P, b.term[2]), ("store", P, b.raw[2]) if len(b.raw) > 2 else st.raw, st.node, st.stmt, st.guards, st.iters, st.tries, st.awaited, st.extra)
        for i in range(bi + 2, len(events)):
            e = out[i]
            gs = tuple(T.replace(g, m) if g in in_scope_guards else g for g in e.guards)
            if i < stop:
                out[i] = Event(e.idx, e.kind, T.replace(e.term, m), T.replace(e.raw, m), e.node, e.stmt, gs, T.replace(e.iters, m), e.tries, e.awaited, e.extra)
            elif gs != e.guards:
                out[i] = Event(e.idx, e.kind, e.term, e.raw, e.node, e.stmt, gs, e.iters, e.tries, e.awaited, e.extra)
        changed = True
    return out if changed else events


def alias_fields(events: List[Event]) -> List[Event]:
    """A local that is bound to an access path (`queue = self.next_steps`, or inside a loop
    `anc = dest_sim.triggering_ancestors`) denotes the same object as the path until it is bound again:
    within that scope (the rest of the iteration it was bound in) it is replaced by the path, provided that
    neither the attributes of the path nor its root variables are re-assigned there.  Mutating the object
    through either name is the same thing."""
    bind_idx: Dict[Term, List[int]] = {}
    for i, e in enumerate(events):
        if e.kind == "bind":
            bind_idx.setdefault(e.term[1], []).append(i)
    if not bind_idx:
        return events
    out = list(events)
    changed = False
    for v, idxs in bind_idx.items():
        for n, bi in enumerate(idxs):
            b = events[bi]
            val = T.strip(b.term[2])
            if val[0] not in ("attr", "idx"):
                continue
            # the path: attribute / constant-or-variable index steps down to a root variable
            path, attrs, roots, ok = val, set(), set(), True
            while path[0] in ("attr", "idx"):
                if path[0] == "attr":
                    attrs.add(path[2])
                else:
                    ix = path[2]
                    while ix[0] == "attr":          # an index that is itself a plain access path (`self.sims[src._sid]`)
                        attrs.add(ix[2])
                        ix = ix[1]
                    if ix[0] not in ("var", "const"):
                        ok = False
                    if ix[0] == "var":
                        roots.add(ix)
                path = path[1]
            if not ok or path[0] != "var" or path == v:
                continue
            roots.add(path)
            stop = idxs[n + 1] if n + 1 < len(idxs) else len(events)
            scope = [i for i in range(bi + 1, stop) if events[i].iters[:len(b.iters)] == b.iters]
            if not scope or not any(T.contains((events[i].term, events[i].guards, events[i].iters), v) for i in scope):
                continue
            # nothing in the scope re-assigns an attribute of the path or re-binds one of its root variables
            clash = False
            for i in scope:
                e = events[i]
                if e.kind in ("store", "del") and e.term[1][0] == "attr" and e.term[1][2] in attrs:
                    clash = True
                if e.kind == "bind" and e.term[1] in roots:
                    clash = True
                if e.kind == "store" and val[0] == "idx" and e.term[1] == val:
                    clash = True
            if clash:
                continue
            m = {v: val}
            # a condition speaks about the value the name had when it was tested: conditions that are first seen inside
            # the scope are rewritten wherever they appear later (also after a re-binding); older ones are left alone
            seen_before = set()
            for i in range(0, bi + 1):
                seen_before |= set(events[i].guards)
            in_scope_guards = set()
            for i in list(scope) + ([stop] if stop < len(events) else []):
                in_scope_guards |= {g for g in events[i].guards if g not in seen_before}
            for i in range(bi + 1, len(events)):
                e = out[i]
                inside = i in scope_set if (scope_set := set(scope)) else False
                gs = tuple(T.replace(g, m) if g in in_scope_guards else g for g in e.guards)
                if inside:
                    out[i] = Event(e.idx, e.kind, T.replace(e.term, m), T.replace(e.raw, m), e.node, e.stmt, gs, T.replace(e.iters, m), e.tries, e.awaited, e.extra)
                elif gs != e.guards:
                    out[i] = Event(e.idx, e.kind, e.term, e.raw, e.node, e.stmt, gs, e.iters, e.tries, e.awaited, e.extra)
            changed = True
    return out if changed else events


def _tidy_guards(guards: Tuple[Term, ...], iters: Tuple[Term, ...]) -> Tuple[Term, ...]:
    """Drop repeated guards, and the guard "X is not empty" of something that happens once per element of X."""
    srcs = set()
    for it in iters:
        if T.is_term(it) and it[0] == "it" and len(it) >= 3:
            src = T.strip(it[2])
            srcs.add(src)
            if src[0] == "call" and src[1][0] == "attr" and src[1][2] in ("items", "values", "keys") and not src[2]:
                srcs.add(src[1][1])
    out: List[Term] = []
    for g in guards:
        if g in out:
            continue
        gt = T.guard_term(g)
        if gt in srcs or (gt[0] == "call" and gt[1] == ("glob", "len") and len(gt[2]) == 1 and gt[2][0] in srcs):
            continue
        out.append(g)
    return tuple(out)


def _const_guards(guards: Tuple[Term, ...]) -> Optional[Tuple[Term, ...]]:
    """Guards whose condition is a constant: dropped when they hold; None when one cannot hold."""
    if not any(T.is_term(g) and len(g) == 3 and T.is_term(g[1]) and g[1][0] == "const" for g in guards):
        return guards
    out = []
    for g in guards:
        if T.is_term(g) and len(g) == 3 and T.is_term(g[1]) and g[1][0] == "const":
            if bool(g[1][1]) != bool(g[2]):
                return None
            continue
        out.append(g)
    return tuple(out)


def _found_guard(guards: Tuple[Term, ...]) -> Optional[Tuple[int, Term]]:
    """(index, search) of a guard `<search> is not None` where the search yields the first candidate of a loop
    (one kind of candidate, never None itself) or None."""
    for i, g in enumerate(guards):
        gt = T.guard_term(g)
        if gt[0] == "cmp" and gt[1] == "isnot" and gt[3] == T.NONE and T.is_term(gt[2]) and gt[2][0] == "agg" and gt[2][1] == "first":
            agg = gt[2]
            if len(agg[2][1]) == 1 and dict(agg[3]).get("default") == T.NONE and T.strip(agg[2][1][0][1]) != T.NONE and T.strip(agg[2][1][0][1])[0] not in ("phi", "ifexp", "const"):
                return i, agg
    return None


def fuse_events(events: List[Event]) -> List[Event]:
    """Comprehension fusion on every event: terms and guards are fused, and an event inside a loop
    over a collection that was itself built from guarded / iterated elements is re-expressed as
    events over the underlying iteration (one per element of the collection).  Events under a guard that
    has become a false constant (a conditional on a field of a value-class constructor) disappear."""
    out: List[Event] = []
    changed = False
    for e in events:
        term, guards = T.fuse(e.term), T.fuse(e.guards)
        iters = T.fuse(e.iters)
        cg = _const_guards(guards)
        if cg is None:
            changed = True
            continue
        guards = cg
        found = _found_guard(guards)
        if found is not None:
            # `x = <first candidate that ...>; if x is not None: ...`: what happens then happens for that candidate
            gi, agg = found
            el = agg[2][1][0]
            m = {agg: el[1]}
            term = T.replace(term, m)
            elg: List[Term] = []
            for g in el[2]:
                if g[2] and T.is_term(g[1]) and g[1][0] == "and":
                    elg += [("g", x, True) for x in g[1][1]]        # (a and b) holds: a holds, b holds
                else:
                    elg.append(g)
            guards = tuple(T.replace(g, m) for i, g in enumerate(guards) if i != gi) + tuple(elg)
            iters = tuple(T.replace(iters, m)) + tuple(el[3])
            out.append(Event(len(out), e.kind, term, term, e.node, e.stmt, _tidy_guards(guards, iters), iters, e.tries, e.awaited, e.extra))
            changed = True
            continue
        if e.kind == "call" and term[0] != "call":
            changed = True          # (a copy of a collection that is read as the collection: no call of its own)
            continue
        parts = T.fuse_elem(("elem", ("§ev", term, guards), (), iters)) if any(T.is_term(i) and i[0] == "it" and len(i) >= 3 and T._plain_bag(i[2]) is not None and T._plain_bag(i[2])[1] for i in iters) else None
        if parts is None:
            if term is not e.term and (term != e.term or guards != e.guards or iters != e.iters):
                changed = True
                out.append(Event(len(out), e.kind, term, T.fuse(e.raw), e.node, e.stmt, guards, iters, e.tries, e.awaited, e.extra))
            else:
                out.append(Event(len(out), e.kind, e.term, e.raw, e.node, e.stmt, e.guards, e.iters, e.tries, e.awaited, e.extra) if changed else e)
            continue
        changed = True
        for el in parts:
            _, (_, t2, g2), ig, it2 = el
            t2, gg = T.fuse(t2), _const_guards(T.fuse(tuple(g2) + tuple(ig)))
            if gg is None:
                continue
            out.append(Event(len(out), e.kind, t2, t2, e.node, e.stmt, _tidy_guards(gg, tuple(it2)), tuple(it2), e.tries, e.awaited, e.extra))
    if not changed:
        return events
    for i, e in enumerate(out):
        e.idx = i
    return out


# ----------------------------------------------------------------------------- helper inlining
def return_value(prog: Program, fi: FuncInfo) -> Optional[Term]:
    """The value of a *pure* helper as a nested conditional over its guarded returns,
    expressed over its parameters; None if the helper has effects or loops."""
    s = summarise(prog, fi)
    for e in s.events:
        if e.kind in ("store", "await", "yield", "del", "raise"):
            return None
        if e.iters:
            return None
        if e.kind == "call":
            f = e.term[1]
            if not (f[0] == "glob" and f[1] in ("len", "isinstance", "min", "max", "int", "bool", "tuple", "list")):
                return None
    if not s.returns:
        return T.NONE
    val: Optional[Term] = None
    rets = list(s.returns)
    # implicit `return None` when the last statement can fall through
    last = rets[-1]
    val = last.term if not last.guards else None
    if val is None:
        val = T.NONE
        seq = rets
    else:
        seq = rets[:-1]
    # what an `assert` states is an assumption, not the test that selects a return
    asserted = {T.guard_term(("g", e.term[1], True)) for e in s.events if e.kind == "assert" and len(e.term) > 1}
    for r in reversed(seq):
        conds = [T.guard_term(g) for g in r.guards]
        # guards accumulated from earlier early-returns are implied by position; keep own test
        own = [c_ for c_ in conds if c_ not in asserted]
        cond = own[-1] if own else (conds[-1] if conds else T.const(True))
        val = ("ifexp", cond, r.term, val)
    return val


def inline_calls(prog: Program, mod_name: str, t: Any, depth: int = 1) -> Any:
    """Replace calls to pure package helpers by their value (parameter-substituted)."""
    if not isinstance(t, tuple):
        return t
    t = tuple(inline_calls(prog, mod_name, x, depth) for x in t)
    if depth > 0 and T.is_term(t) and t[0] == "call" and t[1][0] == "glob":
        fi = prog.functions.get(t[1][1])
        if fi is not None and not fi.is_async and not t[3] and not any(a[0] == "star" for a in t[2]):
            params = fi.params
            if len(params) == len(t[2]):
                rv = return_value(prog, fi)
                if rv is not None:
                    mapping = {T.var(p): a for p, a in zip(params, t[2])}
                    return ("inl", t[1][1], T.replace(T.strip(rv), mapping))
    return t


def uninl(t: Any) -> Any:
    """Drop `inl` wrappers, keeping the inlined value."""
    if not isinstance(t, tuple):
        return t
    if len(t) == 3 and t[0] == "inl":
        return uninl(t[2])
    return tuple(uninl(x) for x in t)


# ----------------------------------------------------------------------------- helper splicing
SPLICE_ATOMIC = {"get_input_data", "get_max_advance", "advance_progress", "notify_dependencies", "rt_check", "prune_dataflow_cache", "get_progress",
                 "get_avg_progress", "earliest_pending_step", "connect_interval", "group_path", "update_min", "parse_attrs", "parse_set_triple", "wrap_set",
                 "merge_all", "merge_existing", "extract_version", "doc_link", "gather_or_cancel", "print_greetings"}


def fold_returns(s: Summary) -> Optional[Term]:
    """Guarded returns folded into one nested conditional value."""
    rets = list(s.returns)
    if not rets:
        return T.NONE
    common = 0
    gsets = [r.guards for r in rets]
    while all(len(g) > common for g in gsets) and len({g[common] for g in gsets}) == 1:
        common += 1
    val: Term = T.NONE
    seq = rets
    if len(rets[-1].guards) == common:
        val = rets[-1].term
        seq = rets[:-1]
    elif len(rets) >= 2 and len(rets[-1].guards) == common + 1 and any(
            len(r.guards) > common and T.guard_term(rets[-1].guards[-1]) == T.negate(T.guard_term(r.guards[-1])) for r in rets[:-1]):
        val = rets[-1].term
        seq = rets[:-1]
    for r in reversed(seq):
        own = [T.guard_term(g) for g in r.guards[common:]]
        if r.iters:
            # a return inside a loop (a search): the first candidate that meets the conditions, else what follows
            val = ("agg", "first", ("bag", (("elem", r.term, tuple(r.guards[common:]), tuple(r.iters)),), "args"), (("default", val),))
            continue
        if not own:
            val = r.term
            continue
        cond = own[-1] if len(own) == 1 else ("and", tuple(own))
        val = ("phi", cond, r.term, val)
    return val


_KNOWN: Optional[Set[str]] = None


def known_functions() -> Set[str]:
    global _KNOWN
    if _KNOWN is None:
        import os
        path = os.path.join(os.path.dirname(os.path.abspath(__file__)), "known_functions.txt")
        _KNOWN = {l.strip() for l in open(path) if l.strip() and not l.startswith("#")}
    return _KNOWN


def is_new_helper(fi: FuncInfo) -> bool:
    """A function that does not exist in the pinned tree: an extracted helper."""
    return not isinstance(fi.node, ast.Lambda) and fi.qualname not in known_functions()


def _is_context_manager(fi: FuncInfo) -> bool:
    return not isinstance(fi.node, ast.Lambda) and any(ast.unparse(d).rsplit(".", 1)[-1] in ("contextmanager", "asynccontextmanager") for d in fi.node.decorator_list)


def spliceable(prog: Program, fi: FuncInfo, callee: FuncInfo) -> bool:
    if isinstance(callee.node, ast.Lambda) or callee.qualname == fi.qualname:
        return False
    if fi.cls is not None and callee.cls is not None and callee.cls is not fi.cls and callee.name == fi.name and not is_new_helper(callee):
        # delegation to the overridden method of a base class (`super().send(...)`): small ones are read in place
        return len(summarise(prog, callee).events) <= 12
    if is_new_helper(callee):
        # helpers introduced after the pinned tree: sync or async (when awaited at the call), functions or
        # methods, of any module of the package
        cs = summarise(prog, callee)
        if _is_context_manager(callee):
            return len(cs.events) <= 200 and sum(1 for e in cs.events if e.kind == "yield") == 1
        if any(e.kind == "yield" for e in cs.events):
            # a generator helper is read as the collection of what it yields, provided that producing the
            # values has no effects of its own (then it does not matter when the body runs)
            return not callee.is_async and len(cs.events) <= 200 and not any(e.kind in ("store", "await", "del", "raise") for e in cs.events) \
                and all(r.term == T.NONE for r in cs.returns)
        return len(cs.events) <= 200
    if callee.is_async or callee.cls is not None or callee.name in SPLICE_ATOMIC:
        return False
    # nested helpers of this function, or small module-level helpers of the same module
    nested = callee.parent is not None and callee.parent.qualname == fi.qualname
    same_mod = callee.parent is None and callee.module is fi.module
    if not (nested or same_mod):
        return False
    return len(summarise(prog, callee).events) <= 40


def _resolve_callee(prog: Program, fi: FuncInfo, e: Event) -> Tuple[Optional[FuncInfo], Optional[Term]]:
    """(callee, receiver) of a call event: package functions by resolved name, methods called on the
    caller's own `self`."""
    f = e.term[1]
    if f[0] == "glob":
        return prog.functions.get(f[1]), None
    if f[0] == "attr" and f[1][0] == "glob" and f[1][1] in prog.classes:
        # a named constructor / static helper that a later change added to a package class, called on the class
        m = prog.find_method(f[1][1], f[2])
        if m is not None and is_new_helper(m):
            decs = [ast.unparse(d) for d in m.node.decorator_list]
            if "classmethod" in decs:
                return m, f[1]
            if "staticmethod" in decs:
                return m, None
        return None, None
    if f[0] == "attr" and fi.cls is not None and fi.params and f[1] == ("call", ("glob", "super"), (), ()):
        # super().m(...): the method of the nearest base class, called on the same object
        for base in prog.mro(fi.cls)[1:]:
            if f[2] in base.methods:
                m = base.methods[f[2]]
                if not any(ast.unparse(d) in ("staticmethod", "classmethod", "property") for d in m.node.decorator_list):
                    return m, T.var(fi.params[0])
                break
        return None, None
    if f[0] == "attr" and fi.cls is not None and fi.params and f[1] == T.var(fi.params[0]):
        m = prog.find_method(fi.cls.qualname, f[2])
        if m is not None and not any(ast.unparse(d) in ("staticmethod", "classmethod", "property") for d in m.node.decorator_list):
            return m, f[1]
        if m is not None and any(ast.unparse(d) == "staticmethod" for d in m.node.decorator_list):
            return m, None
    if f[0] == "attr":
        # a method of a value class, called on the constructor expression itself
        rv = T.record_values(f[1])
        if rv is not None:
            m = prog.find_method(rv[0], f[2])
            if m is not None and not any(ast.unparse(d) in ("staticmethod", "classmethod", "property") for d in m.node.decorator_list):
                return m, f[1]
    if f[0] == "attr" and not (fi.cls is not None and fi.params and f[1] == T.var(fi.params[0])):
        # a method that a later change added to a package class, called on an expression of that class
        m = _typed_method(prog, fi, e, f[1], f[2])
        if m is not None:
            return m, f[1]
    if f[0] == "attr" and f[1][0] == "var":
        # a method that a later change added to a package class, called on a parameter annotated with that class
        a = fi.node.args
        for prm in a.posonlyargs + a.args + a.kwonlyargs:
            if prm.arg == f[1][1] and prm.annotation is not None:
                txt = prm.annotation.value if isinstance(prm.annotation, ast.Constant) and isinstance(prm.annotation.value, str) else ast.unparse(prm.annotation)
                txt = txt.replace("Optional[", "").rstrip("]").strip()
                q = prog.resolve_name(fi.module, txt)
                ci = prog.classes.get(q)
                if ci is not None:
                    m = prog.find_method(q, f[2])
                    if m is not None and is_new_helper(m) and not any(ast.unparse(d) in ("staticmethod", "classmethod", "property") for d in m.node.decorator_list):
                        return m, f[1]
    return None, None


def _typed_method(prog: Program, fi: FuncInfo, e: Event, recv: Term, name: str, kind: str = "method") -> Optional[FuncInfo]:
    """The method (or property) `name` of the (annotation-inferred) class of `recv`, if it is one that a later change
    introduced."""
    cands = [c for c in prog.classes.values() if name in c.methods and is_new_helper(c.methods[name])]
    if not cands:
        return None
    if kind == "property" and not any(any(ast.unparse(d) == "property" for d in c.methods[name].node.decorator_list) for c in cands):
        return None
    from . import types as TY
    ty = getattr(prog, "_typer", None)
    if ty is None:
        ty = TY.Typer(prog)
        prog._typer = ty  # type: ignore[attr-defined]
    try:
        # parameters, `self` and annotated locals only (the full environment needs this very summary)
        env: Dict[str, Any] = {}
        a = fi.node.args
        for i, prm in enumerate(a.posonlyargs + a.args + a.kwonlyargs):
            if prm.annotation is not None:
                env[prm.arg] = ty.ann(prm.annotation, fi.module)
            elif i == 0 and fi.cls is not None and "staticmethod" not in fi.decorators:
                env[prm.arg] = TY.cls(fi.cls.qualname)
        for n in ast.walk(fi.node):
            if isinstance(n, ast.AnnAssign) and isinstance(n.target, ast.Name):
                env.setdefault(n.target.id, ty.ann(n.annotation, fi.module))
        for it in e.iters:
            ty.bind_iter(it, env)
        t = TY.Typer.unopt(ty.type_of(recv, env))
    except Exception:
        return None
    if not (isinstance(t, tuple) and len(t) == 2 and t[0] == "cls"):
        return None
    m = prog.find_method(t[1], name)
    if kind == "property":
        return m if m is not None and is_new_helper(m) and any(ast.unparse(d) == "property" for d in m.node.decorator_list) else None
    if m is not None and is_new_helper(m) and not any(ast.unparse(d) in ("staticmethod", "classmethod", "property") for d in m.node.decorator_list):
        return m
    return None


def _expand_star(x: Term) -> Optional[List[Term]]:
    """The elements of `*x` when x is a tuple display, or one of several tuple displays of the same length."""
    x = T.strip(x)
    if x[0] == "tuple" and len(x) == 2 and not any(T.is_term(y) and y[0] == "star" for y in x[1]):
        return list(x[1])
    if x[0] == "phi" and len(x) == 4:
        a, b = (None if T.strip(x[2]) == T.NONE else _expand_star(x[2])), (None if T.strip(x[3]) == T.NONE else _expand_star(x[3]))
        if a is None and b is None:
            return None
        if T.strip(x[2]) != T.NONE and a is None or T.strip(x[3]) != T.NONE and b is None:
            return None
        n = len(a if a is not None else b)       # type: ignore[arg-type]
        if a is not None and b is not None and len(a) != len(b):
            return None
        # (where there is no tuple the call is not reached: it is guarded by a test of the value)
        return [("phi", x[1], a[k] if a is not None else ("idx", T.NONE, T.const(k)), b[k] if b is not None else ("idx", T.NONE, T.const(k))) for k in range(n)]
    return None


def _bind_params(callee: FuncInfo, recv: Optional[Term], args: Tuple[Term, ...], kws: Tuple[Tuple[str, Term], ...]) -> Optional[Dict[Term, Term]]:
    passthrough: Optional[Term] = None
    if args and args[-1][0] == "star" and not isinstance(callee.node, ast.Lambda) and is_new_helper(callee) and _expand_star(args[-1][1]) is None \
            and callee.node.args.vararg is not None and not any(a[0] == "star" for a in args[:-1]):
        # `f(a, b, *rest)` into `def f(x, y, *more)`: the surplus arguments are handed on as they are
        npos = len(callee.node.args.posonlyargs + callee.node.args.args) - (1 if recv is not None else 0)
        if len(args) - 1 == npos:
            passthrough = args[-1][1]
            args = args[:-1]
    if any(a[0] == "star" for a in args):
        flat: List[Term] = []
        for a in args:
            if a[0] == "star":
                ex = _expand_star(a[1])
                if ex is None:
                    return None
                flat += ex
            else:
                flat.append(a)
        args = tuple(flat)
    if any(a[0] in ("star", "star2") for a in args) or any(k in ("**", None) for k, _ in kws):
        return None
    params = list(callee.params)
    mapping: Dict[Term, Term] = {}
    if recv is not None:
        if not params:
            return None
        mapping[T.var(params[0])] = recv
        params = params[1:]
    a = callee.node.args
    if a.kwarg is not None:
        return None
    pos = [x.arg for x in a.posonlyargs + a.args]
    if recv is not None:
        pos = pos[1:]
    kwonly = [x.arg for x in a.kwonlyargs]
    if a.vararg is not None:
        # `*rest` is the tuple of the surplus positional arguments
        mapping[T.var(a.vararg.arg)] = passthrough if passthrough is not None else ("tuple", tuple(args[len(pos):]))
        args = args[:len(pos)]
    if len(args) > len(pos):
        return None
    for p, v in zip(pos, args):
        mapping[T.var(p)] = v
    rest = pos[len(args):] + kwonly
    kwd = dict(kws)
    # defaults (constants only)
    names = [x.arg for x in a.posonlyargs + a.args]
    defaults: Dict[str, ast.AST] = {}
    for nm, d in zip(names[len(names) - len(a.defaults):], a.defaults):
        defaults[nm] = d
    for x, d in zip(a.kwonlyargs, a.kw_defaults):
        if d is not None:
            defaults[x.arg] = d
    for p in rest:
        if p in kwd:
            mapping[T.var(p)] = kwd.pop(p)
        elif p in defaults and isinstance(defaults[p], ast.Constant):
            mapping[T.var(p)] = T.const(defaults[p].value)
        else:
            return None
    if kwd:
        return None
    return mapping


_SPLICING: Set[str] = set()


# ----------------------------------------------------------------------------- validated memoisation
def _field_writers(prog: Program, field: str) -> List[Tuple[FuncInfo, Event]]:
    cache = getattr(prog, "_field_writers", None)
    if cache is None:
        cache = {}
        for f2 in prog.all_functions():
            for e in summarise(prog, f2).events:
                if e.kind in ("store", "del"):
                    t = e.term[1]
                    while t[0] == "idx":
                        t = t[1]
                    if t[0] == "attr":
                        cache.setdefault(t[2], []).append((f2, e))
                elif e.kind == "call" and e.term[1][0] == "attr" and e.term[1][2] in _MUTATORS and e.term[1][1][0] == "attr":
                    cache.setdefault(e.term[1][1][2], []).append((f2, e))
        prog._field_writers = cache  # type: ignore[attr-defined]
    return cache.get(field, [])


def _initial_value(prog: Program, fi: FuncInfo, field: str) -> Optional[Term]:
    """None / {} if the field starts out as that (class-level default or constructor)."""
    ci = fi.cls
    if ci is None:
        return None
    for c in prog.mro(ci):
        for st in c.node.body:
            tgt = st.target if isinstance(st, ast.AnnAssign) else (st.targets[0] if isinstance(st, ast.Assign) and len(st.targets) == 1 else None)
            val = getattr(st, "value", None)
            if isinstance(tgt, ast.Name) and tgt.id == field and val is not None:
                if isinstance(val, ast.Constant) and val.value is None:
                    return T.NONE
                if isinstance(val, ast.Dict) and not val.keys:
                    return ("dict", ())
        init = c.methods.get("__init__")
        if init is not None:
            for e in summarise(prog, init).of_kind("store"):
                if e.term[1] == ("attr", T.var(init.params[0]), field):
                    v = T.strip(e.term[2])
                    if v == T.NONE or v == ("dict", ()):
                        return v
                    return None
    return None


def cold_cache(prog: Program, fi: FuncInfo, s: Summary) -> Summary:
    """A function that remembers its result in a field of its object (`if self._c is None: self._c = V`,
    a (key, value) pair, a dict keyed by the arguments) computes V: provided that the field is written
    nowhere else and starts out empty, that every hit test compares the remembered key with plain
    parameters, and that V reads nothing but those parameters and fields that are never re-assigned after
    construction, the summary is rewritten to the cold-cache run (what every call returns).  A cache
    whose key is a *derived* value, or whose value depends on anything else, is left as it is."""
    if fi.cls is None or not fi.params or fi.name == "__init__":
        return s
    me = T.var(fi.params[0])
    cands: Dict[str, Term] = {}
    for e in s.of_kind("store"):
        t = e.term[1]
        base = t[1] if t[0] == "idx" else t
        if base[0] == "attr" and base[1] == me:
            cands.setdefault(base[2], T.NONE)
    if not cands:
        return s
    subst: Dict[Term, Term] = {}
    for f in list(cands):
        init = _initial_value(prog, fi, f)
        others = [w for w in _field_writers(prog, f) if w[0].qualname != fi.qualname and w[0].name != "__init__"]
        if init is None or others:
            del cands[f]
            continue
        subst[("attr", me, f)] = init
    if not subst:
        return s
    from . import constfold
    params = {T.var(p) for p in fi.params[1:]}

    def immutable(fld: str) -> bool:
        return not [w for w in _field_writers(prog, fld) if w[0].name != "__init__"]

    # validation: hit tests compare with plain parameters only; the remembered value reads parameters and
    # immutable fields only
    for e in s.events:
        for part in [e.term] + [g[1] for g in e.guards]:
            for x in T.subterms((part,)):
                if x[0] == "cmp" and any(T.contains((y,), k) for y in (x[2], x[3]) for k in subst):
                    other = [y for y in (x[2], x[3]) if not any(T.contains((y,), k) for k in subst)]
                    if other and not (other[0] in params or other[0] == T.NONE or other[0][0] == "const" or (other[0][0] == "tuple" and all(z in params for z in other[0][1]))):
                        return s
    forwarded: Dict[Term, Term] = {}
    out: List[Event] = []
    consts: Dict[Term, Term] = {}          # opaque locals that currently hold a constant (the empty cache read into a local)
    decided: Dict[Term, bool] = {}         # tests decided at the moment they were made
    missed: Set[int] = set()               # try blocks whose body ended in the KeyError of a lookup in the empty cache
    EMPTY = ("dict", ())

    def plain_key(k: Term) -> bool:
        k = T.strip(k)
        return k in params or k[0] == "const" or (k[0] == "tuple" and all(plain_key(z) for z in k[1]))

    for e in s.events:
        if any((tid, "body") in e.tries for tid in missed):
            continue                       # after the KeyError: not reached
        if e.kind == "test" and e.term[0] == "except" and any((tid, "handler") in e.tries for tid in missed):
            continue
        if missed and any(t[0] in missed and t[1] == "handler" for t in e.tries):
            e = Event(e.idx, e.kind, e.term, e.raw, e.node, e.stmt, e.guards, e.iters, tuple(t for t in e.tries if not (t[0] in missed and t[1] == "handler")), e.awaited, e.extra)

        def inst(t):
            t = T.replace(T.replace(t, forwarded), subst)
            return T.replace(t, consts) if consts else t
        term = inst(e.term) if e.kind not in ("store", "bind") else (e.term[0], e.term[1], inst(e.term[2]))
        if e.kind == "test":
            v = constfold.decide(inst(e.term), {})
            if v is not None:
                decided[T.strip(e.term)] = v
            else:
                decided.pop(T.strip(e.term), None)
        guards = []
        dead = False
        for g in e.guards:
            key = T.strip(g[1])
            v = decided.get(key)
            if v is None and key[0] == "not" and key[1] in decided:
                v = not decided[key[1]]
            if v is None:
                v = constfold.decide(T.replace(T.replace(g[1], forwarded), subst), {})
            if v is None:
                guards.append((g[0], T.replace(T.replace(g[1], forwarded), subst), g[2]))
            elif v != g[2]:
                dead = True
                break
        if dead:
            continue
        # `try: return self._cache[key]  except KeyError: ...`: the lookup in the empty cache misses
        lookups = [x for x in T.subterms((T.strip(term),)) if x[0] == "idx" and x[1] == EMPTY]
        if lookups:
            tids = [tid for tid, role in e.tries if role == "body"]
            handled = [h for h in s.events if tids and h.kind == "test" and h.term[0] == "except" and (tids[-1], "handler") in h.tries
                       and T.show(h.term[1]).rsplit(".", 1)[-1] in ("KeyError", "LookupError", "Exception")]
            if not tids or not handled or not all(plain_key(x[2]) for x in lookups):
                return s
            missed.add(tids[-1])
            continue
        if e.kind == "bind" and e.term[1][0] == "var":
            v = T.strip(term[2])
            if v == T.NONE or v == ("dict", ()):
                consts[e.term[1]] = v
            else:
                consts.pop(e.term[1], None)
        if e.kind == "store":
            t = e.term[1]
            base = t[1] if t[0] == "idx" else t
            if base[0] == "attr" and base[1] == me and base[2] in cands:
                val = term[2]
                for fv in T.subterms((val,)):
                    if fv[0] == "var" and fv not in params and fv != me and fv[1] in s.locals:
                        pass
                    if fv[0] == "attr" and fv[1] == me and fv[2] not in cands and not immutable(fv[2]) and not prog.find_method(fi.cls.qualname, fv[2]):
                        return s
                forwarded[e.term[1]] = val          # later reads of the cache see what was just stored
                continue                            # the cache write itself is not a fact of the function
        try:
            from .boolfn import resolve_phi
            term = resolve_phi(term, {}, lambda x: constfold.decide(x, {}))
        except Exception:  # noqa: BLE001
            pass
        term = constfold.fold(term)
        out.append(Event(len(out), e.kind, T.strip(term), term, e.node, e.stmt, tuple(guards), e.iters, e.tries, e.awaited, e.extra))
    # the local that held the (empty) cache and is re-bound to the computed value: one definition
    drop = set()
    for i, e in enumerate(out):
        if e.kind == "bind" and T.strip(e.term[2]) in (T.NONE, ("dict", ())) and not e.guards:
            later = [x for x in out[i + 1:] if x.kind == "bind" and x.term[1] == e.term[1]]
            if later and not later[0].guards and later[0].iters == e.iters:
                drop.add(i)
    if drop:
        out = [e for i, e in enumerate(out) if i not in drop]
        for i, e in enumerate(out):
            e.idx = i
    return Summary(s.func, out, [e for e in out if e.kind == "return"], s.env, s.locals, s.unknowns)


def _takes(t: Any) -> bool:
    return any(x[0] == "call" and ((x[1][0] == "attr" and x[1][2] in _TAKERS) or (x[1][0] == "glob" and x[1][1].rsplit(".", 1)[-1] in _TAKERS)) for x in T.subterms(t))


def thin_wrappers(prog: Program) -> Dict[str, Tuple[FuncInfo, FuncInfo, Optional[str], List[str], Dict[str, str]]]:
    """Functions of the pinned tree that a later change turned into a mere spelling of a new function or method
    (`def f(a, b, c=0): return a.g(b, c=c)`): simple name of the new one -> (f, g, receiver parameter, positional
    parameters, keyword -> parameter).  A call of g is then read as the call of f that it stands for: f stays
    the name of the operation for every rule that knows it."""
    cached = getattr(prog, "_thin", None)
    if cached is not None:
        return cached
    prog._thin = {}  # type: ignore[attr-defined]
    by_name: Dict[str, List[FuncInfo]] = {}
    for f in prog.all_functions():
        if not isinstance(f.node, ast.Lambda):
            by_name.setdefault(f.name, []).append(f)
    out = {}
    for F in prog.all_functions():
        if isinstance(F.node, ast.Lambda) or is_new_helper(F) or F.cls is not None or F.parent is not None:
            continue
        body = [st for st in F.node.body if not (isinstance(st, ast.Expr) and isinstance(st.value, ast.Constant))]
        if len(body) != 1 or not isinstance(body[0], ast.Return) or not isinstance(body[0].value, ast.Call):
            continue
        cl = body[0].value
        recv = None
        if isinstance(cl.func, ast.Attribute) and isinstance(cl.func.value, ast.Name):
            recv, nm = cl.func.value.id, cl.func.attr
        elif isinstance(cl.func, ast.Name):
            nm = cl.func.id
        else:
            continue
        cands = by_name.get(nm, [])
        if len(cands) != 1 or not is_new_helper(cands[0]) or (recv is None) != (cands[0].cls is None):
            continue
        if not all(isinstance(a, ast.Name) for a in cl.args) or not all(k.arg is not None and isinstance(k.value, ast.Name) for k in cl.keywords):
            continue
        used = ([recv] if recv else []) + [a.id for a in cl.args] + [k.value.id for k in cl.keywords]
        if sorted(used) != sorted(F.params) or len(set(used)) != len(used):
            continue
        out[nm] = (F, cands[0], recv, [a.id for a in cl.args], {k.arg: k.value.id for k in cl.keywords})
    prog._thin = out  # type: ignore[attr-defined]
    return out


def _as_wrapper_call(prog: Program, fi: FuncInfo, e: Event) -> Optional[Term]:
    """The call of the pinned tree's function that a call of the new function it merely wraps stands for."""
    if not (isinstance(e.term, tuple) and len(e.term) == 4 and e.term[0] == "call" and isinstance(e.term[1], tuple)):
        return None        # (the call's term was replaced by the value of an identical earlier call)
    f = e.term[1]
    nm = f[2] if (f[0] == "attr" and len(f) > 2) else f[1].rsplit(".", 1)[-1] if (f[0] == "glob" and isinstance(f[1], str)) else None
    tw = thin_wrappers(prog).get(nm) if nm is not None else None
    if tw is None:
        return None
    F, G, recv, pos, kwm = tw
    if fi.qualname == F.qualname or fi.qualname == G.qualname:
        return None
    if (recv is not None) != (f[0] == "attr"):
        return None
    mapping = _bind_params(G, f[1] if recv is not None else None, e.term[2], e.term[3])
    if mapping is None:
        return None
    gp = list(G.params)
    of: Dict[str, Term] = {}
    if recv is not None:
        of[recv] = mapping[T.var(gp[0])]
        gp = gp[1:]
    for fp, g_name in zip(pos, gp):
        of[fp] = mapping[T.var(g_name)]
    for g_name, fp in kwm.items():
        of[fp] = mapping[T.var(g_name)]
    vals = [of[p] for p in F.params]
    a = F.node.args
    names = [x.arg for x in a.posonlyargs + a.args]
    dfl = {n: d.value for n, d in zip(names[len(names) - len(a.defaults):], a.defaults) if isinstance(d, ast.Constant)}
    while vals and F.params[len(vals) - 1] in dfl and vals[-1] == T.const(dfl[F.params[len(vals) - 1]]):
        vals.pop()
    return ("call", T.glob(F.qualname), tuple(vals), ())


_DEFERRED_GEN = [False]


def _splice_pass(prog: Program, fi: FuncInfo, events: List[Event], defer_generators: bool = False) -> Tuple[List[Event], bool]:
    subst: Dict[Term, Term] = {}
    out: List[Event] = []

    def add(kind, term, node, stmt, guards, iters, tries, awaited, extra, raw=None) -> Event:
        ev = Event(len(out), kind, term, term if raw is None else raw, node, stmt, guards, iters, tries, awaited, extra)
        out.append(ev)
        return ev

    changed = False
    skip_await_of: Set[Term] = set()
    survived: Tuple[Term, ...] = ()      # "the spliced helper did not raise": holds for everything after its call
    pending_cm: List[Tuple] = []         # context-manager helpers whose `with` body is being copied
    for e in events:
        term = T.replace(e.term, subst) if subst else e.term
        guards = T.replace(e.guards, subst) if subst else e.guards
        if survived:
            guards = tuple(guards) + tuple(g for g in survived if g not in guards)
        iters = T.replace(e.iters, subst) if subst else e.iters
        if e.kind == "await" and e.term in skip_await_of:
            continue              # the await of a spliced coroutine helper: its own awaits stand here now
        # leaving the body of a `with` over a spliced context manager: what it does after its yield happens here
        while pending_cm and id(e.stmt) not in pending_cm[-1][0]:
            _ids, post, ctx_g, ctx_i, ctx_t, full_cm, cq = pending_cm.pop()[:7]
            for ce in post:
                add(ce.kind, T.replace(ce.term, full_cm), ce.node, e.stmt, ctx_g + T.replace(ce.guards, full_cm), ctx_i + T.replace(ce.iters, full_cm),
                    ctx_t + ce.tries, ce.awaited, dict(ce.extra, via=cq), raw=T.replace(ce.raw, full_cm))
        if pending_cm:
            # inside such a body: under the try context of the yield
            ytries = tuple(t for pc in pending_cm for t in pc[7])
            e = Event(e.idx, e.kind, e.term, e.raw, e.node, e.stmt, e.guards, e.iters, e.tries[:pending_cm[0][8]] + ytries + e.tries[pending_cm[0][8]:], e.awaited, e.extra)
        if e.kind == "call" and "spliced_call" not in e.extra and e.term[0] == "call":
            wc = _as_wrapper_call(prog, fi, Event(e.idx, e.kind, term, term, e.node, e.stmt, guards, iters, e.tries, e.awaited, e.extra))
            if wc is not None:
                subst[e.term] = wc
                add("call", wc, e.node, e.stmt, guards, iters, e.tries, e.awaited, e.extra)
                changed = True
                continue
        callee, recv = _resolve_callee(prog, fi, e) if (e.kind == "call" and "spliced_call" not in e.extra) else (None, None)
        if callee is not None and _is_context_manager(callee) and is_new_helper(callee) and spliceable(prog, fi, callee) and isinstance(e.stmt, (ast.With, ast.AsyncWith)) \
                and any(it.context_expr is e.node for it in e.stmt.items):
            args = T.replace(e.term[2], subst) if subst else e.term[2]
            kws = T.replace(e.term[3], subst) if subst else e.term[3]
            mapping = _bind_params(callee, None, args, kws)
            if mapping is not None:
                cs = spliced(prog, callee)
                y = [ce for ce in cs.events if ce.kind == "yield"][0]
                add("spliced", ("marker", callee.qualname), e.node, e.stmt, guards, iters, e.tries, e.awaited, dict(e.extra, spliced_call=callee.qualname))
                full = {T.var(n): T.var(f"{n}§{callee.name}") for n in cs.locals if T.var(n) not in mapping}
                full.update(mapping)
                off = 1000 * (1 + len(out))
                renum = lambda tr: tuple((tid + off, role) for tid, role in tr)  # noqa: E731
                for ce in cs.events:
                    if ce.idx < y.idx and ce.kind != "return":
                        add(ce.kind, T.replace(ce.term, full), ce.node, e.stmt, guards + T.replace(ce.guards, full), iters + T.replace(ce.iters, full),
                            e.tries + renum(ce.tries), ce.awaited, dict(ce.extra, via=callee.qualname), raw=T.replace(ce.raw, full))
                post = [Event(ce.idx, ce.kind, ce.term, ce.raw, ce.node, ce.stmt, ce.guards, ce.iters, renum(ce.tries), ce.awaited, ce.extra)
                        for ce in cs.events if ce.idx > y.idx and ce.kind != "return"]
                body_ids = {id(n) for st2 in e.stmt.body for n in ast.walk(st2)} | {id(e.stmt)}
                pending_cm.append((body_ids, post, tuple(guards), tuple(iters), tuple(e.tries), full, callee.qualname, renum(y.tries), len(e.tries)))
                subst[("enter", e.term)] = T.replace(y.term, full)
                changed = True
                continue
        if defer_generators and callee is not None and not _is_context_manager(callee) and is_new_helper(callee) and not isinstance(callee.node, ast.Lambda):
            cs_d = summarise(prog, callee)
            if any(x.kind == "yield" for x in cs_d.events) and any(x.kind in ("store", "del", "call") and x.iters for x in cs_d.events):
                # a generator helper that does something between its yields: first see (next round) whether a loop consumes it
                _DEFERRED_GEN[0] = True
                callee = None
        if callee is not None and not _is_context_manager(callee) and spliceable(prog, fi, callee) and (not callee.is_async or e.awaited):
            args = T.replace(e.term[2], subst) if subst else e.term[2]
            kws = T.replace(e.term[3], subst) if subst else e.term[3]
            mapping = _bind_params(callee, T.replace(recv, subst) if (recv is not None and subst) else recv, args, kws)
            if mapping is not None:
                cs = spliced(prog, callee) if is_new_helper(callee) else summarise(prog, callee)
                # the call itself: a plain call event for helpers of the pinned tree; only a marker (kind
                # "spliced") for helpers introduced later, whose call is not a fact of its own
                add("spliced" if is_new_helper(callee) else e.kind, ("marker", callee.qualname) if is_new_helper(callee) else ("call", e.term[1], args, kws), e.node, e.stmt, guards, iters, e.tries, e.awaited, dict(e.extra, spliced_call=callee.qualname))
                # locals of the helper must not collide with the caller's names (nor with those of another call of it)
                nth = sum(1 for x in out if isinstance(x.extra, dict) and x.extra.get("spliced_call") == callee.qualname)
                sfx = f"§{callee.name}" if nth <= 1 else f"§{callee.name}§{nth}"
                out[-1].extra["suffix"] = sfx
                locs = {T.var(n): T.var(f"{n}{sfx}") for n in cs.locals if T.var(n) not in mapping}
                full = dict(locs)
                full.update(mapping)
                taken: Dict[int, Term] = {}
                for ce in cs.events:
                    if ce.kind == "return":
                        continue
                    if ce.kind == "yield" and _takes(ce.term):
                        # a value that is taken out of a container as it is yielded: name it once (using the expression
                        # wherever the consumer uses the value would repeat the removal)
                        tv = T.var(f"yielded{len(taken) + 1}{sfx}")
                        taken[ce.idx] = tv
                        add("bind", ("bind", tv, T.replace(ce.term, full)), ce.node, e.stmt, guards + T.replace(ce.guards, full), iters + T.replace(ce.iters, full),
                            e.tries + ce.tries, False, dict(ce.extra, via=callee.qualname))
                    add(ce.kind, taken.get(ce.idx, T.replace(ce.term, full)) if ce.kind == "yield" else T.replace(ce.term, full), ce.node, e.stmt, guards + T.replace(ce.guards, full), iters + T.replace(ce.iters, full),
                        e.tries + ce.tries, ce.awaited, dict(ce.extra, via=callee.qualname), raw=T.replace(ce.raw, full))
                # an early `raise` of the helper ends the caller, too: what follows the call runs under its negation
                if not e.tries:
                    for ce in cs.events:
                        if ce.kind == "raise" and not ce.iters and ce.guards and not any(r == "body" for _, r in ce.tries):
                            gts = tuple(T.guard_term(g) for g in T.replace(ce.guards, full))
                            cond = gts[0] if len(gts) == 1 else ("and", gts)
                            survived = survived + (("g", cond, False),)
                ys = [ce for ce in cs.events if ce.kind == "yield"]
                if ys:
                    rv = ("bag", tuple(("elem", taken.get(ce.idx, ce.term), tuple(ce.guards), tuple(ce.iters)) for ce in ys), "gen")
                else:
                    rv = fold_returns(cs)
                val = T.replace(rv, full) if rv is not None else T.NONE
                subst[e.term] = val
                if callee.is_async:
                    subst[("await", e.term)] = val
                    skip_await_of.add(e.term)
                changed = True
                continue
        add(e.kind, term, e.node, e.stmt, guards, iters, e.tries, e.awaited, e.extra, raw=(T.replace(e.raw, subst) if subst else e.raw))
    while pending_cm:
        _ids, post, ctx_g, ctx_i, ctx_t, full_cm, cq = pending_cm.pop()[:7]
        for ce in post:
            add(ce.kind, T.replace(ce.term, full_cm), ce.node, ce.stmt, ctx_g + T.replace(ce.guards, full_cm), ctx_i + T.replace(ce.iters, full_cm),
                ctx_t + ce.tries, ce.awaited, dict(ce.extra, via=cq), raw=T.replace(ce.raw, full_cm))
    return out, changed


def _inline_generators(prog: Program, fi: FuncInfo, events: List[Event]) -> Tuple[List[Event], bool]:
    """`for t in gen(args): BODY` over a generator helper that a later change introduced is the generator's body with BODY in the
    place of every `yield` (the value bound to t): what the generator does between two yields (shuffling, counting, removing)
    happens between two runs of BODY, in that order.  Only when the call's value is used by exactly one loop and nowhere else but
    in collections built by that loop."""
    for ci, e in enumerate(events):
        if e.kind != "call" or e.term[0] != "call" or (isinstance(e.extra, dict) and "spliced_call" in e.extra):
            continue
        callee, recv = _resolve_callee(prog, fi, e)
        if callee is None or isinstance(callee.node, ast.Lambda) or not is_new_helper(callee) or callee.is_async or _is_context_manager(callee) or callee.qualname == fi.qualname:
            continue
        cs0 = summarise(prog, callee)
        ys0 = [x for x in cs0.events if x.kind == "yield"]
        if not ys0 or len(cs0.events) > 200 or any(r.term != T.NONE for r in cs0.returns) or any(x.kind == "await" for x in cs0.events):
            continue
        if not any(x.kind in ("store", "del", "call") and x.iters for x in cs0.events):
            continue        # nothing happens between the yields: the pure form (a collection) is read as before
        callterm = e.term

        def loop_pos(x: Event) -> Optional[int]:
            for k, it in enumerate(x.iters):
                if T.is_term(it) and it[0] == "it" and len(it) >= 3 and T.strip(it[2]) == callterm:
                    return k
            return None
        cons = [j for j, x in enumerate(events) if j > ci and loop_pos(x) is not None]
        if not cons or cons != list(range(cons[0], cons[-1] + 1)):
            continue
        mapping = _bind_params(callee, recv, e.term[2], e.term[3])
        if mapping is None:
            continue
        cs = spliced(prog, callee)
        sfx = f"§{callee.name}"
        full = {T.var(n): T.var(f"{n}{sfx}") for n in cs.locals if T.var(n) not in mapping}
        full.update(mapping)
        first = events[cons[0]]
        k0 = loop_pos(first)
        tgt = first.iters[k0][1]
        outer_iters = tuple(first.iters[:k0])
        g0 = tuple(first.guards)
        for j in cons:
            g0 = tuple(a for a, b in zip(g0, events[j].guards) if a == b)[:len(g0)]

        def at_yield(y: Event):
            """(extra iters, extra guards, substitution for the loop target) of one yield"""
            yv = T.replace(y.term, full)
            yi = tuple(T.replace(y.iters, full))
            yg = tuple(T.replace(y.guards, full))
            sv = T.strip(yv)
            if sv[0] == "star":
                return yi + (("it", tgt, sv[1]),), yg, {}
            if tgt[0] == "tuple" and sv[0] == "tuple" and len(tgt[1]) == len(sv[1]):
                return yi, yg, {a: b for a, b in zip(tgt[1], sv[1])}
            if tgt[0] == "var":
                return yi, yg, {tgt: yv}
            return None

        plans = [at_yield(y) for y in cs.events if y.kind == "yield"]
        if any(pl is None for pl in plans):
            continue
        out: List[Event] = list(events[:ci]) + [x for x in events[ci + 1:cons[0]] if not (x.kind == "test" and T.contains((x.term,), callterm))]
        mk = Event(0, "spliced", ("marker", callee.qualname), ("marker", callee.qualname), e.node, e.stmt, e.guards, e.iters, e.tries, e.awaited, dict(e.extra, spliced_call=callee.qualname, suffix=sfx))
        out.append(mk)
        pi = 0
        for ce in cs.events:
            if ce.kind == "return":
                continue
            if ce.kind != "yield":
                out.append(Event(0, ce.kind, T.replace(ce.term, full), T.replace(ce.raw, full), ce.node, first.stmt, g0 + tuple(T.replace(ce.guards, full)),
                                 outer_iters + tuple(T.replace(ce.iters, full)), first.tries + ce.tries, ce.awaited, dict(ce.extra, via=callee.qualname)))
                continue
            yi, yg, sub = plans[pi]
            pi += 1
            for j in cons:
                x = events[j]
                k = loop_pos(x)
                gs = g0 + yg + tuple(x.guards[len(g0):])
                its = tuple(x.iters[:k]) + yi + tuple(x.iters[k + 1:])
                if sub:
                    out.append(Event(0, x.kind, T.replace(x.term, sub), T.replace(x.raw, sub), x.node, x.stmt, T.replace(gs, sub), T.replace(its, sub), x.tries, x.awaited, x.extra))
                else:
                    out.append(Event(0, x.kind, x.term, x.raw, x.node, x.stmt, gs, its, x.tries, x.awaited, x.extra))

        def rebag(t: Any) -> Any:
            """collections built by the consumer loop (comprehension / accumulator over the generator): one element per yield"""
            if not isinstance(t, tuple):
                return t
            t = tuple(rebag(x) for x in t)
            if T.is_term(t) and t[0] == "bag" and len(t) >= 2 and isinstance(t[1], tuple):
                els = []
                hit = False
                for el in t[1]:
                    kk = None
                    if T.is_term(el) and el[0] == "elem" and len(el) == 4:
                        for k, it in enumerate(el[3]):
                            if T.is_term(it) and it[0] == "it" and len(it) >= 3 and T.strip(it[2]) == callterm:
                                kk = k
                                break
                    if kk is None:
                        els.append(el)
                        continue
                    hit = True
                    etgt = el[3][kk][1]
                    for (yi, yg, sub) in plans:
                        sub2 = dict(sub)
                        if sub and etgt != tgt and etgt[0] == "tuple" and tgt[0] == "tuple" and len(etgt[1]) == len(tgt[1]):
                            sub2 = {a: sub.get(b, b) for a, b in zip(etgt[1], tgt[1])}
                        yi2 = tuple((("it", etgt, i2[2]) if (not sub and i2 == ("it", tgt, i2[2]) and i2 is yi[-1]) else i2) for i2 in yi)
                        nel = ("elem", T.replace(el[1], sub2) if sub2 else el[1], tuple(yg) + tuple(T.replace(el[2], sub2) if sub2 else el[2]),
                               tuple(el[3][:kk]) + yi2 + tuple(T.replace(el[3][kk + 1:], sub2) if sub2 else el[3][kk + 1:]))
                        els.append(nel)
                if hit:
                    return ("bag", tuple(els)) + tuple(t[2:])
            return t
        for x in events[cons[-1] + 1:]:
            if T.contains((x.term, x.guards, x.iters), callterm):
                out.append(Event(0, x.kind, rebag(x.term), rebag(x.raw), x.node, x.stmt, rebag(x.guards), rebag(x.iters), x.tries, x.awaited, x.extra))
            else:
                out.append(x)
        if any(T.contains((x.term, x.guards, x.iters), callterm) for x in out):
            continue        # the generator object is used in another way as well: leave everything as it is
        for i, ev in enumerate(out):
            ev.idx = i
        return out, True
    return events, False


def spliced(prog: Program, fi: FuncInfo) -> Summary:
    """The function's summary with the bodies of helpers spliced in at their call sites (small
    synchronous nested / same-module helpers of the pinned tree, and every helper that a later change
    introduced -- see known_functions.txt): parameters substituted, the helper's events re-guarded by
    the call site's context, and later uses of the call's value replaced by the helper's folded
    return value.  Extracting a block into a helper then leaves the facts the rules look at unchanged."""
    cached = getattr(fi, "_spliced", None)
    if cached is not None:
        return cached
    base = summarise(prog, fi)
    if fi.qualname in _SPLICING:
        return base
    _SPLICING.add(fi.qualname)
    try:
        changed = False
        out: List[Event] = list(base.events)
        # several rounds: fusing the first round's results can expose further calls (a method called on each
        # element of a collection of value-class constructors that a generator helper produced)
        for _round in range(5):
            out, chg = _inline_generators(prog, fi, out)
            _DEFERRED_GEN[0] = False
            out2, ch = _splice_pass(prog, fi, out, defer_generators=(_round == 0))
            deferred = _DEFERRED_GEN[0]
            changed = changed or chg
            if not ch and not chg and not deferred:
                break
            changed = True
            out = fuse_events(out2)
            for i, ev in enumerate(out):
                ev.idx = i
        # a property that a later change added to a package class, read on an expression of that class: its value
        new_props = {m.name for c2 in prog.classes.values() for m in c2.methods.values()
                     if not isinstance(m.node, ast.Lambda) and is_new_helper(m) and any(ast.unparse(d) == "property" for d in m.node.decorator_list)}
        if new_props:
            out3: List[Event] = []
            ch3 = False
            for e in out:
                m3: Dict[Term, Term] = {}
                for x in T.subterms((e.term, e.guards, e.iters)):
                    if x[0] == "attr" and len(x) == 3 and x[2] in new_props and x not in m3:
                        pm = _typed_method(prog, fi, e, x[1], x[2], "property")
                        rvx = T.record_values(x[1])
                        if pm is None and rvx is not None:
                            pm2 = prog.find_method(rvx[0], x[2])
                            pm = pm2 if pm2 is not None and any(ast.unparse(d) == "property" for d in pm2.node.decorator_list) else None
                        if pm is not None and pm.params:
                            ps = spliced(prog, pm)
                            rv = fold_returns(ps)
                            if rv is not None and not any(ev.kind in ("store", "await", "del", "raise", "yield") for ev in ps.events):
                                locs = {T.var(n): T.var(f"{n}§{pm.name}") for n in ps.locals if n != pm.params[0]}
                                locs[T.var(pm.params[0])] = x[1]
                                m3[x] = T.replace(T.strip(rv), locs)
                if m3:
                    ch3 = True
                    out3.append(Event(e.idx, e.kind, T.replace(e.term, m3), replace_stripped(e.raw, m3), e.node, e.stmt, T.replace(e.guards, m3), T.replace(e.iters, m3), e.tries, e.awaited, e.extra))
                else:
                    out3.append(e)
            if ch3:
                out = out3
                changed = True
        # `super().<property>`: the value of the base class's property on the same object
        if fi.cls is not None and fi.params:
            SUP = ("call", ("glob", "super"), (), ())
            props: Dict[Term, Term] = {}
            for e in out:
                for x in T.subterms((e.term, e.guards)):
                    if x[0] == "attr" and x[1] == SUP and x not in props:
                        for b in prog.mro(fi.cls)[1:]:
                            pm = b.methods.get(x[2])
                            if pm is not None:
                                if any(ast.unparse(d) == "property" for d in pm.node.decorator_list):
                                    ps = summarise(prog, pm)
                                    rv = fold_returns(ps)
                                    if rv is not None and len(ps.events) <= 4:
                                        props[x] = T.replace(T.strip(rv), {T.var(pm.params[0]): T.var(fi.params[0])})
                                break
            if props:
                out = [Event(e.idx, e.kind, T.replace(e.term, props), T.replace(e.raw, props), e.node, e.stmt, T.replace(e.guards, props), T.replace(e.iters, props), e.tries, e.awaited, e.extra) for e in out]
                changed = True
        if not changed:
            fi._spliced = base  # type: ignore[attr-defined]
            return base
        out = fuse_events(out)
        s2 = Summary(fi, out, [e for e in out if e.kind == "return"], base.env, base.locals, base.unknowns)
        fi._spliced = s2  # type: ignore[attr-defined]
        return s2
    finally:
        _SPLICING.discard(fi.qualname)


# ----------------------------------------------------------------------------- value classes as tuples
def final(prog: Program, fi: FuncInfo) -> Summary:
    """What the rules read: the spliced summary in which the package's NamedTuple value classes are plain tuples --
    `C(a, b)` is the display `(a, b)`, and `x.field` on an expression whose (annotation-inferred) class is C is
    `x[i]`.  Replacing a tuple by a NamedTuple (or back) then changes nothing the rules look at."""
    cached = getattr(fi, "_final", None)
    if cached is not None:
        return cached
    s = spliced(prog, fi)
    recs = {q: r for q, r in prog.records().items() if r[2]}
    if fi.qualname in _SPLICING or not recs:
        if fi.qualname not in _SPLICING:
            fi._final = s  # type: ignore[attr-defined]
        return s
    names = {f for r in recs.values() for f in r[0]}
    from . import types as TY
    ty = getattr(prog, "_typer", None)
    if ty is None:
        ty = TY.Typer(prog)
        prog._typer = ty  # type: ignore[attr-defined]

    def conv(t: Any, env: Dict[str, Any]) -> Any:
        if not isinstance(t, tuple):
            return t
        if T.is_term(t) and t[0] == "attr" and len(t) == 3 and t[2] in names:
            try:
                bt = TY.Typer.unopt(ty.type_of(T.strip(t[1]), env))
            except Exception:
                bt = None
            if isinstance(bt, tuple) and len(bt) == 2 and bt[0] == "cls" and bt[1] in recs and t[2] in recs[bt[1]][0]:
                return ("idx", conv(t[1], env), ("const", recs[bt[1]][0].index(t[2])))
        t2 = tuple(conv(x, env) for x in t)
        if T.is_term(t2) and t2[0] == "call":
            rv = T.record_values(t2)
            if rv is not None and rv[0] in recs:
                return ("tuple", tuple(rv[1][f] for f in recs[rv[0]][0]))
        return t2

    out: List[Event] = []
    changed = False
    for e in s.events:
        probe = (e.term, e.guards, e.iters)
        if not any(T.is_term(x) and ((x[0] == "attr" and len(x) == 3 and x[2] in names) or (x[0] == "glob" and x[1] in recs)) for x in T.subterms(probe)):
            out.append(e)
            continue
        try:
            env = ty.event_env(fi, e)
        except Exception:
            env = {}
        term, guards, iters = conv(e.term, env), conv(e.guards, env), conv(e.iters, env)
        if e.kind == "call" and term[0] != "call":
            changed = True          # building a tuple is not a call
            continue
        if (term, guards, iters) != probe:
            changed = True
            out.append(Event(e.idx, e.kind, term, conv(e.raw, env), e.node, e.stmt, guards, iters, e.tries, e.awaited, e.extra))
        else:
            out.append(e)
    if changed:
        out = fuse_events(out)
        # an iteration variable that holds a tuple and is only ever indexed by constants is the tuple of its components
        # (`for k, v in d.items(): ... v[0] ... v[1]` is `for k, (v0, v1) in d.items(): ... v0 ... v1`)
        its_seen: Dict[Term, List[int]] = {}
        for i, e in enumerate(out):
            for it in e.iters:
                if T.is_term(it) and it[0] == "it" and len(it) >= 3:
                    its_seen.setdefault(it, []).append(i)
        ren_it: Dict[Term, Term] = {}
        ren_use: Dict[Term, Dict[Term, Term]] = {}
        for it, idxs in its_seen.items():
            pvars = [x for x in T.subterms((it[1],)) if x[0] == "var"]
            for v in pvars:
                try:
                    env = ty.event_env(fi, out[idxs[0]])
                    vt = ty.as_tuple(TY.Typer.unopt(env.get(v[1], ("any",))))
                except Exception:
                    vt = ("any",)
                if vt[0] != "tuple":
                    continue
                n = len(vt[1])
                ok = True
                for i in idxs:
                    e = out[i]
                    k0 = e.iters.index(it)
                    blob = (e.term, e.guards, e.iters[k0 + 1:])
                    uses = sum(1 for x in T.subterms(blob) if x == v)
                    good = sum(1 for x in T.subterms(blob) if x[0] == "idx" and x[1] == v and x[2][0] == "const" and isinstance(x[2][1], int) and 0 <= x[2][1] < n)
                    if uses != good:
                        ok = False
                        break
                if not ok:
                    continue
                comps = tuple(T.var(f"{v[1]}§{k}") for k in range(n))
                ren_it[it] = T.replace(ren_it.get(it, it), {v: ("tuple", comps)})
                ren_use.setdefault(it, {}).update({("idx", v, T.const(k)): comps[k] for k in range(n)})
        if ren_it:
            out2: List[Event] = []
            for e in out:
                m2: Dict[Term, Term] = {}
                for it in e.iters:
                    if it in ren_use:
                        m2.update(ren_use[it])
                if m2:
                    iters2 = tuple(T.replace(ren_it.get(it, it), m2) if it in ren_it else T.replace(it, m2) for it in e.iters)
                    out2.append(Event(e.idx, e.kind, T.replace(e.term, m2), T.replace(e.raw, m2), e.node, e.stmt, T.replace(e.guards, m2), iters2, e.tries, e.awaited, e.extra))
                else:
                    out2.append(e)
            out = out2
        s = Summary(fi, out, [e for e in out if e.kind == "return"], s.env, s.locals, s.unknowns)
    fi._final = s  # type: ignore[attr-defined]
    return s
