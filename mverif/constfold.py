"""Constant folding over terms: decides a condition once a symbolic value has been replaced by a
concrete *display* (a list / tuple / dict literal as written at a call site).

Used where a rule knows every concrete shape a value can have (the request displays at the
proxy send sites, representative version lists): a condition over the value is then decided by
Python's own literal semantics (a list never equals a tuple, sequences compare element-wise)
instead of by pattern-matching the one spelling the current tree uses.  Folding is partial: what
is not a literal stays symbolic and the caller sees "unknown"."""
from __future__ import annotations

from typing import Any, Optional, Tuple

from . import terms as T
from .terms import Term

UNDECIDED = object()


def display(t: Term) -> Optional[Tuple[str, tuple]]:
    """('list'|'tuple'|'dict', elements) for a literal display without comprehension parts."""
    if t[0] == "bag" and len(t) > 2 and t[2] == "list" and all(not x[2] and not x[3] for x in t[1]):
        return "list", tuple(x[1] for x in t[1])
    if t[0] == "tuple":
        return "tuple", tuple(t[1])
    if t[0] == "dict":
        return "dict", tuple(t[1])
    return None


def equal(a: Term, b: Term) -> Any:
    """True / False / UNDECIDED for `a == b` by literal semantics."""
    if a[0] == "const" and b[0] == "const":
        return a[1] == b[1]
    da, db = display(a), display(b)
    if da is not None and db is not None:
        if da[0] != db[0] or len(da[1]) != len(db[1]):
            return False
        if da[0] == "dict":
            return True if not da[1] else (True if da[1] == db[1] else UNDECIDED)
        res: Any = True
        for x, y in zip(da[1], db[1]):
            r = equal(x, y)
            if r is False:
                return False
            if r is UNDECIDED:
                res = UNDECIDED
        return res
    if (da is not None and b[0] == "const") or (db is not None and a[0] == "const"):
        return False                      # a display never equals a scalar constant
    if a == b and a[0] in ("var", "attr", "idx"):
        return True
    return UNDECIDED


def fold(t: Any) -> Any:
    """Bottom-up folding of indexing, len(), equality and order tests on literals."""
    if not isinstance(t, tuple) or not t:
        return t
    if not T.is_term(t):
        return tuple(fold(x) for x in t)
    if t[0] == "const":
        return t
    t = tuple(fold(x) for x in t)
    k = t[0]
    if k == "idx":
        d = display(t[1]) if T.is_term(t[1]) else None
        if d is not None and d[0] in ("list", "tuple") and t[2][0] == "const" and isinstance(t[2][1], int):
            i = t[2][1]
            if -len(d[1]) <= i < len(d[1]):
                return d[1][i]
        if d is not None and d[0] in ("list", "tuple") and t[2][0] == "slice":
            bounds = []
            for b in t[2][1:4]:
                if b == T.NONE or b is None:
                    bounds.append(None)
                elif isinstance(b, tuple) and b[0] == "const" and isinstance(b[1], int):
                    bounds.append(b[1])
                else:
                    return t
            cut = d[1][slice(*bounds)]
            if d[0] == "tuple":
                return ("tuple", tuple(cut))
            return ("bag", tuple(("elem", x, (), ()) for x in cut), "list")
        return t
    if k == "call" and t[1] == T.glob("len") and len(t[2]) == 1:
        d = display(t[2][0])
        if d is not None:
            return T.const(len(d[1]))
        return t
    if k == "cmp":
        op, a, b = t[1], t[2], t[3]
        if op in ("==", "!="):
            r = equal(a, b)
            if r is not UNDECIDED:
                return T.const(r if op == "==" else not r)
            return t
        if op in ("is", "isnot") and a[0] == "const" and b[0] == "const" and (a[1] is None or b[1] is None or isinstance(a[1], bool) and isinstance(b[1], bool)):
            return T.const((a[1] is b[1]) == (op == "is"))
        if op in ("is", "isnot") and ((a == T.NONE and display(b) is not None) or (b == T.NONE and display(a) is not None)):
            return T.const(op == "isnot")
        if op in ("<", "<=") and a[0] == "const" and b[0] == "const":
            try:
                return T.const(a[1] < b[1] if op == "<" else a[1] <= b[1])
            except TypeError:
                return t
        if op in ("<", "<="):
            da, db = display(a), display(b)
            if da and db and da[0] == db[0] and da[0] in ("list", "tuple") \
                    and all(x[0] == "const" for x in da[1] + db[1]):
                try:
                    la, lb = [x[1] for x in da[1]], [x[1] for x in db[1]]
                    return T.const(la < lb if op == "<" else la <= lb)
                except TypeError:
                    return t
        if op in ("in", "notin"):
            d = display(b)
            if d is not None and d[0] in ("list", "tuple"):
                rs = [equal(a, x) for x in d[1]]
                if any(r is True for r in rs):
                    return T.const(op == "in")
                if all(r is False for r in rs):
                    return T.const(op != "in")
        return t
    if k == "not" and t[1][0] == "const":
        return T.const(not t[1][1])
    return t


def decide(t: Term, mapping) -> Optional[bool]:
    """Truth value of condition `t` after substituting `mapping`, or None."""
    v = fold(T.replace(T.strip(t), mapping))
    if isinstance(v, tuple) and v and v[0] == "const":
        return bool(v[1])
    return None
