"""Statement-level control-flow graph of one function, with suspension flags.

Nodes are (ast-node-id, variant) keys: one per simple statement, one per compound-statement
header (if/while test, for iterator, with item, except clause).  `finally` bodies are duplicated
for the normal ('') and the exceptional ('x<n>') continuation.  Edge kinds:
  next / T / F / back   ordinary control flow
  raise                 explicit `raise` / failing `assert`
  exc                   implicit exception out of a statement that contains a call, await, ...
  cancel                CancelledError delivered at a suspension point (not caught by
                        `except Exception`)
Special nodes: ENTRY, RETURN (normal exit), RAISE (exceptional exit).
"""
from __future__ import annotations

import ast
from typing import Dict, Iterable, List, Optional, Sequence, Set, Tuple

import networkx as nx

from .loader import FuncInfo

ENTRY = ("ENTRY", "")
RETURN = ("RETURN", "")
RAISE = ("RAISE", "")

Key = Tuple[object, str]

_CATCH_ALL = {"BaseException"}
_CATCH_EXC = {"Exception"}


def _has_await(n: ast.AST) -> bool:
    for c in ast.walk(n):
        if isinstance(c, (ast.Await, ast.AsyncFor, ast.AsyncWith)):
            return True
        if isinstance(c, (ast.Yield, ast.YieldFrom)):
            return True
    return False


def _header_nodes(st: ast.AST) -> List[ast.AST]:
    """The expression parts evaluated at a compound statement's header."""
    if isinstance(st, (ast.If, ast.While)):
        return [st.test]
    if isinstance(st, (ast.For, ast.AsyncFor)):
        return [st.iter]
    if isinstance(st, (ast.With, ast.AsyncWith)):
        return [i.context_expr for i in st.items]
    if isinstance(st, ast.ExceptHandler):
        return [st.type] if st.type is not None else []
    return [st]


def _may_raise(parts: Iterable[ast.AST]) -> bool:
    for p in parts:
        for c in ast.walk(p):
            if isinstance(c, (ast.Call, ast.Await, ast.Subscript, ast.Yield, ast.YieldFrom, ast.BinOp)):
                return True
    return False


class CFG:
    def __init__(self, fi: FuncInfo):
        self.fi = fi
        self.g = nx.DiGraph()
        self.nodes_of_ast: Dict[int, List[Key]] = {}
        self.ast_of: Dict[Key, ast.AST] = {}
        self.suspends: Set[Key] = set()
        self._variant_counter = 0
        for n in (ENTRY, RETURN, RAISE):
            self.g.add_node(n)
        body = fi.node.body if not isinstance(fi.node, ast.Lambda) else []
        # frames: list of dicts describing enclosing try / loop constructs
        first = self._block(body, [RETURN], [], "")
        for f in first:
            self._edge(ENTRY, f, "next")
        self._idom: Optional[Dict[Key, Key]] = None
        self._ipdom: Optional[Dict[Key, Key]] = None

    # ------------------------------------------------------------------ construction
    def _edge(self, a: Key, b: Key, kind: str) -> None:
        if self.g.has_edge(a, b):
            self.g[a][b]["kinds"].add(kind)
        else:
            self.g.add_edge(a, b, kinds={kind})

    def _node(self, st: ast.AST, variant: str) -> Key:
        k = (id(st), variant)
        if k not in self.ast_of:
            self.g.add_node(k)
            self.ast_of[k] = st
            self.nodes_of_ast.setdefault(id(st), []).append(k)
            hdr = _header_nodes(st)
            if any(_has_await(h) for h in hdr) or isinstance(st, (ast.AsyncFor, ast.AsyncWith)):
                self.suspends.add(k)
        return k

    def _exc_targets(self, frames: List[dict], variant: str, cancel: bool) -> List[Tuple[Key, str]]:
        """Where an exception raised in the current position goes (list of (node, kind))."""
        out: List[Tuple[Key, str]] = []
        for fr in reversed(frames):
            if fr["kind"] == "try-body":
                caught_all = False
                for hk, names in fr["handlers"]:
                    out.append((hk, "exc"))
                    if names & _CATCH_ALL or not names:
                        caught_all = True
                    elif names & _CATCH_EXC and not cancel:
                        caught_all = True
                if caught_all:
                    return out
                if fr.get("finally_exc") is not None:
                    out.append((fr["finally_exc"], "exc"))
                    return out
            elif fr["kind"] in ("try-handler", "try-else"):
                if fr.get("finally_exc") is not None:
                    out.append((fr["finally_exc"], "exc"))
                    return out
        out.append((RAISE, "exc"))
        return out

    def _connect_exc(self, k: Key, st: ast.AST, frames: List[dict], variant: str) -> None:
        hdr = _header_nodes(st)
        explicit = isinstance(st, ast.Raise) or isinstance(st, ast.Assert)
        if explicit or _may_raise(hdr):
            for tgt, _ in self._exc_targets(frames, variant, cancel=False):
                self._edge(k, tgt, "raise" if explicit else "exc")
        if k in self.suspends:
            for tgt, _ in self._exc_targets(frames, variant, cancel=True):
                self._edge(k, tgt, "cancel")

    def _block(self, body: Sequence[ast.stmt], follow: List[Key], frames: List[dict], variant: str) -> List[Key]:
        """Build the nodes of a statement list whose normal continuation is `follow`;
        return the entry node(s) of the block."""
        nxt = follow
        for st in reversed(body):
            nxt = self._stmt(st, nxt, frames, variant)
        return nxt

    def _loop_frame(self, frames: List[dict]) -> Optional[dict]:
        for fr in reversed(frames):
            if fr["kind"] == "loop":
                return fr
        return None

    def _through_finally(self, frames: List[dict], target_frames_stop: Optional[dict], final: List[Key], variant: str) -> List[Key]:
        """Route an abrupt exit (return/break/continue) through enclosing finally blocks."""
        tgt = final
        chain: List[dict] = []
        for fr in reversed(frames):
            if fr is target_frames_stop:
                break
            if fr["kind"] in ("try-body", "try-handler", "try-else") and fr.get("finalbody"):
                chain.append(fr)
        for fr in reversed(chain):
            self._variant_counter += 1
            v = f"a{self._variant_counter}"
            tgt = self._block(fr["finalbody"], tgt, fr["outer_frames"], variant + v)
        return tgt

    def _stmt(self, st: ast.stmt, follow: List[Key], frames: List[dict], variant: str) -> List[Key]:
        if isinstance(st, (ast.FunctionDef, ast.AsyncFunctionDef, ast.ClassDef)):
            k = (id(st), variant)
            self.g.add_node(k)
            self.ast_of[k] = st
            self.nodes_of_ast.setdefault(id(st), []).append(k)
            for f in follow:
                self._edge(k, f, "next")
            return [k]
        if isinstance(st, ast.If):
            k = self._node(st, variant)
            self._connect_exc(k, st, frames, variant)
            for f in self._block(st.body, follow, frames, variant):
                self._edge(k, f, "T")
            for f in self._block(st.orelse, follow, frames, variant):
                self._edge(k, f, "F")
            return [k]
        if isinstance(st, (ast.While, ast.For, ast.AsyncFor)):
            k = self._node(st, variant)
            self._connect_exc(k, st, frames, variant)
            fr = {"kind": "loop", "head": k, "after": follow}
            body_entry = self._block(st.body, [k], frames + [fr], variant)
            for f in body_entry:
                self._edge(k, f, "T")
            infinite = isinstance(st, ast.While) and isinstance(st.test, ast.Constant) and st.test.value is True
            if not infinite:
                for f in self._block(st.orelse, follow, frames, variant):
                    self._edge(k, f, "F")
            return [k]
        if isinstance(st, (ast.With, ast.AsyncWith)):
            k = self._node(st, variant)
            self._connect_exc(k, st, frames, variant)
            for f in self._block(st.body, follow, frames, variant):
                self._edge(k, f, "next")
            return [k]
        if isinstance(st, (ast.Try,)) or type(st).__name__ == "TryStar":
            return self._try(st, follow, frames, variant)
        # simple statements
        k = self._node(st, variant)
        if isinstance(st, ast.Return):
            for f in self._through_finally(frames, None, [RETURN], variant):
                self._edge(k, f, "next")
            self._connect_exc(k, st, frames, variant) if st.value is not None else None
            return [k]
        if isinstance(st, ast.Raise):
            self._connect_exc(k, st, frames, variant)
            return [k]
        if isinstance(st, (ast.Break, ast.Continue)):
            lf = self._loop_frame(frames)
            if lf is not None:
                tgt = lf["after"] if isinstance(st, ast.Break) else [lf["head"]]
                for f in self._through_finally(frames, lf, tgt, variant):
                    self._edge(k, f, "next" if isinstance(st, ast.Break) else "back")
            return [k]
        self._connect_exc(k, st, frames, variant)
        if isinstance(st, ast.Assert) and isinstance(st.test, ast.Constant) and st.test.value is False:
            return [k]
        for f in follow:
            self._edge(k, f, "next")
        return [k]

    def _try(self, st: ast.Try, follow: List[Key], frames: List[dict], variant: str) -> List[Key]:
        finalbody = st.finalbody
        if finalbody:
            fin_normal = self._block(finalbody, follow, frames, variant)
            self._variant_counter += 1
            xv = variant + f"x{self._variant_counter}"
            # exceptional copy continues to wherever the exception goes outside this try
            outer = [t for t, _ in self._exc_targets(frames, variant, cancel=True)]
            fin_exc_entry = self._block(finalbody, outer, frames, xv)
            fin_exc: Optional[Key] = fin_exc_entry[0] if fin_exc_entry else None
            after = fin_normal
        else:
            fin_exc = None
            after = follow
        handlers: List[Tuple[Key, Set[str]]] = []
        hframe = {"kind": "try-handler", "finally_exc": fin_exc, "finalbody": finalbody, "outer_frames": frames}
        for h in st.handlers:
            hk = self._node(h, variant)
            names: Set[str] = set()
            if h.type is not None:
                for c in ast.walk(h.type):
                    if isinstance(c, ast.Name):
                        names.add(c.id)
                    elif isinstance(c, ast.Attribute):
                        names.add(c.attr)
            handlers.append((hk, names))
            for f in self._block(h.body, after, frames + [hframe], variant):
                self._edge(hk, f, "next")
        bframe = {"kind": "try-body", "handlers": handlers, "finally_exc": fin_exc, "finalbody": finalbody, "outer_frames": frames}
        if st.orelse:
            eframe = {"kind": "try-else", "finally_exc": fin_exc, "finalbody": finalbody, "outer_frames": frames}
            else_entry = self._block(st.orelse, after, frames + [eframe], variant)
            return self._block(st.body, else_entry, frames + [bframe], variant)
        return self._block(st.body, after, frames + [bframe], variant)

    # ------------------------------------------------------------------ queries
    def keys(self, node: ast.AST) -> List[Key]:
        return self.nodes_of_ast.get(id(node), [])

    def key(self, node: ast.AST) -> Key:
        ks = self.keys(node)
        if not ks:
            raise KeyError(f"no CFG node for {type(node).__name__} at line {getattr(node, 'lineno', '?')}")
        # the primary (normal-flow) copy
        for k in ks:
            if k[1] == "":
                return k
        return ks[0]

    def view(self, kinds: Optional[Set[str]] = None, drop: Optional[Set[str]] = None) -> nx.DiGraph:
        if kinds is None and drop is None:
            return self.g
        h = nx.DiGraph()
        h.add_nodes_from(self.g.nodes)
        for a, b, d in self.g.edges(data=True):
            ks = d["kinds"]
            if kinds is not None and not (ks & kinds):
                continue
            if drop is not None and not (ks - drop):
                continue
            h.add_edge(a, b)
        return h

    NORMAL = {"next", "T", "F", "back"}

    def reachable_nodes(self) -> Set[Key]:
        return set(nx.descendants(self.g, ENTRY)) | {ENTRY}

    def dominates(self, a: Key, b: Key, normal_only: bool = False) -> bool:
        """Every path ENTRY -> b passes through a."""
        g = self.view(drop={"exc", "cancel"}) if normal_only else self.g
        if a == b:
            return True
        if b not in g or a not in g:
            return False
        if not nx.has_path(g, ENTRY, b):
            return True  # vacuous: b unreachable
        h = g.copy()
        h.remove_node(a)
        return not nx.has_path(h, ENTRY, b)

    def postdominates(self, b: Key, a: Key, exits: Sequence[Key] = (RETURN,), drop: Optional[Set[str]] = frozenset({"exc", "cancel"})) -> bool:
        """Every path a -> (one of exits) passes through b (implicit-exception edges ignored
        unless drop=None)."""
        g = self.view(drop=set(drop)) if drop else self.g
        if a == b:
            return True
        h = g.copy()
        if b in h:
            h.remove_node(b)
        return not any(e in h and a in h and nx.has_path(h, a, e) for e in exits)

    def between(self, a: Key, b: Key, drop: Optional[Set[str]] = None) -> Set[Key]:
        """Nodes that lie on some path from a to (the next occurrence of) b, excluding a, b."""
        g = self.view(drop=set(drop)) if drop else self.g
        fwd: Set[Key] = set()
        todo = [s for s in g.successors(a)]
        while todo:
            n = todo.pop()
            if n in fwd or n == b:
                continue
            fwd.add(n)
            todo.extend(g.successors(n))
        # keep only those from which b is reachable
        out = set()
        rg = g.reverse(copy=False)
        back: Set[Key] = set()
        todo = [p for p in rg.successors(b)] if b in rg else []
        while todo:
            n = todo.pop()
            if n in back or n == a:
                continue
            back.add(n)
            todo.extend(rg.successors(n))
        out = fwd & back
        return out

    def loop_body(self, header: Key) -> Set[Key]:
        """Nodes executed inside the loop whose header node is `header` (entered through the
        T edge, until control is back at the header or leaves through break/return/raise)."""
        out: Set[Key] = set()
        todo = [b for b in self.g.successors(header) if "T" in self.g[header][b]["kinds"]]
        while todo:
            n = todo.pop()
            if n in out or n == header or n in (RETURN, RAISE):
                continue
            out.add(n)
            for m in self.g.successors(n):
                if self.g[n][m]["kinds"] - {"exc", "cancel", "raise"}:
                    todo.append(m)
        # keep only nodes from which the header is reachable again (the body proper)
        rg = self.g.reverse(copy=False)
        back: Set[Key] = set()
        todo = list(rg.successors(header))
        while todo:
            n = todo.pop()
            if n in back or n == header or n not in out:
                continue
            back.add(n)
            todo.extend(rg.successors(n))
        return out & back

    def suspension_between(self, a: Key, b: Key, drop: Optional[Set[str]] = frozenset({"exc", "cancel", "raise"})) -> List[Key]:
        return sorted((n for n in self.between(a, b, set(drop) if drop else None) if n in self.suspends), key=str)

    def lineno(self, k: Key) -> int:
        n = self.ast_of.get(k)
        return getattr(n, "lineno", 0) if n is not None else 0

    def describe(self, k: Key) -> str:
        if k in (ENTRY, RETURN, RAISE):
            return str(k[0])
        n = self.ast_of[k]
        return f"{type(n).__name__}@{getattr(n, 'lineno', '?')}{('/' + k[1]) if k[1] else ''}"


def cfg_of(fi: FuncInfo) -> CFG:
    c = getattr(fi, "_cfg", None)
    if c is None:
        c = CFG(fi)
        fi._cfg = c  # type: ignore[attr-defined]
    return c
