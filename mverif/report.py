"""Obligations, verdicts, known-findings matching, evidence files, exit codes."""
from __future__ import annotations

import json
import os
import time
from dataclasses import dataclass, field, asdict
from typing import Any, Dict, Iterable, List, Optional, Sequence, Tuple

VERIF_DIR = os.path.dirname(os.path.dirname(os.path.abspath(__file__)))
EVIDENCE_DIR = os.path.join(VERIF_DIR, "evidence")
REPLAY_DIR = os.path.join(EVIDENCE_DIR, "replay")
KNOWN_FINDINGS = os.path.join(VERIF_DIR, "known_findings.json")

DISCHARGED, VIOLATED, UNKNOWN = "discharged", "violated", "unknown"


@dataclass
class Obligation:
    rule: str          # e.g. "R1"
    oid: str           # e.g. "R1/O1"  (sub-obligation; properties select by oid prefix)
    func: str          # anchor (qualified name)
    construct: str     # normalised construct the obligation is about (identity, no line numbers)
    verdict: str
    detail: str = ""
    loc: str = ""
    nontrivial: bool = True   # has a non-empty slice / matched construct

    @property
    def key(self) -> str:
        return f"{self.oid}|{self.func}|{self.construct}"

    def line(self) -> str:
        return f"{self.loc} {self.oid} {self.func}: {self.construct} -- {self.verdict}" + (f": {self.detail}" if self.detail else "")


import re as _re
_SPLICE_SUFFIX = _re.compile(r"§[A-Za-z_][A-Za-z_0-9]*(§[0-9]+)?")


class Collector:
    """Per-rule obligation collector with convenience constructors."""

    def __init__(self, rule: str):
        self.rule = rule
        self.obs: List[Obligation] = []
        self.info: Dict[str, Any] = {}

    def add(self, sub: str, func: str, construct: str, verdict: str, detail: str = "", loc: str = "", nontrivial: bool = True) -> Obligation:
        # names of locals of spliced helpers carry a `§helper` suffix: not part of an obligation's identity
        construct = _SPLICE_SUFFIX.sub("", construct)
        detail = _SPLICE_SUFFIX.sub("", detail)
        o = Obligation(self.rule, f"{self.rule}/{sub}" if sub else self.rule, func, construct, verdict, detail, loc, nontrivial)
        self.obs.append(o)
        return o

    def ok(self, sub, func, construct, detail="", loc=""):
        return self.add(sub, func, construct, DISCHARGED, detail, loc)

    def bad(self, sub, func, construct, detail="", loc=""):
        return self.add(sub, func, construct, VIOLATED, detail, loc)

    def unk(self, sub, func, construct, detail="", loc=""):
        return self.add(sub, func, construct, UNKNOWN, detail, loc)

    def check(self, cond: bool, sub, func, construct, detail_bad="", loc="", detail_ok=""):
        return self.add(sub, func, construct, DISCHARGED if cond else VIOLATED, detail_ok if cond else detail_bad, loc)


def load_known() -> List[Dict[str, Any]]:
    if not os.path.exists(KNOWN_FINDINGS):
        return []
    with open(KNOWN_FINDINGS) as f:
        return json.load(f)["findings"]


def known_match(o: Obligation, prop: str, known: Sequence[Dict[str, Any]]) -> Optional[Dict[str, Any]]:
    for k in known:
        if k.get("status") != "known":
            continue
        if prop not in k.get("properties", [k.get("property")]):
            continue
        if k["key"] == o.key:
            return k
    return None


def write_evidence(prop: str, tier: str, seed: int, obligations: Sequence[Obligation], coverage_extra: Dict[str, Any],
                   assumptions: Sequence[str], wall_s: float, violations: int) -> str:
    os.makedirs(EVIDENCE_DIR, exist_ok=True)
    distinct = {o.key for o in obligations if o.nontrivial}
    samples = []
    seen_rules = set()
    for o in obligations:
        if o.oid not in seen_rules or o.verdict != DISCHARGED:
            seen_rules.add(o.oid)
            samples.append({"obligation": o.oid, "anchor": o.func, "construct": o.construct[:400], "verdict": o.verdict,
                            "detail": o.detail[:400], "loc": o.loc})
    cov: Dict[str, Any] = {
        "explanation": coverage_extra.pop("explanation"),
        "evaluations": len(obligations),
        "distinct_nontrivial": len(distinct),
        "rule": "one evaluation = one structural obligation (rule instance) decided on the current tree; "
                "distinct = distinct (obligation id, anchor function, normalised construct); non-trivial = the rule "
                "matched a concrete construct (non-empty slice)",
        "obligations": len(obligations),
        "discharged": sum(1 for o in obligations if o.verdict == DISCHARGED),
        "samples": samples[:60],
        "exhaustive": True,
    }
    cov.update(coverage_extra)
    ev = {
        "property_id": prop,
        "tier": tier,
        "seed": seed,
        "level": "other",
        "coverage": cov,
        "assumptions": list(assumptions),
        "wall_s": round(wall_s, 3),
        "violations": violations,
    }
    path = os.path.join(EVIDENCE_DIR, f"{prop}.json")
    tmp = path + ".tmp"
    with open(tmp, "w") as f:
        json.dump(ev, f, indent=1, sort_keys=False, default=str)
    os.replace(tmp, path)
    return path


def write_replay(prop: str, o: Obligation) -> str:
    os.makedirs(REPLAY_DIR, exist_ok=True)
    safe = "".join(ch if ch.isalnum() or ch in "-_." else "_" for ch in f"{prop}-{o.oid}-{o.func.split('.')[-1]}")
    import hashlib
    h = hashlib.sha1(o.key.encode()).hexdigest()[:8]
    path = os.path.join(REPLAY_DIR, f"{safe}-{h}.json")
    with open(path, "w") as f:
        json.dump({"property": prop, "obligation": asdict(o), "key": o.key}, f, indent=1)
    return path
