"""Normalised expression terms (hashable nested tuples), printer, matcher.

Terms are produced by `flow.Walker` from AST expressions after substituting locals that have a
single reaching definition, canonicalising comparisons (`a > b` == `b < a`), and turning list
displays / comprehensions / append-accumulators into one collection form (`bag`).  Rules match
on terms, never on source text or positions.
"""
from __future__ import annotations

from typing import Any, Callable, Dict, Iterator, List, Optional, Tuple

Term = Tuple[Any, ...]

ANY = ("?", "_")


def V(name: str) -> Term:
    """pattern variable"""
    return ("?", name)


def var(n: str) -> Term:
    return ("var", n)


def glob(n: str) -> Term:
    return ("glob", n)


def const(v: Any) -> Term:
    return ("const", v)


NONE = const(None)


def attr(b: Term, *names: str) -> Term:
    for n in names:
        b = ("attr", b, n)
    return b


def idx(b: Term, i: Term) -> Term:
    return ("idx", b, i)


def call(f: Term, *args: Term, **kw: Term) -> Term:
    return ("call", f, tuple(args), tuple(sorted(kw.items())))


def cmp(op: str, a: Term, b: Term) -> Term:
    return canon_cmp(op, a, b)


_FLIP = {">": "<", ">=": "<=", "<": "<", "<=": "<=", "==": "==", "!=": "!=", "in": "in",
         "notin": "notin", "is": "is", "isnot": "isnot"}
_NEG = {"<": ">=", "<=": ">", ">": "<=", ">=": "<", "==": "!=", "!=": "==", "in": "notin",
        "notin": "in", "is": "isnot", "isnot": "is"}


def canon_cmp(op: str, a: Term, b: Term) -> Term:
    if op in (">", ">="):
        return ("cmp", _FLIP[op], b, a)
    if op in ("==", "!=") and repr(b) < repr(a):
        a, b = b, a
    return ("cmp", op, a, b)


def negate(t: Term) -> Term:
    """Logical negation with `not` pushed inwards (comparisons are treated as total orders;
    the partial-order case of TieredInterval is handled by rule R7, not here)."""
    t = strip(t)
    k = t[0]
    if k == "not":
        return t[1]
    if k == "cmp":
        return canon_cmp(_NEG[t[1]], t[2], t[3])
    if k == "and":
        return ("or", tuple(negate(x) for x in t[1]))
    if k == "or":
        return ("and", tuple(negate(x) for x in t[1]))
    if k == "const" and isinstance(t[1], bool):
        return ("const", not t[1])
    return ("not", t)


def is_term(x: Any) -> bool:
    return isinstance(x, tuple) and len(x) > 0 and isinstance(x[0], str)


def strip(t: Any) -> Any:
    """Remove `let` wrappers (substituted locals) everywhere."""
    if not isinstance(t, tuple):
        return t
    if len(t) == 4 and t[0] == "let":
        return strip(t[3])
    return tuple(strip(x) for x in t)


def subterms(t: Any) -> Iterator[Term]:
    if isinstance(t, tuple):
        if is_term(t):
            yield t
        for x in t:
            yield from subterms(x)


def find(t: Any, pred: Callable[[Term], bool]) -> Iterator[Term]:
    for s in subterms(t):
        if pred(s):
            yield s


def contains(t: Any, sub: Term) -> bool:
    return any(s == sub for s in subterms(t))


def replace(t: Any, mapping: Dict[Term, Term]) -> Any:
    if not isinstance(t, tuple):
        return t
    if t in mapping:
        return mapping[t]
    return tuple(replace(x, mapping) for x in t)


def match(pat: Any, t: Any, b: Optional[Dict[str, Any]] = None) -> Optional[Dict[str, Any]]:
    """Structural match; ('?', name) binds any sub-structure consistently, ANY matches anything."""
    if b is None:
        b = {}
    if isinstance(pat, tuple) and len(pat) == 2 and pat[0] == "?":
        name = pat[1]
        if name == "_":
            return b
        if name in b:
            return b if b[name] == t else None
        b = dict(b)
        b[name] = t
        return b
    if isinstance(pat, tuple):
        if not isinstance(t, tuple) or len(pat) != len(t):
            return None
        for p, x in zip(pat, t):
            b = match(p, x, b)
            if b is None:
                return None
        return b
    return b if pat == t else None


def search(pat: Any, t: Any) -> Iterator[Dict[str, Any]]:
    for s in subterms(t):
        m = match(pat, s)
        if m is not None:
            yield m


def alpha(t: Any) -> Any:
    """Canonical names for the variables bound by the iterations of bag elements, so that
    `[f(x) for x in xs]`, `list(map(f, xs))` and an append loop over `y` are equal terms."""
    counter = [0]

    def walk(x: Any, ren: Dict[str, str]) -> Any:
        if not isinstance(x, tuple):
            return x
        if x and x[0] == "var" and len(x) == 2 and x[1] in ren:
            return ("var", ren[x[1]])
        if x and x[0] == "elem" and len(x) == 4:
            ren2 = dict(ren)
            iters = []
            for it in x[3]:
                src = walk(it[2], ren2)
                for v in sorted(free_vars(it[1])) if it[1] != ("while",) else []:
                    pass
                # bind targets in order of appearance
                def bind(tg):
                    if isinstance(tg, tuple) and tg and tg[0] == "var":
                        ren2[tg[1]] = f"§{counter[0]}"
                        counter[0] += 1
                        return ("var", ren2[tg[1]])
                    if isinstance(tg, tuple):
                        return tuple(bind(y) for y in tg)
                    return tg
                iters.append(("it", bind(it[1]), src))
            return ("elem", walk(x[1], ren2), walk(x[2], ren2), tuple(iters))
        if x and x[0] == "bag" and len(x) >= 2:
            return ("bag", tuple(walk(e, ren) for e in x[1])) + (("seq",) if len(x) > 2 else ())
        return tuple(walk(y, ren) for y in x)

    return walk(strip(t), {})


# ----------------------------------------------------------------------------- access paths
def path_root(t: Term) -> Optional[Term]:
    """Root variable of an access path `root(.f|[i])*`."""
    while t[0] in ("attr", "idx"):
        t = t[1]
    return t if t[0] in ("var", "glob") else None


def field_reads(t: Any) -> Iterator[Tuple[Term, str]]:
    """All (base, fieldname) attribute reads inside a term."""
    for s in subterms(t):
        if s[0] == "attr":
            yield s[1], s[2]


def fields_of(t: Any, base: Term) -> set:
    """Names of the attributes read directly on `base` inside `t`."""
    return {f for b, f in field_reads(t) if b == base}


def free_vars(t: Any) -> set:
    return {s[1] for s in subterms(t) if s[0] == "var"}


# ----------------------------------------------------------------------------- printer
_PREC_OP = {"+": "+", "-": "-", "*": "*", "/": "/", "//": "//", "%": "%", "|": "|", "&": "&",
            "^": "^", "**": "**", "<<": "<<", ">>": ">>", "@": "@"}


def show(t: Any) -> str:
    if not isinstance(t, tuple):
        return repr(t)
    if not t:
        return "()"
    k = t[0]
    if not isinstance(k, str):
        return "(" + ", ".join(show(x) for x in t) + ")"
    if k == "var":
        return t[1]
    if k == "glob":
        return t[1].rsplit(".", 1)[-1] if t[1].startswith(("mosaik.", "heapq.", "asyncio.")) is False else t[1].split(".", 1)[-1] if t[1].startswith("mosaik.") else t[1]
    if k == "const":
        return repr(t[1])
    if k == "attr":
        return f"{show(t[1])}.{t[2]}"
    if k == "idx":
        return f"{show(t[1])}[{show(t[2])}]"
    if k == "slice":
        return ":".join("" if x == NONE else show(x) for x in t[1:3]) + ("" if t[3] == NONE else ":" + show(t[3]))
    if k == "call":
        parts = [show(a) for a in t[2]] + [f"{n}={show(v)}" for n, v in t[3]]
        return f"{show(t[1])}({', '.join(parts)})"
    if k == "star":
        return "*" + show(t[1])
    if k == "op":
        return f"({show(t[2])} {t[1]} {show(t[3])})"
    if k == "unop":
        return f"({t[1]}{show(t[2])})"
    if k == "cmp":
        op = {"notin": "not in", "isnot": "is not"}.get(t[1], t[1])
        return f"({show(t[2])} {op} {show(t[3])})"
    if k == "not":
        return f"(not {show(t[1])})"
    if k in ("and", "or"):
        return "(" + f" {k} ".join(show(x) for x in t[1]) + ")"
    if k == "ifexp":
        return f"({show(t[2])} if {show(t[1])} else {show(t[3])})"
    if k in ("tuple", "list", "set"):
        o, c = {"tuple": "()", "list": "[]", "set": "{}"}[k]
        return o + ", ".join(show(x) for x in t[1]) + c
    if k == "dict":
        return "{" + ", ".join(f"{show(a)}: {show(b)}" for a, b in t[1]) + "}"
    if k == "await":
        return f"await {show(t[1])}"
    if k == "lambda":
        return f"(lambda {', '.join(t[1])}: {show(t[2])})"
    if k == "bag":
        return "⟦" + "; ".join(show(e) for e in t[1]) + "⟧"
    if k == "elem":
        s = show(t[1])
        if t[3]:
            s += " for " + ", ".join(f"{show(a)} in {show(b)}" for _, a, b in t[3])
        if t[2]:
            s += " if " + " and ".join(show_guard(g) for g in t[2])
        return s
    if k == "agg":
        return f"{t[1]}{show(t[2])}"
    if k == "let":
        return show(t[3])
    if k == "phi":
        return f"φ({show(t[1])} ? {show(t[2])} : {show(t[3])})"
    if k == "fstr":
        return "f'…" + ",".join(show(x) for x in t[1]) + "…'"
    if k == "unknown":
        return f"⊤<{t[1]}>"
    if k == "?":
        return "?" + t[1]
    if k == "g":
        return show_guard(t)
    if k == "it":
        return f"{show(t[1])} in {show(t[2])}"
    return k + "(" + ", ".join(show(x) for x in t[1:]) + ")"


def show_guard(g: Term) -> str:
    return show(g[1]) if g[2] else show(negate(g[1]))


def guard_term(g: Term) -> Term:
    """The condition a guard asserts, as a (negation-normalised) term."""
    if g[2]:
        t = strip(g[1])
        # `not (a is b)` that came out of a substitution is the comparison `a is not b`
        return negate(t[1]) if t[0] == "not" and strip(t[1])[0] == "cmp" else t
    return negate(g[1])


# ----------------------------------------------------------------------------- value classes
# qualname -> (fields, constant defaults, is-a-tuple, fields never re-assigned); set from Program.records()
RECORDS: Dict[str, Tuple[Tuple[str, ...], Dict[str, Any], bool, frozenset]] = {}
# method name -> {parameter: constant default}, for names that denote one signature in the whole package
DEFAULTS: Dict[str, Dict[str, Any]] = {}


# package function -> per positional parameter its constant default (or the marker _NO_DEFAULT)
POS_DEFAULTS: Dict[str, Tuple[Any, ...]] = {}
_NO_DEFAULT = object()
# module-level constant lookup tables: global name -> {constant key: value term}
CONST_TABLES: Dict[str, Dict[Any, Term]] = {}
# module-private sentinels (`_X = object()` that is only ever returned and compared by identity): global name ->
# qualified names of the functions that can return it
SENTINELS: Dict[str, frozenset] = {}
# module-level constants introduced after the pinned tree: global name -> literal term
CONST_VALUES: Dict[str, Term] = {}
_OPERATOR = {"gt": ">", "ge": ">=", "lt": "<", "le": "<=", "eq": "==", "ne": "!=", "is_": "is", "is_not": "isnot"}


def record_values(t: Any) -> Optional[Tuple[str, Dict[str, Term]]]:
    """`C(a, b, x=c)` for a value class C of the package -> (C, {field: value})."""
    if not (is_term(t) and t[0] == "call" and len(t) == 4 and is_term(t[1]) and t[1][0] == "glob" and t[1][1] in RECORDS):
        return None
    fields, defaults, _, _ = RECORDS[t[1][1]]
    args, kws = t[2], t[3]
    if len(args) > len(fields) or any(is_term(a) and a[0] in ("star", "star2") for a in args):
        return None
    vals: Dict[str, Term] = dict(zip(fields, args))
    for k, v in kws:
        if k not in fields or k in vals:
            return None
        vals[k] = v
    for f in fields:
        if f not in vals:
            if f not in defaults:
                return None
            d = defaults[f]
            vals[f] = ("glob", d[1]) if isinstance(d, tuple) and len(d) == 2 and d[0] == "__glob__" else ("const", d)
    return t[1][1], vals


def _is_sentinel(x: Any, s_: Term) -> Optional[Term]:
    """`x is S` for a module-private sentinel S: decided from where x comes from (S itself; one of two values;
    anything that is not the result of a function that can return S)."""
    x = strip(x)
    if x == s_:
        return ("const", True)
    if is_term(x) and x[0] in ("phi", "ifexp") and len(x) == 4:
        a, b = _is_sentinel(x[2], s_), _is_sentinel(x[3], s_)
        if a is None or b is None:
            return None
        t = ("phi", x[1], a, b)
        return _project(t) or t
    if is_term(x) and x[0] in ("await",):
        return _is_sentinel(x[1], s_)
    if is_term(x) and x[0] == "call":
        f = x[1]
        nm = f[1].rsplit(".", 1)[-1] if f[0] == "glob" else (f[2] if f[0] == "attr" else None)
        if nm is None or any(q.rsplit(".", 1)[-1] == nm for q in SENTINELS[s_[1]]):
            return None
        return ("const", False)
    if is_term(x) and x[0] in ("var", "const", "tuple", "bag", "dict", "attr", "idx", "op", "glob", "fstr"):
        # the sentinel is never stored, passed as an argument or put into a container
        return ("const", False)
    return None


def _tuple_or_none(x: Any) -> bool:
    x = strip(x)
    if x == NONE or (is_term(x) and x[0] == "tuple" and len(x) == 2):
        return True
    return is_term(x) and x[0] == "phi" and len(x) == 4 and _tuple_or_none(x[2]) and _tuple_or_none(x[3])


def _none_ness(x: Any) -> Optional[Term]:
    """`x is None` for a value that is built from displays, None and conditionals of them."""
    x = strip(x)
    if x == NONE:
        return ("const", True)
    if is_term(x) and x[0] in ("tuple", "dict", "bag"):
        return ("const", False)
    if is_term(x) and x[0] == "phi" and len(x) == 4:
        a, b = _none_ness(x[2]), _none_ness(x[3])
        if a is None or b is None:
            return None
        t = ("phi", x[1], a, b)
        return _project(t) or t
    return None


def _project(t: Term) -> Optional[Term]:
    """One step of evaluation on a term whose parts are already normalised: field / index of a value-class
    constructor, conditionals on a constant, explicit default arguments."""
    k = t[0]
    if k == "call" and len(t) == 4 and t[1] == ("glob", "isinstance") and len(t[2]) == 2 and not t[3] and is_term(t[2][1]) and t[2][1][0] == "glob" and t[2][1][1] in RECORDS:
        # `isinstance(v, C)` for a value class C of the package, decided where v is known by construction
        def inst(v: Any) -> Optional[Term]:
            v = strip(v) if is_term(v) else v
            if not is_term(v):
                return None
            if v[0] == "phi" and len(v) == 4:
                a, b = inst(v[2]), inst(v[3])
                if a is None or b is None:
                    return None
                return a if a == b else ("phi", v[1], a, b)
            if v[0] == "call" and len(v) == 4 and is_term(v[1]) and v[1][0] == "glob" and v[1][1] in RECORDS:
                return ("const", v[1][1] == t[2][1][1])
            if v[0] in ("const", "tuple", "dict", "bag", "op"):
                return ("const", False)           # a constant, a plain display or an arithmetic value is not an instance of C
            return None
        r = inst(t[2][0])
        if r is not None:
            return r
    if k == "idx" and len(t) == 3 and is_term(t[2]) and t[2][0] == "const" and t[2][1] in (0, 1, -1) and is_term(t[1]):
        # `sorted((a, b))[0]` is min(a, b), `[1]` / `[-1]` is max(a, b)
        b0 = strip(t[1])
        if is_term(b0) and b0[0] == "agg" and len(b0) >= 3 and b0[1] == "sorted":
            inner = strip(b0[2])
            els = None
            if is_term(inner) and inner[0] == "bag" and len(inner[1]) == 2 and all(not e[2] and not e[3] for e in inner[1]):
                els = [e[1] for e in inner[1]]
            elif is_term(inner) and inner[0] == "tuple" and len(inner[1]) == 2:
                els = list(inner[1])
            if els is not None:
                return ("agg", "min" if t[2][1] == 0 else "max", ("bag", (("elem", els[0], (), ()), ("elem", els[1], (), ())), "args"), ())
        if is_term(b0) and b0[0] == "call" and len(b0) == 4 and b0[1] == ("glob", "sorted") and len(b0[2]) == 1 and not b0[3]:
            inner = strip(b0[2][0])
            els = None
            if is_term(inner) and inner[0] == "tuple" and len(inner[1]) == 2:
                els = list(inner[1])
            elif is_term(inner) and inner[0] == "bag" and len(inner[1]) == 2 and all(not e[2] and not e[3] for e in inner[1]):
                els = [e[1] for e in inner[1]]
            if els is not None:
                return ("agg", "min" if t[2][1] == 0 else "max", ("bag", (("elem", els[0], (), ()), ("elem", els[1], (), ())), "args"), ())
    if k == "attr" and len(t) == 3:
        b = strip(t[1]) if is_term(t[1]) and t[1][0] == "let" else t[1]
        rv = record_values(b)
        if rv is not None and t[2] in rv[1] and t[2] in RECORDS[rv[0]][3]:
            return rv[1][t[2]]
        if is_term(b) and b[0] == "phi" and len(b) == 4:
            x, y = _project(("attr", strip(b[2]), t[2])), _project(("attr", strip(b[3]), t[2]))
            if x is not None and y is not None:
                return ("phi", b[1], x, y)
    elif k == "idx" and len(t) == 3 and is_term(t[2]) and t[2][0] == "const" and isinstance(t[2][1], int) and not isinstance(t[2][1], bool):
        b = strip(t[1]) if is_term(t[1]) and t[1][0] == "let" else t[1]
        rv = record_values(b)
        if rv is not None and RECORDS[rv[0]][2]:
            fields = RECORDS[rv[0]][0]
            if -len(fields) <= t[2][1] < len(fields):
                return rv[1][fields[t[2][1]]]
        if is_term(t[1]) and t[1][0] == "glob" and t[1][1] in CONST_TABLES and t[2][1] in CONST_TABLES[t[1][1]]:
            return CONST_TABLES[t[1][1]][t[2][1]]
        if is_term(b) and b[0] == "tuple" and len(b) == 2 and -len(b[1]) <= t[2][1] < len(b[1]) and not any(is_term(x) and x[0] == "star" for x in b[1]):
            return b[1][t[2][1]]            # a component of a tuple display
        if is_term(b) and b[0] == "phi" and len(b) == 4 and _tuple_or_none(b):
            # a component of one of several tuple displays (None where there is no tuple: only reachable under a test)
            x, y = ("idx", strip(b[2]), t[2]), ("idx", strip(b[3]), t[2])
            return ("phi", b[1], _project(x) or x, _project(y) or y)
    elif k == "idx" and len(t) == 3 and is_term(t[1]) and ((t[1][0] == "glob" and t[1][1] in CONST_TABLES) or (t[1][0] == "dict" and t[1][1] and all(
            is_term(p[0]) and p[0][0] == "const" for p in t[1][1])) or (t[1][0] == "tuple" and len(t[1]) == 2 and len(t[1][1]) == 2)):
        # a literal lookup table
        if t[1][0] == "glob":
            tab = CONST_TABLES[t[1][1]]
        elif t[1][0] == "dict":
            tab = {p[0][1]: p[1] for p in t[1][1]}
        else:
            tab = {False: t[1][1][0], True: t[1][1][1]}
        key = t[2]
        if t[1][0] != "tuple" and is_term(key) and key[0] not in ("const", "call", "cmp", "not") and 2 <= len(tab) <= 4 and all(isinstance(x, str) for x in tab):
            # indexed by something that is one of the (few, named) keys: a chain of conditionals; any other key is an error
            ks = list(tab)
            out = tab[ks[-1]]
            for kk in reversed(ks[:-1]):
                out = ("phi", canon_cmp("==", key, ("const", kk)), tab[kk], out)
            return out
        if is_term(key) and key[0] == "const" and key[1] in tab:
            return tab[key[1]]
        if is_term(key) and key[0] == "call" and key[1] == ("glob", "bool") and len(key[2]) == 1 and True in tab and False in tab:
            return ("phi", key[2][0], tab[True], tab[False])        # a table indexed by a truth value: a conditional
        if is_term(key) and key[0] in ("cmp", "not") and True in tab and False in tab:
            return ("phi", key, tab[True], tab[False])
    elif k in ("phi", "ifexp") and len(t) == 4 and is_term(t[1]) and t[1][0] == "const":
        return t[2] if t[1][1] else t[3]
    elif k == "cmp" and t[1] in ("<", "<=", "==", "!=") and is_term(t[2]) and is_term(t[3]) and t[2][0] == "const" and t[3][0] == "const" \
            and type(t[2][1]) in (int, float, str) and type(t[3][1]) in (int, float, str) and (isinstance(t[2][1], str) == isinstance(t[3][1], str)):
        a, b = t[2][1], t[3][1]
        return ("const", {"<": a < b, "<=": a <= b, "==": a == b, "!=": a != b}[t[1]])
    elif k == "cmp" and t[1] in ("is", "isnot") and is_term(t[2]) and is_term(t[3]) and t[2][0] == "const" and t[3][0] == "const" and (t[2][1] is None or t[3][1] is None):
        return ("const", (t[2][1] is t[3][1]) == (t[1] == "is"))
    elif k in ("and", "or") and len(t) == 2 and any(is_term(x) and x[0] == "const" for x in t[1]):
        keep = []
        for x in t[1]:
            if is_term(x) and x[0] == "const":
                if bool(x[1]) == (k == "or"):
                    return ("const", k == "or")
                continue
            keep.append(x)
        return ("const", k == "and") if not keep else keep[0] if len(keep) == 1 else (k, tuple(keep))
    elif k == "cmp" and t[1] in ("is", "isnot") and NONE in (t[2], t[3]) and is_term(t[2] if t[3] == NONE else t[3]) and (t[2] if t[3] == NONE else t[3])[0] in ("phi", "tuple", "dict", "bag") \
            and _none_ness(t[2] if t[3] == NONE else t[3]) is not None:
        r = _none_ness(t[2] if t[3] == NONE else t[3])
        return r if t[1] == "is" else (("const", not r[1]) if r[0] == "const" else negate(r))
    elif k == "phi" and len(t) == 4 and t[2] == t[3]:
        return t[2]
    elif k == "phi" and len(t) == 4 and t[2] == ("const", True) and t[3] == ("const", False):
        return t[1]
    elif k == "phi" and len(t) == 4 and t[2] == ("const", False) and t[3] == ("const", True):
        return negate(t[1])
    elif k == "cmp" and t[1] in ("is", "isnot") and SENTINELS and ((is_term(t[3]) and t[3][0] == "glob" and t[3][1] in SENTINELS) or (is_term(t[2]) and t[2][0] == "glob" and t[2][1] in SENTINELS)):
        s_, x = (t[3], t[2]) if (is_term(t[3]) and t[3][0] == "glob" and t[3][1] in SENTINELS) else (t[2], t[3])
        r = _is_sentinel(x, s_)
        if r is not None:
            return r if t[1] == "is" else (negate(r) if r[0] != "const" else ("const", not r[1]))
    elif k == "call" and len(t) == 4 and t[1] in (("glob", "list"), ("glob", "tuple"), ("glob", "set"), ("glob", "frozenset")) and len(t[2]) == 1 and not t[3] \
            and is_term(t[2][0]) and t[2][0][0] == "bag" and len(t[2][0]) >= 2:
        return ("bag", t[2][0][1], t[1][1])          # a copy of a collection (as the walker reads it in place)
    elif k == "call" and len(t) == 4 and t[1] in (("glob", "list"), ("glob", "tuple")) and len(t[2]) == 1 and not t[3] \
            and is_term(t[2][0]) and t[2][0][0] == "call" and len(t[2][0]) == 4 and not t[2][0][2] and not t[2][0][3] \
            and is_term(t[2][0][1]) and t[2][0][1][0] == "attr" and t[2][0][1][2] in ("values", "items", "keys"):
        return t[2][0]                               # an order-preserving snapshot of a dict view: the view, for whoever only reads it
    elif k == "call" and len(t) == 4 and is_term(t[1]) and t[1][0] == "phi" and len(t[1]) == 4:
        # calling one of two functions: one of two calls
        a, b = ("call", t[1][2], t[2], t[3]), ("call", t[1][3], t[2], t[3])
        return ("phi", t[1][1], _project(a) or a, _project(b) or b)
    elif k == "call" and len(t) == 4 and is_term(t[1]) and t[1][0] == "glob" and t[1][1].startswith("operator.") and t[1][1][9:] in _OPERATOR and len(t[2]) == 2 and not t[3]:
        return canon_cmp(_OPERATOR[t[1][1][9:]], t[2][0], t[2][1])
    elif k == "not" and len(t) == 2 and is_term(t[1]) and t[1][0] == "const":
        return ("const", not t[1][1])
    elif k == "call" and len(t) == 4 and not t[3] and t[2] and is_term(t[1]) and t[1][0] == "glob" and t[1][1] in POS_DEFAULTS \
            and len(t[2]) <= len(POS_DEFAULTS[t[1][1]]) and is_term(t[2][-1]) and t[2][-1][0] == "const" \
            and POS_DEFAULTS[t[1][1]][len(t[2]) - 1] is not _NO_DEFAULT and t[2][-1] == ("const", POS_DEFAULTS[t[1][1]][len(t[2]) - 1]) \
            and type(t[2][-1][1]) is type(POS_DEFAULTS[t[1][1]][len(t[2]) - 1]):
        args = list(t[2])
        d = POS_DEFAULTS[t[1][1]]
        while args and is_term(args[-1]) and args[-1][0] == "const" and d[len(args) - 1] is not _NO_DEFAULT and args[-1] == ("const", d[len(args) - 1]) \
                and type(args[-1][1]) is type(d[len(args) - 1]):
            args.pop()                    # an explicit argument that equals the default
        return ("call", t[1], tuple(args), ())
    elif k == "call" and len(t) == 4 and t[3] and is_term(t[1]) and t[1][0] == "attr" and t[1][2] in DEFAULTS:
        d = DEFAULTS[t[1][2]]
        kws = tuple((n, v) for n, v in t[3] if not (n in d and is_term(v) and v == ("const", d[n])))
        if kws != t[3]:
            return ("call", t[1], t[2], kws)
    return None


# ----------------------------------------------------------------------------- comprehension fusion
def _bind_pattern(pat: Term, val: Term) -> Optional[Dict[Term, Term]]:
    """Substitution that binds an iteration pattern to a value (None if the shapes do not match)."""
    pat = strip(pat)
    if pat[0] == "var":
        return {pat: val}
    v = strip(val)
    rv = record_values(v) if pat[0] == "tuple" else None
    if rv is not None and RECORDS[rv[0]][2]:
        v = ("tuple", tuple(rv[1][f] for f in RECORDS[rv[0]][0]))      # a NamedTuple is the tuple of its fields
    if pat[0] == "tuple" and v[0] == "tuple" and len(pat[1]) == len(v[1]):
        out: Dict[Term, Term] = {}
        for p, x in zip(pat[1], v[1]):
            b = _bind_pattern(p, x)
            if b is None:
                return None
            out.update(b)
        return out
    return None


def _plain_bag(t: Any) -> Optional[Term]:
    t = strip(t)
    if is_term(t) and t[0] == "bag" and len(t) >= 2 and all(is_term(e) and e[0] == "elem" for e in t[1]):
        return t
    if is_term(t) and t[0] == "phi" and len(t) == 4:
        # one collection or the other (`if not xs: return []` before the collection is built): the elements of
        # each under the branch condition
        a, b = _plain_bag(t[2]), _plain_bag(t[3])
        if a is not None and b is not None:
            return ("bag", tuple(("elem", e[1], (("g", t[1], True),) + tuple(e[2]), e[3]) for e in a[1])
                    + tuple(("elem", e[1], (("g", t[1], False),) + tuple(e[2]), e[3]) for e in b[1]), a[2] if len(a) > 2 else "list")
    if is_term(t) and t[0] == "call" and t[1][0] == "glob" and t[1][1] in ("list", "tuple") and len(t[2]) == 1 and not t[3]:
        return _plain_bag(t[2][0])            # an order-preserving copy
    if is_term(t) and t[0] == "tuple" and len(t) == 2 and isinstance(t[1], tuple) and t[1] and not any(is_term(x) and x[0] == "star" for x in t[1]):
        return ("bag", tuple(("elem", x, (), ()) for x in t[1]), "tuple")      # a tuple display that is iterated over
    return None


def fuse_elem(el: Term) -> List[Term]:
    """One comprehension element whose iteration source is itself a collection built from guarded /
    iterated elements -> the elements of the fused comprehension (`f(y) for y in [g(x) for x in X if c]`
    is `f(g(x)) for x in X if c`); `*collection` elements are flattened the same way."""
    _, val, guards, iters = el
    for k, it in enumerate(iters):
        if not (is_term(it) and it[0] == "it") or len(it) < 3:
            continue
        src = _plain_bag(it[2])
        if src is None or not src[1]:
            continue
        out: List[Term] = []
        ok = True
        for inner in src[1]:
            iv = strip(inner[1])
            if is_term(iv) and iv[0] == "star":
                # the collection contains `*S`: iterating over that part is iterating over S
                new = ("elem", val, tuple(inner[2]) + tuple(guards), tuple(iters[:k]) + tuple(inner[3]) + (("it", it[1], iv[1]),) + tuple(iters[k + 1:]))
                out += fuse_elem(new)
                continue
            b = _bind_pattern(it[1], inner[1])
            in_guards, in_iters = tuple(inner[2]), tuple(inner[3])
            if b is None and strip(it[1])[0] == "tuple" and iv[0] == "var":
                # the collected value is itself the variable of an inner iteration (`for d in ds: out.append(d)` ...
                # `for a, b in out`): unpacking it later is unpacking it there
                hit = [j for j, x in enumerate(in_iters) if is_term(x) and x[0] == "it" and strip(x[1]) == iv]
                if len(hit) == 1:
                    j = hit[0]
                    ren = {iv: strip(it[1])}
                    in_iters = in_iters[:j] + (("it", strip(it[1])) + tuple(in_iters[j][2:]),) + tuple(replace(in_iters[j + 1:], ren))
                    in_guards = tuple(replace(in_guards, ren))
                    b = {}
            if b is None:
                ok = False
                break
            rest = replace(tuple(iters[k + 1:]), b)
            new = ("elem", replace(val, b), in_guards + tuple(replace(tuple(guards), b)), tuple(iters[:k]) + in_iters + tuple(rest))
            out += fuse_elem(new)
        if ok:
            return out
    sv = strip(val)
    if is_term(sv) and sv[0] == "star":
        src = _plain_bag(sv[1])
        if src is not None:
            out = []
            for inner in src[1]:
                out += fuse_elem(("elem", inner[1], tuple(guards) + tuple(inner[2]), tuple(iters) + tuple(inner[3])))
            return out
    return [el]


def fuse(t: Any) -> Any:
    """Comprehension fusion everywhere inside a term."""
    if not isinstance(t, tuple) or not t:
        return t
    t = tuple(fuse(x) for x in t)
    if is_term(t):
        r = _project(t)
        if r is not None:
            return r
    if is_term(t) and t[0] == "bag" and len(t) >= 2 and isinstance(t[1], tuple) and all(is_term(e) and e[0] == "elem" and len(e) == 4 for e in t[1]):
        elems: List[Term] = []
        for e in t[1]:
            elems += fuse_elem(e)
        if tuple(elems) != t[1]:
            return (t[0], tuple(elems)) + t[2:]
    return t
