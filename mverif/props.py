"""Property -> rules / obligation selection, explanation texts and assumptions."""
from __future__ import annotations

import importlib
from typing import Dict, List, Sequence, Tuple

# rule id -> module name under mverif.rules
RULE_MODULES: Dict[str, str] = {
    "R1": "r01_waitset",
    "R2": "r02_bound",
    "R3": "r03_protocol",
    "R4": "r04_schedule",
    "R5": "r05_mintable",
    "R6": "r06_order",
    "R7": "r07_sites",
    "R14": "r14_tasks",
    "R17": "r17_dataflow",
    "R18": "r18_debug",
    "R19": "r19_cyclegate",
    "R20": "r20_connect",
    "R21": "r21_projection",
    "R22": "r22_classify",
    "R23": "r23_adapters",
    "R24": "r24_helpers",
    "R8": "r08_shape",
    "R10": "r10_remote",
    "R11": "r11_reply",
}

# property -> list of obligation-id prefixes ("R1" selects every obligation of R1,
# "R1/O3" only that sub-obligation)
PROPERTY_RULES: Dict[str, List[str]] = {
    "C01": ["R7/R9", "R8", "R1/O1", "R1/O2", "R1/O4", "R1/O5", "R7/key", "R2/INFLIGHT", "R2/sink", "R2/anc", "R2/own", "R2/until", "R2/extra", "R3/P1", "R3/P4", "R3/P5", "R5", "R6",
            "R20/table/input_delays", "R20/delay", "R20/writers", "R19/interval", "R19/anc-closure"],
    "C02": ["R20/ports", "R22/readers", "R22/defaults", "R22/type-readers", "R7/R9", "R8", "R2/INFLIGHT", "R2/anc", "R2/own", "R3/P", "R4", "R5", "R11/schedule", "R11/sched-value", "R11/time-arg", "R11/last-step", "R20/table/triggers", "R20/delay", "R20/writers",
            "R19/anc-closure"],
    "C03": ["R20/ports", "R20/connect", "R21", "R22/readers", "R8/lift", "R17", "R5/store", "R5/update_min", "R20/delay", "R20/table", "R20/writers", "R11/out", "R4/outtime", "R1/O1", "R1/O4", "R2/INFLIGHT", "R2/anc", "R2/own"],
    "C04": ["R20/ports", "R18", "R2/INFLIGHT", "R2/anc", "R2/own", "R21", "R8", "R5", "R6", "R17", "R10/R18", "R1/O1", "R1/O2", "R1/O3", "R1/O4", "R20/table", "R20/delay", "R11/raw", "R4/dedup", "R4/wake", "R19/anc-closure", "R19/closure"],
    "C05": ["R20/delay", "R11/local", "R3/INIT", "R4/outtime", "R14/shared", "R8", "R1/O4", "R1/O5", "R2", "R4/wake", "R4/settle", "R4/wait", "R5", "R6", "R7/site", "R19/anc-closure", "R19/zero", "R19/closure", "R19/gate", "R19/seed"],
    "C06": ["R5", "R20/connect", "R6", "R7/site", "R7/R9", "R19", "R20/delay"],
    "C07": ["R2/INFLIGHT", "R2/sink", "R2/anc", "R2/own", "R2/until", "R2/extra", "R3/P3", "R5/store", "R5/update_min", "R19/anc-closure", "R4/notify", "R20/delay"],
    "C08": ["R6", "R20/table/input_delays", "R5/store", "R19/zero", "R19/anc-closure", "R19/closure", "R7/key", "R7/R9", "R5/update_min", "R1/O5b"],
    "C09": ["R20/ports", "R7/R9", "R2/INFLIGHT", "R2/anc", "R4/notify", "R4/wake", "R4/dedup", "R8/lift", "R3/R12", "R4/outtime", "R19/interval", "R20/delay", "R20/table/triggers", "R1/O3", "R1/O1", "R5/store", "R14/waiter", "R14/groups"],
    "C10": ["R1/O3", "R3/P1", "R1/O4", "R2/INFLIGHT", "R2/sink", "R2/own", "R20/table/successors", "R20/delay", "R20/async", "R20/writers", "R10/R18"],
    "C11": ["R7/R9", "R20", "R19/interval", "R19/group_path", "R19/group-scope", "R22/readers", "R22/tuple", "R22/defaults", "R22/forbidden", "R22/triple", "R22/wrap", "R22/args", "R22/op"],
    "C12": ["R22", "R23/feature"],
    "C13": ["R11", "R22/type-readers", "R3/P2", "R3/P6", "R14/waiter", "R14/groups"],
    "C14": ["R14", "R23/feature", "R11/conn", "R11/raw", "R11/local"],
    "C15": ["R23", "R3/P3b", "R14/shared"],
    "C16": ["R1/O2", "R2/INFLIGHT", "R2/anc", "R2/own", "R1/O4", "R20/async", "R20/connect", "R20/writers", "R10/gate", "R10/set_data", "R10/get_data", "R17/take", "R17/memory", "R17/writeback", "R3/P1"],
    "C17": ["R3/INIT", "R11/schedule", "R11/sched-value", "R8", "R2/rt", "R4/wait", "R10/set_event", "R10/run", "R10/rt_check", "R10/R18", "R1/O5c", "R1/O5d", "R1/O5e", "R4/dedup", "R4/wake", "R2/anc", "R2/INFLIGHT", "R2/own"],
    "C18": ["R24"],
}

EXPLANATION: Dict[str, str] = {}

# what each check decides (structural clauses) and what it leaves undecided
CLAIMS: Dict[str, Tuple[str, str]] = {
    "C01": ("the wait set before a step (strict has_passed on every predecessor with the connection's minimum delay, awaited to completion), the Progress wake-up protocol, completeness of the progress bound incl. steps in flight, the queue discipline of the pending steps (heappush needs heappop), min-tables independent of registration order, connection tables written by connect only, a delay is never identified by its tiers alone, the atomic publish of a finished step's triggers; the initial state of a simulator (progress 0, no step in flight), a trigger that has fired already is answered at once, the shift of a wait is the caller's, SimGroup.depth counts the enclosing groups",
            "sufficiency of these local obligations for causality under all interleavings (inductive protocol argument)"),
    "C02": ("who creates/moves/removes demanded steps, dedup + wake-iff-earlier in schedule_step, self-step iff < until, trigger iff attribute present at output time + delay, popped step == settled progress, bounds see steps in flight; the defaults table that decides which inputs are triggers (all 192 combinations), the trigger test is presence (not value) of the attribute, the simulator type is read alike by the model factory and the runner; the initial schedule (exactly one step at time 0 iff the simulator is not event-based), the trigger table is keyed by the source port (src.eid, src_attr)",
            "equality of the executed and the demanded step set over all behaviours"),
    "C03": ("no mosaik-owned container is aliased into the step inputs (freshness depth), the cache lookup returns the greatest key <= time whatever the insertion order and the pruner keeps every entry it can still return, the producers' progress bounds see steps in flight, set_data inputs are taken and cleared, buffered values are delivered iff popped at the first step >= their due time in production order, the memory is written back only into existing keys, push/pull use the connection's time shift and the reported output time, delay tables are minima; every entity carries the model of its own type (child entities are classified by their own attribute sets); writer/reader agreement of the data-flow tables (source port, destination port, the source's full id, the source attribute in the output request, initial data looked up per source attribute), the output cache holds a copy of the reply's two levels (not the simulator's own object), merge helpers with a depth argument are decided by abstract interpretation (level summaries)",
            "value-level equality of inputs with the producers' histories; sub-time of weak delays on the data path (known finding W1, rule R21)"),
    "C04": ("registration-order independence of every derived table (min-tables under a total order on same-shape operands), the wait sets (predecessors, async consumers unconditionally, all consumers under lazy stepping), confinement of lazy_stepping and rt_strict (pass-through only), the reply of a simulator is only read and reaches the scheduler unchanged (in-process and remote agree), cache on/off agreement at the structural points where they differed (aliasing, floor entry), write-back discipline; progress bounds see the step in flight until its outputs are fetched (not only while step() runs); the output cache does not alias the reply of an in-process simulator (D28), port keys of the data-flow tables",
            "equality of observation sequences across interleavings and across the cache/push paths in general"),
    "C05": ("no lost wake-up (Progress, next_step_settled), every wait target is dominated by a bound containing until, progress bounds are minima over all step sources, comparison sites of the partial interval order; nothing mutable is created in a class body and shared by all proxies (a class-level lock), future-dated output times start at sub-step 0; an in-process simulator written in generator style is driven (next / send) only inside the handler of the generator protocol, so a method that returns without yielding delivers its value instead of killing the run; the interval a producer waits on for its successors is the plain adaptation between the two groups (no weak / time-shift component: with one, the lazy wait targets a sub-step the successor cannot reach and the run deadlocks)",
            "absence of deadlock for all accepted scenarios (liveness of the whole protocol)"),
    "C06": ("min-tables and update_min contract, lexicographic order methods, comparison sites (two path-sum sites are the known finding D16); connect() registers the async edges exactly under its flag, `world.group()` blocks nest (the entry group is remembered per block)",
            "exactness of the closure over all multigraphs"),
    "C07": ("term completeness of max_advance incl. in-flight ancestors, <= until, = until without trigger ancestors, the value reaches the simulator unchanged",
            "traceability of later steps over a whole run"),
    "C08": ("TieredInterval.__lt__ as the product of its scan loop with the order specification derived from the arrival-time semantics (all letter sequences, both cutoff directions, history: trichotomy and 'a smaller delay never arrives later'), TieredTime.__lt__ a tuple comparison, derived operators and a hand-written == consistent with the fields, structural clauses of the additions (dependence on the cutoff, result pre_length, smaller cutoff), no delay identified by its tiers alone; and the uses of the arithmetic that the statement names: min-combination of parallel connections in connect_one, the two closures (every path relaxed until nothing changes), the zero test on the tiers only, the wake-up test of a wait (the target is compared with progress + delay: the action of the delay on the time is applied on every path, no shortcut bypasses the addition); the generated == / hash of the two classes see every field (no field(compare=False), no eq=False)",
            "the tier arithmetic of the additions: associativity, action law, 'adding a delay never moves time backwards' (value arithmetic)"),
    "C09": ("guard placement before the step, all sub-tiers, >= against the configured bound, SimulationError naming the simulator, sub-tier accounting of the output time, and what makes a sub-step count: every trigger entry carries its own connection's delay (a time-shifted trigger next to a weak one must leave the loop), and a simulator does not run sub-steps ahead of its consumers (the lazy wait includes the sub-tiers); the step in flight bounds the loop partners until its outputs are fetched, every triggered (simulator, delay) pair is scheduled, and scheduled once (a sub-step that is already pending anywhere in the queue is not queued again: a duplicate makes a loop member step twice and the loop lose a round)",
            "'time then advances normally' (behaviour)"),
    "C10": ("under the flag every direct consumer contributes a has_reached(next_step + adapt) wait that is awaited before the step; the consumer's progress is a lower bound on its outstanding steps; the successors table is written by connect only (no pruning pass); the lazy wait precedes the pop of the step, unconditionally, in sim_process",
            "the run-ahead bound over executions"),
    "C11": ("the rejection table of connect_one as an exhaustive decision table (exactly the four rejection classes, ScenarioError), no data-flow effect in any rejected row, which table gets which entry in every accepted row, weak needs a shared non-root group, shift/weak tiers, identity semantics of simulator groups, and the classification the table reads (defaults table, forbidden kinds and triple inference of parse_attrs: which inputs are non-trigger decides which connections need initial data; the operators of the co-finite set algebra, through which input_attrs / output_attrs -- the sets that the existence check of connect() tests -- are computed); connect() only reads its arguments (the caller's initial_data survives), group blocks nest",
            "'exactly when' over all concrete model descriptions"),
    "C12": ("the co-finite set algebra exhaustively (pointwise truth tables of every OutSet operator and branch), the inference equations and rejections of parse_set_triple, the defaults table of parse_attrs for all 192 combinations of type x any_inputs x present keys, the forbidden-kind guards, tuple order writer/reader agreement; the type a pre-v3 simulator announces survives adaptation (only a missing type is defaulted), factory and runner read the type alike; wrap_set passes None and an OutSet (parse_attrs' own co-finite default) through and turns a list into its frozenset; parse_attrs only reads its arguments (no table of defaults that is filled in place and shared by the models of a simulator)",
            "the value-level input/output relation of parse_attrs over all concrete descriptions"),
    "C13": ("decision table of scheduler.step / get_outputs over the reply: every malformed reply class has a dominating SimulationError naming the simulator and precedes every effect; what is validated is the reply itself (SimRunner, adapters and remote proxy return exactly the awaited forward, no conversion, no edit, handlers re-raise); the popped step is never re-inserted; factory and runner read the announced type alike (the runner's copy decides what is demanded of the reply), an exception of a plain in-process method is not caught by the generator-protocol handler",
            "reply classes not listed in the statement"),
    "C14": ("cleanup is reached from every exit of run() (try/finally), covers every simulator, is exception-isolated and idempotent, closes channel / reader task / server socket / loop on every path; every created task has an owner that awaits it concurrently and cancels + drains it on failure and cancellation exits; the reader task cannot await itself; connection loss becomes a SimulationError naming the simulator; no wrapper on the way swallows a simulator's exception (handlers re-raise, no normal return from a handler); a created coroutine of the package is awaited or handed on (never returned un-awaited from a coroutine), adapters do not re-send or swallow; RemoteProxy.stop closes the channel before it waits for the reader task, no break ends the stop loop of shutdown early",
            "promptness (timing), behaviour for each crash point, child-process reaping, faults inside mosaik_api_v3"),
    "C15": ("request shapes of every Proxy.send site (step: exactly 3 positional arguments, no keyword arguments), the feature/adapter table (max_advance, setup_done, missing type), thresholds and nesting order of the adapters for representative versions, the two rejections dominate the wrapping, configured and reported versions are parsed alike, in-process time_resolution handling, adapters are transparent for errors (no forward inside a swallowing try) and the meta they adapt is one stable object; no mutable table is created in the body of a proxy / adapter class and filled through self or cls (a handler table shared by inheritance makes one adapter apply another one's changes)",
            "'sees the same scheduling and data as a current-version simulator' (behaviour)"),
    "C16": ("the producer waits unconditionally for its async consumers, set_data/get_data are gated by _assert_async_requests (ScenarioError for both missing-connection cases) before any access, set_data inputs are consumed exactly once (take and clear), connect_async_requests fills successors, successors_to_wait_for and input_delays; the producer's bound sees the step in flight until its outputs are fetched; wait_for_dependencies dominates the pop of every step (no fast path around the wait for the async-request partners)",
            "the ordering clause over executions"),
    "C17": ("set_event decision table (error outside real-time mode before any effect, schedule iff < until else warn, lifted to the simulator's tiers), rt_factor validated and scaled by time_resolution before it is stored, real-time progress term, polling wait with timeout=rt_factor, rt_check table (RuntimeError iff rt_strict), rt_strict confined, rt_start exists before any process runs and is read off the clock when the processes are created; a self-step is pushed onto the heap of pending steps (pending external events survive), the world's until / rt_factor exist before run() first suspends; the real-time term is ceil((perf_counter() - rt_start) / rt_factor): rounded up, not down; set_event reaches the simulator through schedule_step, which creates the step unless that very time is already pending (a step in flight at the same time does not count) and wakes a waiting simulator iff the new step is earlier; the progress bound that the real-time poll re-computes sees the steps in flight of the triggering ancestors and the simulator's own pending steps",
            "every wall-clock clause (timing is a runtime quantity)"),
    "C18": ("returned set == set of destinations passed to connect (same loop nest, same conditions, over every return), exactly one connect per source in connect_many_to_one and on every path of _connect_randomly, chunk stride == window width in _connect_evenly, per-destination bookkeeping (count from 0, ++, removal iff count >= max_connects) on every path whose guard does not bound the number of sources by max_connects, entities are distinct set members / dict keys (identity or unique-id equality); a request is refused up front iff len(src_set) > len(dest_set) * max_connects, no container default is changed from call to call",
            "the numeric clauses (difference <= 1 over all random draws; D6)"),
}

ASSUMPTIONS_COMMON = [
    "CPython's ast/compile/symtable give the same program the interpreter runs",
    "the rule tables in /verif/DESIGN.md section 3 are the intended local obligations (each is a necessary condition of the property; sufficiency for the whole behaviour is not claimed)",
    "simulators and mosaik_api_v3 behave as documented; only /repo/mosaik is analysed",
]


def rule_module(rule: str):
    return importlib.import_module(f"mverif.rules.{RULE_MODULES[rule]}")


def rules_for(prop: str) -> List[str]:
    out: List[str] = []
    for sel in PROPERTY_RULES.get(prop, []):
        r = sel.split("/")[0]
        if r not in out and r in RULE_MODULES:
            out.append(r)
    return out


def selected(prop: str, oid: str) -> bool:
    # "R2" selects every obligation of rule R2 (and not those of R20 ... R24); "R1/O5" selects R1/O5a, R1/O5b, ...
    return any(oid == sel or (oid.startswith(sel) if "/" in sel else oid.split("/")[0] == sel) for sel in PROPERTY_RULES.get(prop, []))
