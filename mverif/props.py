"""Property -> rules / obligation selection, explanation texts and assumptions."""
from __future__ import annotations

import importlib
from typing import Dict, List, Sequence, Tuple

# rule id -> module name under mverif.rules
RULE_MODULES: Dict[str, str] = {
    "R1": "r01_waitset",
    "R2": "r02_bound",
    "R3": "r03_protocol",
    "R4": "r04_schedule",
    "R5": "r05_mintable",
    "R11": "r11_reply",
}

# property -> list of obligation-id prefixes ("R1" selects every obligation of R1,
# "R1/O3" only that sub-obligation)
PROPERTY_RULES: Dict[str, List[str]] = {
    "C01": ["R1/O1", "R1/O4", "R1/O5"],
    "C05": ["R1/O4", "R1/O5"],
    "C10": ["R1/O3", "R1/O4"],
    "C16": ["R1/O2", "R1/O4"],
}

EXPLANATION: Dict[str, str] = {}

ASSUMPTIONS_COMMON = [
    "CPython's ast/compile/symtable give the same program the interpreter runs",
    "the rule tables in /verif/DESIGN.md section 3 are the intended local obligations (each is a necessary condition of the property; sufficiency for the whole behaviour is not claimed)",
    "simulators and mosaik_api_v3 behave as documented; only /repo/mosaik is analysed",
]


def rule_module(rule: str):
    return importlib.import_module(f"mverif.rules.{RULE_MODULES[rule]}")


def rules_for(prop: str) -> List[str]:
    out: List[str] = []
    for sel in PROPERTY_RULES.get(prop, []):
        r = sel.split("/")[0]
        if r not in out and r in RULE_MODULES:
            out.append(r)
    return out


def selected(prop: str, oid: str) -> bool:
    for sel in PROPERTY_RULES.get(prop, []):
        if oid == sel or oid.startswith(sel + "/") or (("/" in sel) and oid.startswith(sel)) or oid.split("/")[0] == sel:
            return True
    return False
