"""Developer aid: print the normalised event summary of a function."""
import sys
from .loader import Program
from .flow import spliced as summarise
from . import terms as T

def main(argv):
    prog = Program()
    for qn in argv:
        fi = prog.func(qn)
        s = summarise(prog, fi)
        print(f"== {qn} ({fi.loc}) unknowns={s.unknowns}")
        for e in s.events:
            ctx = ""
            if e.iters: ctx += " FOR " + "; ".join(T.show(i) for i in e.iters)
            if e.guards: ctx += " IF " + " & ".join(T.show_guard(g) for g in e.guards)
            if e.tries: ctx += f" TRY{e.tries}"
            print(f"  {e.idx:3d} L{e.lineno:<4d} {e.kind:6s}{'*' if e.awaited else ' '} {T.show(e.term)}{ctx}")

if __name__ == "__main__":
    main(sys.argv[1:])
