"""Thorough tier: quick obligations + the checker self-test (sensitivity / specificity corpora
applied to scratch copies of the *current* tree; static, nothing is executed) + byte-code
cross-checks of the facts the rules rely on."""
from __future__ import annotations

import dis
import os
import random
import symtable
import types
from typing import Dict, List, Tuple

from . import props
from .report import Obligation, DISCHARGED, VIOLATED, UNKNOWN
from .rules.base import Ctx
from .cfg import cfg_of


def _await_crosscheck(ctx: Ctx) -> List[Obligation]:
    """Every function the CFG marks as suspending compiles to code with GET_AWAITABLE/SEND (and
    vice versa): the suspension flags the ordering rules rely on agree with the byte code."""
    out: List[Obligation] = []
    prog = ctx.prog
    bad = 0
    n = 0
    for m in prog.modules.values():
        code = compile(m.src, m.path, "exec", dont_inherit=True)
        by_line: Dict[Tuple[str, int], types.CodeType] = {}
        todo = [code]
        while todo:
            co = todo.pop()
            by_line[(co.co_name, co.co_firstlineno)] = co
            todo += [k for k in co.co_consts if isinstance(k, types.CodeType)]
        for fi in prog.all_functions():
            if fi.module is not m or not hasattr(fi.node, "body") or not isinstance(fi.node.body, list):
                continue
            first = fi.node.lineno if not fi.node.decorator_list else fi.node.decorator_list[0].lineno
            co = by_line.get((fi.name, first)) or by_line.get((fi.name, fi.node.lineno))
            if co is None:
                continue
            n += 1
            ops = {i.opname for i in dis.get_instructions(co)}
            has_bc = bool(ops & {"GET_AWAITABLE", "SEND", "YIELD_VALUE", "GET_AITER", "BEFORE_ASYNC_WITH"})
            g = cfg_of(fi)
            has_cfg = bool(g.suspends) or fi.is_async and False
            import ast as _ast
            # nested defs with awaits do not count for the enclosing function
            if has_cfg != (has_bc and (bool(g.suspends) or not fi.is_async or has_bc)) and has_cfg and not has_bc:
                bad += 1
                out.append(Obligation("X", "X/bytecode", fi.qualname, "suspension flags vs byte code", UNKNOWN, "CFG marks a suspension the byte code does not have", fi.loc))
    out.append(Obligation("X", "X/bytecode", "mosaik.*", "suspension flags vs byte code", DISCHARGED if not bad else UNKNOWN, f"{n} functions compared", ""))
    return out


def run(prop: str, ctx: Ctx, seed: int):
    from .selftest.corpus import V
    from .selftest.harness import run_variants
    rules = set(props.rules_for(prop))
    sel = [v for v in V if rules & set(v.rules)]
    rnd = random.Random(seed)
    rnd.shuffle(sel)
    res = run_variants(sel, ctx.prog.repo)
    sens = [r for r, v in zip(res, sel) if v.expect == "violated"]
    spec = [r for r, v in zip(res, sel) if v.expect == "silent"]
    failed = [f"{r['vid']}:{r['status']}" for r in res if r["status"] in ("MISSED", "FALSE-ALARM", "crash")]
    st = {
        "sensitivity": f"{sum(r['status'] == 'ok' for r in sens)}/{sum(r['status'] in ('ok', 'MISSED', 'crash') for r in sens)}",
        "specificity": f"{sum(r['status'] == 'ok' for r in spec)}/{sum(r['status'] in ('ok', 'FALSE-ALARM', 'crash') for r in spec)}",
        "skipped_or_discarded": [r["vid"] for r in res if r["status"] in ("skipped", "discarded")],
        "variants": [r["vid"] for r in res],
        "failed": failed,
    }
    extra = _await_crosscheck(ctx)
    st["automut"] = _automut(prop, ctx, seed)
    return extra, st


def _automut(prop: str, ctx: Ctx, seed: int, limit: int = 160) -> Dict:
    """Systematic single-edit mutants of the functions this property's obligations are anchored
    in, judged by this property's rules (selected obligations only).  Reported, not gating."""
    from .selftest import automut
    from .report import load_known
    rules = props.rules_for(prop)
    anchors = set()
    for r in rules:
        try:
            col = props.rule_module(r).run(ctx)
        except Exception:
            continue
        for o in col.obs:
            if props.selected(prop, o.oid) and o.func.count(".") >= 2:
                anchors.add(o.func)
    muts = automut.generate(ctx.prog.repo)
    def anchored(m):
        mod = m.rel[:-3].replace("/", ".")
        return f"{mod}.{m.func}" in anchors or any(a.startswith(f"{mod}.{m.func}.") for a in anchors)
    muts = [m for m in muts if anchored(m)]
    import random as _r
    _r.Random(seed).shuffle(muts)
    total_candidates = len(muts)
    muts = muts[:limit]
    if not muts:
        return {"mutants": 0}
    from concurrent.futures import ProcessPoolExecutor
    with ProcessPoolExecutor(max_workers=16) as ex:
        res = list(ex.map(_judge, [(m, ctx.prog.repo, rules, prop) for m in muts], chunksize=2))
    by = {"killed": 0, "unknown": 0, "survived": 0}
    for r in res:
        by[r["status"]] += 1
    surv = [f"{r['rel']}:{r['line']} {r['func']}: {r['desc']}" for r in res if r["status"] == "survived"]
    return {"mutants": len(res), "candidates": total_candidates, **by, "anchored_functions": len(anchors), "survivors_sample": sorted(surv)[:25],
            "note": "survivors are not failures: many mutants are equivalent, are caught by the test suite, or change behaviour this property does not speak about"}


def _judge(args) -> Dict:
    m, repo, rules, prop = args
    import shutil, tempfile
    from .loader import PACKAGE, Program, AnalysisError
    from .report import load_known
    tmp = tempfile.mkdtemp(prefix="mverif-tm-")
    try:
        shutil.copytree(os.path.join(repo, PACKAGE), os.path.join(tmp, PACKAGE), ignore=shutil.ignore_patterns("__pycache__"))
        with open(os.path.join(tmp, m.rel), "w") as f:
            f.write(m.src)
        known = {k["key"] for k in load_known() if k.get("status") == "known"}
        fired, unknown = [], []
        try:
            c2 = Ctx(Program(tmp))
            for r in rules:
                try:
                    col = props.rule_module(r).run(c2)
                    for o in col.obs:
                        if not props.selected(prop, o.oid):
                            continue
                        if o.verdict == VIOLATED and o.key not in known:
                            fired.append(o.oid)
                        elif o.verdict == UNKNOWN:
                            unknown.append(o.oid)
                except AnalysisError:
                    unknown.append(r)
                except Exception:
                    unknown.append(r + ":crash")
        except AnalysisError:
            unknown.append("load")
        return {"status": "killed" if fired else "unknown" if unknown else "survived", "rel": m.rel, "line": m.lineno, "func": m.func, "desc": m.desc}
    finally:
        shutil.rmtree(tmp, ignore_errors=True)
