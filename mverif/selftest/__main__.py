import sys, json
from .corpus import V
from .harness import run_variants

def main(argv):
    sel = [v for v in V if not argv or any(v.vid.startswith(a) or a in v.rules for a in argv)]
    res = run_variants(sel)
    bad = 0
    for r in res:
        flag = r["status"]
        if flag not in ("ok",):
            bad += flag in ("MISSED", "FALSE-ALARM", "crash")
            print(f"{flag:12s} {r['vid']}  {json.dumps({k: v for k, v in r.items() if k not in ('vid','status')})[:600]}")
    print(f"{len(res)} variants, {sum(r['status']=='ok' for r in res)} ok, {bad} bad, "
          f"{sum(r['status'] in ('skipped','discarded') for r in res)} skipped/discarded")
    return 1 if bad else 0

sys.exit(main(sys.argv[1:]))
