"""Systematic mutation analysis of the *checker*: small AST-level mutants of the anchored
functions (comparison flips, boolean operator swaps, constant changes, statement deletions,
sibling-name swaps, operand swaps) are generated from the current tree and every rule is run on
each mutant statically.  A mutant is "killed" if some rule reports a violation that is not a
known finding; "unknown" if a rule can no longer give a verdict (exit 2); "survived" otherwise.

Survivors are not failures of /repo and not automatically gaps of the checker (many mutants are
equivalent, or change behaviour no property speaks about, or are caught by the test suite); the
list is the work queue for strengthening rules, and the kill ratio is reported as evidence of how
much of the anchored code the structural obligations actually constrain.
"""
from __future__ import annotations

import ast
import copy
import os
import random
import shutil
import sys
import tempfile
from concurrent.futures import ProcessPoolExecutor
from dataclasses import dataclass
from typing import Dict, Iterator, List, Optional, Sequence, Tuple

from ..loader import PACKAGE, REPO, Program

# functions whose bodies are mutated (module relative path -> qualname prefixes; None = whole module)
TARGETS: Dict[str, Optional[List[str]]] = {
    "mosaik/scheduler.py": None,
    "mosaik/progress.py": None,
    "mosaik/tiered_time.py": ["TieredInterval.__lt__", "TieredTime.__lt__", "TieredTime.__add__", "TieredInterval.__add__", "TieredInterval.__init__"],
    "mosaik/in_or_out_set.py": None,
    "mosaik/internal_util.py": ["merge_all", "merge_existing"],
    "mosaik/simmanager.py": ["SimRunner.", "MosaikRemote.set_", "MosaikRemote.get_data", "MosaikRemote._assert", "TimedInputBuffer.", "start_proc"],
    "mosaik/scenario.py": ["group_path", "connect_interval", "World.connect", "World.set_initial_event", "World.run", "World.cache_", "World.ensure_", "World.shutdown",
                           "World.start", "World.group", "update_min", "parse_attrs", "ModelMock.__init__", "ModelMock.input_attrs", "ModelMock.output_attrs",
                           "Entity.triggered_by", "Entity.is_persistent", "SimGroup."],
    "mosaik/adapters.py": None,
    "mosaik/proxies.py": ["LocalProxy.init", "RemoteProxy.", "extract_version", "LocalProxy.stop"],
    "mosaik/util.py": ["connect_many_to_one", "connect_randomly", "_connect_evenly", "_connect_randomly"],
    "mosaik/_debug.py": ["enable", "pre_step", "post_step", "disable"],
}

CMP_SWAP = {ast.Lt: [ast.LtE, ast.Gt], ast.LtE: [ast.Lt], ast.Gt: [ast.GtE, ast.Lt], ast.GtE: [ast.Gt], ast.Eq: [ast.NotEq], ast.NotEq: [ast.Eq],
            ast.In: [ast.NotIn], ast.NotIn: [ast.In], ast.Is: [ast.IsNot], ast.IsNot: [ast.Is]}
NAME_SIBLINGS = [
    {"has_passed", "has_reached"}, {"successors", "successors_to_wait_for"}, {"input_delays", "triggering_ancestors"},
    {"event_inputs", "measurement_inputs"}, {"event_outputs", "measurement_outputs"}, {"merge_all", "merge_existing"},
    {"min", "max"}, {"any", "all"}, {"current_step", "last_step"}, {"pulled_inputs", "output_to_push"}, {"input_attrs", "output_attrs"},
    {"from_world_time", "to_world_time"}, {"src_sim", "dest_sim"}, {"src_group", "dest_group"}, {"part_a", "part_b"},
]
SIBLING = {}
for grp in NAME_SIBLINGS:
    for n in grp:
        SIBLING[n] = sorted(grp - {n})


@dataclass
class Mutant:
    mid: str
    rel: str
    func: str
    lineno: int
    desc: str
    src: str          # mutated module source


def _qualnames(tree: ast.Module) -> Iterator[Tuple[str, ast.AST]]:
    def visit(body, prefix):
        for st in body:
            if isinstance(st, (ast.FunctionDef, ast.AsyncFunctionDef)):
                yield prefix + st.name, st
                yield from visit(st.body, prefix + st.name + ".")
            elif isinstance(st, ast.ClassDef):
                yield from visit(st.body, prefix + st.name + ".")
    yield from visit(tree.body, "")


def _selected(qn: str, prefixes: Optional[List[str]]) -> bool:
    return prefixes is None or any(qn == p or qn.startswith(p) for p in prefixes)


def _is_docstring(st: ast.stmt) -> bool:
    return isinstance(st, ast.Expr) and isinstance(st.value, ast.Constant) and isinstance(st.value.value, str)


def generate(repo: str = REPO) -> List[Mutant]:
    out: List[Mutant] = []
    for rel, prefixes in TARGETS.items():
        path = os.path.join(repo, rel)
        if not os.path.exists(path):
            continue
        src = open(path).read()
        tree = ast.parse(src)
        funcs = [(qn, fn) for qn, fn in _qualnames(tree) if _selected(qn, prefixes)]
        # nested functions are mutated as part of their parents only once: keep outermost selected
        seen_nodes = set()
        for qn, fn in funcs:
            if any(id(fn) in seen_nodes for _ in [0]):
                continue
            for sub in ast.walk(fn):
                if isinstance(sub, (ast.FunctionDef, ast.AsyncFunctionDef)) and sub is not fn:
                    seen_nodes.add(id(sub))
            sites = list(_sites(fn))
            for k, (node, desc, apply) in enumerate(sites):
                t2 = copy.deepcopy(tree)
                # locate the same node in the copy by position in walk order
                idx = _index_of(tree, node)
                n2 = _node_at(t2, idx)
                if n2 is None:
                    continue
                try:
                    apply(n2, t2)
                    ast.fix_missing_locations(t2)
                    new_src = ast.unparse(t2)
                    compile(new_src, path, "exec", dont_inherit=True)
                except Exception:
                    continue
                out.append(Mutant(f"{rel.split('/')[-1][:-3]}:{qn}:{getattr(node, 'lineno', 0)}:{k}", rel, qn, getattr(node, "lineno", 0), desc, new_src))
    return out


def _index_of(tree: ast.AST, node: ast.AST) -> int:
    for i, n in enumerate(ast.walk(tree)):
        if n is node:
            return i
    return -1


def _node_at(tree: ast.AST, idx: int) -> Optional[ast.AST]:
    for i, n in enumerate(ast.walk(tree)):
        if i == idx:
            return n
    return None


def _replace_in_parent(tree: ast.AST, node: ast.AST, new: ast.AST) -> None:
    for parent in ast.walk(tree):
        for fld, val in ast.iter_fields(parent):
            if isinstance(val, list):
                for i, x in enumerate(val):
                    if x is node:
                        val[i] = new
                        return
            elif val is node:
                setattr(parent, fld, new)
                return


def _sites(fn: ast.AST):
    for node in ast.walk(fn):
        if isinstance(node, ast.Compare):
            for i, op in enumerate(node.ops):
                for alt in CMP_SWAP.get(type(op), []):
                    def ap(n, t, i=i, alt=alt):
                        n.ops[i] = alt()
                    yield node, f"cmp {type(op).__name__}->{alt.__name__}", ap
        elif isinstance(node, ast.BoolOp):
            def ap(n, t):
                n.op = ast.Or() if isinstance(n.op, ast.And) else ast.And()
            yield node, f"bool {type(node.op).__name__} swapped", ap
        elif isinstance(node, ast.UnaryOp) and isinstance(node.op, ast.Not):
            def ap(n, t):
                _replace_in_parent(t, n, n.operand)
            yield node, "drop not", ap
        elif isinstance(node, ast.Constant) and isinstance(node.value, bool):
            def ap(n, t):
                n.value = not n.value
            yield node, f"const {node.value}->{not node.value}", ap
        elif isinstance(node, ast.Constant) and isinstance(node.value, int) and not isinstance(node.value, bool) and -2 <= node.value <= 4:
            for d in (1, -1):
                def ap(n, t, d=d):
                    n.value = n.value + d
                yield node, f"const {node.value}->{node.value + d}", ap
        elif isinstance(node, ast.BinOp) and isinstance(node.op, (ast.Add, ast.Sub)):
            def ap(n, t):
                n.left, n.right = n.right, n.left
            yield node, "swap operands of +/-", ap
            def ap2(n, t):
                n.op = ast.Sub() if isinstance(n.op, ast.Add) else ast.Add()
            yield node, "+ <-> -", ap2
        elif isinstance(node, ast.Attribute) and node.attr in SIBLING:
            for alt in SIBLING[node.attr]:
                def ap(n, t, alt=alt):
                    n.attr = alt
                yield node, f"attr {node.attr}->{alt}", ap
        elif isinstance(node, ast.Name) and node.id in SIBLING and isinstance(node.ctx, ast.Load):
            for alt in SIBLING[node.id]:
                def ap(n, t, alt=alt):
                    n.id = alt
                yield node, f"name {node.id}->{alt}", ap
        elif isinstance(node, ast.IfExp):
            def ap(n, t):
                n.body, n.orelse = n.orelse, n.body
            yield node, "swap ifexp branches", ap
        elif isinstance(node, ast.If):
            def ap(n, t):
                n.test = ast.UnaryOp(op=ast.Not(), operand=n.test)
            yield node, "negate if", ap
    # statement deletions
    for node in ast.walk(fn):
        for fld in ("body", "orelse", "finalbody"):
            body = getattr(node, fld, None)
            if not isinstance(body, list):
                continue
            for st in body:
                if isinstance(st, (ast.Expr, ast.Assign, ast.AugAssign, ast.AnnAssign, ast.Raise, ast.Return, ast.Continue, ast.Break, ast.Assert)) and not _is_docstring(st):
                    if isinstance(st, ast.AnnAssign) and st.value is None:
                        continue
                    def ap(n, t):
                        _replace_in_parent(t, n, ast.Pass())
                    yield st, f"delete {type(st).__name__}", ap


def _run(args) -> Dict:
    m, repo, rules = args
    tmp = tempfile.mkdtemp(prefix="mverif-am-")
    try:
        shutil.copytree(os.path.join(repo, PACKAGE), os.path.join(tmp, PACKAGE), ignore=shutil.ignore_patterns("__pycache__"))
        with open(os.path.join(tmp, m.rel), "w") as f:
            f.write(m.src)
        from ..loader import AnalysisError
        from ..rules.base import Ctx
        from ..report import load_known
        from .. import props
        known = {k["key"] for k in load_known() if k.get("status") == "known"}
        fired: List[str] = []
        unknown: List[str] = []
        try:
            ctx = Ctx(Program(tmp))
            for r in rules:
                try:
                    col = props.rule_module(r).run(ctx)
                    for o in col.obs:
                        if o.verdict == "violated" and o.key not in known:
                            fired.append(o.oid)
                        elif o.verdict == "unknown":
                            unknown.append(o.oid)
                except AnalysisError as e:
                    unknown.append(f"{r}:{str(e)[:60]}")
                except Exception as e:  # a crash of the checker is an unknown, and a bug to fix
                    unknown.append(f"{r}:CRASH {type(e).__name__} {str(e)[:80]}")
        except AnalysisError as e:
            unknown.append(str(e)[:80])
        status = "killed" if fired else ("unknown" if unknown else "survived")
        return {"mid": m.mid, "desc": m.desc, "func": m.func, "rel": m.rel, "line": m.lineno, "status": status, "by": sorted(set(fired))[:4], "unknown": sorted(set(unknown))[:3]}
    finally:
        shutil.rmtree(tmp, ignore_errors=True)


def analyse(rules: Sequence[str], repo: str = REPO, limit: Optional[int] = None, seed: int = 0, only_funcs: Optional[Sequence[str]] = None, jobs: int = 16) -> List[Dict]:
    muts = generate(repo)
    if only_funcs is not None:
        muts = [m for m in muts if any(m.func == f or m.func.startswith(f) for f in only_funcs)]
    rnd = random.Random(seed)
    rnd.shuffle(muts)
    if limit is not None:
        muts = muts[:limit]
    work = [(m, repo, list(rules)) for m in muts]
    if not work:
        return []
    with ProcessPoolExecutor(max_workers=jobs) as ex:
        return list(ex.map(_run, work, chunksize=4))


def main(argv: List[str]) -> int:
    from .. import props
    import json
    rules = sorted(props.RULE_MODULES, key=lambda r: int(r[1:]))
    limit = int(argv[0]) if argv and argv[0].isdigit() else None
    res = analyse(rules, limit=limit)
    by = {"killed": 0, "unknown": 0, "survived": 0}
    for r in res:
        by[r["status"]] += 1
    print(json.dumps(by), f"of {len(res)} mutants; kill ratio {(by['killed']) / max(1, len(res)):.2f}")
    out = os.environ.get("AUTOMUT_OUT", "/tmp/automut.json")
    json.dump(res, open(out, "w"), indent=1)
    if limit is None:
        summ = os.path.join(os.path.dirname(os.path.dirname(os.path.dirname(os.path.abspath(__file__)))), "seeded", "automut_last.json")
        json.dump({"total": len(res), **by}, open(summ, "w"))
    for r in sorted(res, key=lambda r: (r["rel"], r["line"])):
        if r["status"] != "killed":
            print(f"{r['status']:8s} {r['rel']}:{r['line']} {r['func']}: {r['desc']}  {r['unknown'] if r['unknown'] else ''}")
    return 0


if __name__ == "__main__":
    sys.exit(main(sys.argv[1:]))
